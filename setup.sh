#!/bin/bash
# MANIFEST.setup_cmd: build the whole Coq development from files on disk (full .vo build, no -vos).
# Every check re-builds its own targets and reports a broken proof itself, so a failure of an
# unrelated file here must not stop the others: make -k, exit 0.
cd "$(dirname "$0")" || exit 1
/venv/bin/python -c "import sys; sys.path.insert(0,'harness'); import common; common.gen_coqproject()" 2>&1 | grep -v -i conda
cd coq || exit 1
coq_makefile -f _CoqProject -o Makefile > /dev/null
timeout 5000 make -k -j16 2>&1 | grep -v -i "conda" | tail -15
echo "setup done"
exit 0
