#!/bin/bash
# MANIFEST.setup_cmd: build the whole Coq development from files on disk (full .vo build).
set -e
cd "$(dirname "$0")/coq"
coq_makefile -f _CoqProject -o Makefile > /dev/null
timeout 3000 make -j16 2>&1 | grep -v -i "conda" | tail -5
echo "setup done"
