#!/bin/bash
# tools/try_seeded.sh <Cxx> <patch.diff> [tier]: run a check against a scratch copy of /repo with a patch applied.
P=$1; PATCH=$(readlink -f "$2"); TIER=${3:-quick}
D=$(mktemp -d /var/tmp/repo-seed.XXXXXX)
cp -a /repo/. "$D/" && git -C "$D" apply "$PATCH" || { echo "patch does not apply"; rm -rf "$D"; exit 3; }
cd /verif && VERIF_REPO="$D" ./check "$P" --tier "$TIER" 2>&1 | grep "VIOLATION\|^OK\|KNOWN-FINDING" | tail -12
rc=${PIPESTATUS[0]}
rm -rf "$D"
exit $rc
