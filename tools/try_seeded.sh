#!/bin/bash
# tools/try_seeded.sh <Cxx> <patch.diff> [tier]: run a check against a scratch copy of /repo with a patch applied.
# The check itself runs from a private copy of a built snapshot of /verif (TRY_VERIF, default /var/tmp/verif-stable if it
# exists, else /verif itself) so that regenerated coq/Gen files of parallel trials and of builders do not interfere.
P=$1; PATCH=$(readlink -f "$2"); TIER=${3:-quick}
D=$(mktemp -d /var/tmp/repo-seed.XXXXXX)
cp -a /repo/. "$D/" && git -C "$D" apply "$PATCH" || { echo "patch does not apply"; rm -rf "$D"; exit 3; }
SRC=${TRY_VERIF:-/var/tmp/verif-stable}; [ -d "$SRC/coq" ] || SRC=/verif
if [ "$SRC" = /verif ]; then V=/verif; else V=$(mktemp -d /var/tmp/verif-try.XXXXXX); cp -a "$SRC/." "$V/"; fi
cd "$V" && VERIF_REPO="$D" VERIF_ALT_EVIDENCE="$V/alt-evidence" ./check "$P" --tier "$TIER" 2>&1 | grep "VIOLATION\|^OK\|KNOWN-FINDING" | tail -12
rc=${PIPESTATUS[0]}
if [ "$V" != /verif ]; then
  mkdir -p /verif/replays/seeded; cp "$V"/replays/$P-*.json /verif/replays/seeded/ 2>/dev/null
  rm -rf "$V"
fi
rm -rf "$D"
exit $rc
