#!/bin/bash
# tools/mkworktree.sh <dir>: scratch git worktree of /repo's HEAD with the (git-ignored) compiled
# extensions and generated Cython glue copied in, so that `PYTHONPATH=<dir> /venv/bin/python -m pytest` works.
set -e
D=$1
git -C /repo worktree add --detach "$D" HEAD >/dev/null 2>&1
cd /repo
for f in $(git status --short --ignored | awk '/^!!/{print $2}' | grep -E '\.so$|\.c$|\.cpp$'); do
  mkdir -p "$D/$(dirname $f)"; cp -p "$f" "$D/$f"
done
echo "$D ready"
