#!/usr/bin/env python3
"""Validate MANIFEST.json and every evidence file against the schemas (run with python3-vt)."""
import glob, json, sys, jsonschema
ok = True
jsonschema.validate(json.load(open("/verif/MANIFEST.json")), json.load(open("/root/.vp/MANIFEST.schema.json")))
es = json.load(open("/root/.vp/EVIDENCE.schema.json"))
for p in sorted(glob.glob("/verif/evidence/C*.json")):
    try:
        jsonschema.validate(json.load(open(p)), es)
        print("ok ", p)
    except Exception as e:
        ok = False
        print("BAD", p, str(e)[:300])
sys.exit(0 if ok else 1)
