#!/usr/bin/env python3
"""Record, in seeded/<id>/meta.json, the verdict each wave-4 seeded change got from the check AS IT WAS when the
change arrived (log written by tools/stage4.sh: /var/tmp/wave4.log), before any strengthening."""
import json, os, re, sys
V = os.path.dirname(os.path.dirname(os.path.abspath(__file__)))
log = sys.argv[1] if len(sys.argv) > 1 else "/var/tmp/wave4.log"
WAVE = int(sys.argv[2]) if len(sys.argv) > 2 else 4
first = {}
for l in open(log):
    m = re.match(r"(C\d\d-\d+): (.*)", l)
    if m and m.group(1) not in first:
        first[m.group(1)] = m.group(2)
for sid, v in sorted(first.items()):
    p = os.path.join(V, "seeded", sid, "meta.json")
    if not os.path.exists(p):
        print(sid, "not in seeded/ (not confirmed?)"); continue
    meta = json.load(open(p))
    if v.startswith("OK"):
        fv = ("MISSED by the check as it was when the change arrived; the check was strengthened (new input axis / "
              "oracle, see DESIGN.md 11.7 and the property's text in 11.6)")
    elif "no-failing-input-found" in v and v.count("VIOLATION") == 1:
        fv = "reported only as a broken obligation (no-failing-input-found) by the check as it was when the change arrived"
    else:
        fv = "caught with a failing input by the check as it was when the change arrived"
    meta["first_verdict"] = fv
    meta["wave"] = WAVE
    json.dump(meta, open(p, "w"), indent=1)
    print(sid, fv[:60])
