#!/bin/bash
# tools/stage.sh <wave> <Cxx>: stage the two candidates of /tmp/mut<wave>-Cxx/_out/{1,2} as Cxx-(2*wave-2+k) for the confirm
# daemon and run the property's quick check against each patch right away (scratch copy of /repo, private snapshot of /verif).
W=$1; P=$2
for k in 1 2; do
  n=$((2*W-2+k)); S=/tmp/mut$W-$P/_out/$k; D=/var/tmp/seeded-staging/$P-$n
  [ -f $S/patch.diff ] || { echo "$P-$n: no patch"; continue; }
  rm -rf $D; mkdir -p $D; cp $S/patch.diff $S/demo.py $S/meta.json $D/
  r=$(/verif/tools/try_seeded.sh $P $D/patch.diff quick 2>&1 | grep "VIOLATION\|^OK\|patch does not" | head -3 | cut -c1-300 | tr '\n' ' ')
  echo "$P-$n: $r" | tee -a /var/tmp/wave$W.log
done
