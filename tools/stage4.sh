#!/bin/bash
# tools/stage4.sh Cxx: stage the two wave-4 candidates of /tmp/mut4-Cxx/_out/{1,2} as Cxx-7, Cxx-8 for the confirm
# daemon, and run the property's quick check against each patch right away (scratch copy of /repo).
P=$1
for k in 1 2; do
  n=$((k+6)); S=/tmp/mut4-$P/_out/$k; D=/var/tmp/seeded-staging/$P-$n
  [ -f $S/patch.diff ] || { echo "$P-$n: no patch"; continue; }
  rm -rf $D; mkdir -p $D; cp $S/patch.diff $S/demo.py $S/meta.json $D/
  r=$(/verif/tools/try_seeded.sh $P $D/patch.diff quick 2>&1 | grep "VIOLATION\|^OK\|patch does not" | head -3 | cut -c1-300 | tr '\n' ' ')
  echo "$P-$n: $r" | tee -a /var/tmp/wave4.log
done
