#!/bin/bash
# tools/rebase_seeded.sh <seeded dir>: regenerate patch.diff against /repo's HEAD when only context lines moved
# (uses patch(1) with fuzz in a scratch copy; keeps the original as patch.orig.diff).
D=$(readlink -f "$1"); W=$(mktemp -d /var/tmp/rebase.XXXXXX)
cp -a /repo/. "$W/"; cd "$W"; git checkout -q -- . 
if patch -p1 --fuzz=3 --no-backup-if-mismatch < "$D/patch.diff" > "$W/patch.log" 2>&1; then
  find . -name '*.orig' -newer "$W/patch.log" -delete 2>/dev/null
  git diff -- mdtraj > "$W/new.diff"
  if [ -s "$W/new.diff" ]; then cp "$D/patch.diff" "$D/patch.orig.diff"; cp "$W/new.diff" "$D/patch.diff"; echo "rebased $(basename $D)"; else echo "empty diff"; fi
else echo "cannot rebase $(basename $D)"; cat "$W/patch.log"; fi
cd /; rm -rf "$W"
