#!/bin/bash
for p in $(cat /verif/tools/enabled.txt); do
  r=$(/verif/tools/try_seeded.sh $p /verif/seeded/_harmless/patch.diff quick 2>&1 | grep "VIOLATION\|^OK" | head -3 | cut -c1-250 | tr '\n' ' ')
  echo "$p: $r"
done
