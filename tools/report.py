#!/usr/bin/env python3
"""Regenerate the machine-written tables of DESIGN.md section 11 (between the BEGIN/END AUTO markers):
fix commits in /repo, known findings, seeded changes and which check catches them (from seeded/*/meta.json)."""
import glob, json, os, re, subprocess
V = os.path.dirname(os.path.dirname(os.path.abspath(__file__)))
out = []
out.append("### 11.3 Repairs committed to /repo (`fix:` commits, oldest first)\n")
log = subprocess.run(["git", "-C", "/repo", "log", "--reverse", "--format=%h %s", "2aa5d5bf..HEAD"], capture_output=True, text=True).stdout
for l in log.splitlines():
    out.append("* `%s` %s" % tuple(l.split(" ", 1)))
out.append("")
out.append("### 11.4 Findings (known_findings/*.json merged into KNOWN_FINDINGS.json)\n")
out.append("| property | id | status | what |")
out.append("|---|---|---|---|")
seen = set()
files = [os.path.join(V, "KNOWN_FINDINGS.json")] + sorted(glob.glob(os.path.join(V, "known_findings", "*.json")))
rows = []
for f in files:
    for k in json.load(open(f)).get("findings", []):
        if k["id"] in seen:
            continue
        seen.add(k["id"])
        what = re.sub(r"^fixed: property=\S+ \S+ ", "", k["what"]).replace("|", "\\|")
        rows.append((k["property"], k["id"], k["kind"] + (" " + k.get("commit", "") if k["kind"] == "fixed" else ""), what[:260]))
for r in sorted(rows):
    out.append("| %s | %s | %s | %s |" % r)
out.append("")
out.append("### 11.5 Seeded changes (written by independent agents from the property text only) and which check catches them\n")
out.append("| seeded | site | needs | caught by | note | when it arrived |")
out.append("|---|---|---|---|---|---|")
for d in sorted(glob.glob(os.path.join(V, "seeded", "C*"))):
    m = json.load(open(os.path.join(d, "meta.json")))
    c = m.get("caught", {})
    out.append("| %s | %s | %s | %s | %s | %s |" % (os.path.basename(d), str(m.get("site", "")).replace("|", "/")[:80],
               str(m.get("needs", "")).replace("|", "/").replace("\n", " ")[:200], c.get("by", "?"), c.get("note", ""), str(m.get("first_verdict", ""))[:60]))
out.append("")
out.append("### 11.6 Per-property status (from tools/manifest/Cxx.json and the last evidence files)\n")
enabled = set(open(os.path.join(V, "tools", "enabled.txt")).read().split())
for f in sorted(glob.glob(os.path.join(V, "tools", "manifest", "C*.json"))):
    pid = os.path.basename(f)[:-5]
    m = json.load(open(f))
    ev = {}
    try:
        ev = json.load(open(os.path.join(V, "evidence", pid + ".json")))
    except Exception:
        pass
    cov = ev.get("coverage", {})
    out.append("**%s** (%s) — technique: %s. Last run: tier %s, %s obligations (%s discharged), %s correspondence evaluations (%s distinct non-trivial), axioms: %s." % (
        pid, "claimed" if pid in enabled else "not claimed", m.get("technique", ""), ev.get("tier", "?"), cov.get("obligations", "?"),
        cov.get("discharged", "?"), cov.get("evaluations", "?"), cov.get("distinct_nontrivial", "?"),
        next((t for t in cov.get("trusted_base", []) if t.startswith("axioms")), "?")))
    out.append("")
    out.append("*Proved / tested:* " + m.get("text", ""))
    out.append("")
    out.append("*Trusted / modelled:* " + m.get("note", ""))
    out.append("")
text = "\n".join(out) + "\n"
p = os.path.join(V, "DESIGN.md")
s = open(p).read()
b, e = "<!-- BEGIN AUTO -->", "<!-- END AUTO -->"
if b in s:
    s = s[:s.index(b) + len(b)] + "\n" + text + s[s.index(e):]
else:
    s += "\n" + b + "\n" + text + e + "\n"
open(p, "w").write(s)
print("DESIGN.md tables regenerated:", len(rows), "findings")
