#!/bin/bash
# Processes /var/tmp/seeded-staging/<Cxx>-<k>/ directories that have no .done marker, one at a time.
while true; do
  for d in /var/tmp/seeded-staging/*/; do
    b=$(basename "$d"); [ -e "$d/.done" ] && continue
    touch "$d/.done"
    /verif/tools/confirm_seeded.sh "${b%-*}" "${b##*-}" "$d" >> /var/tmp/confirm2.log 2>&1
  done
  [ -e /var/tmp/seeded-staging/STOP ] && exit 0
  sleep 60
done
