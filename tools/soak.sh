#!/bin/bash
# tools/soak.sh <tier> <seed>...: location-independent soak (works inside a `vp run` snapshot): builds the Coq
# development if needed, then runs every enabled check once per seed and prints one line per run.
D="$(cd "$(dirname "$0")/.." && pwd)"; cd "$D" || exit 2
TIER=$1; shift
[ -f coq/Props/C01.vo ] || ./setup.sh > /dev/null 2>&1
for SEED in "$@"; do
  for p in $(cat tools/enabled.txt); do
    s=$(date +%s)
    out=$(VERIF_SEED=$SEED VERIF_ALT_EVIDENCE=$D/evidence ./check $p --tier $TIER 2>&1)
    rc=$?
    e=$(( $(date +%s) - s ))
    echo "$p seed=$SEED tier=$TIER rc=$rc wall=${e}s $(echo "$out" | grep -c KNOWN-FINDING) known; $(echo "$out" | grep 'VIOLATION\|BROKEN\|Traceback' | head -3 | cut -c1-400 | tr '\n' ' ')"
    if [ $rc -ne 0 ]; then mkdir -p soaklogs; echo "$out" > soaklogs/$p-$SEED-$TIER.log; cp replays/$p-*.json soaklogs/ 2>/dev/null; fi
  done
done
