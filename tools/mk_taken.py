#!/usr/bin/env python3
"""tools/mk_taken.py <Cxx> <out>: one line per seeded change already written for a property (site, summary, needs),
from seeded/ and the staging directory, for the brief of the next independent agent."""
import glob, json, sys
p, out = sys.argv[1], sys.argv[2]
rows = {}
for d in sorted(glob.glob('/verif/seeded/%s-*' % p)) + sorted(glob.glob('/var/tmp/seeded-staging/%s-*' % p)):
    try:
        m = json.load(open(d + '/meta.json'))
    except Exception:
        continue
    rows[d.split('/')[-1]] = "- site %s: %s (needs: %s)" % (m.get('site'), str(m.get('summary'))[:300], str(m.get('needs'))[:200])
open(out, 'w').write("Changes already written by other people for this property (yours must differ from all of them in code site AND mechanism):\n" + "\n".join(rows.values()) + "\n")
print(len(rows))
