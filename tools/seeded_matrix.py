#!/usr/bin/env python3
"""Run every seeded change against the check of its property (scratch copy of /repo, never /repo itself),
record the verdict in seeded/<id>/meta.json ("caught") and print the matrix.
usage: tools/seeded_matrix.py [ids...]   (default: all)   env TIER=quick|thorough, EXTRA="C03:C06-2,..." """
import glob, json, os, subprocess, sys, time
V = os.path.dirname(os.path.dirname(os.path.abspath(__file__)))
ids = sys.argv[1:] or sorted(os.path.basename(d) for d in glob.glob(os.path.join(V, "seeded", "C*")))
tier = os.environ.get("TIER", "quick")
for sid in ids:
    d = os.path.join(V, "seeded", sid)
    meta = json.load(open(os.path.join(d, "meta.json")))
    prop = sid.split("-")[0]
    checks = [prop] + [c for c in meta.get("also_run", [])]
    res = {}
    for chk in checks:
        t0 = time.time()
        r = subprocess.run([os.path.join(V, "tools", "try_seeded.sh"), chk, os.path.join(d, "patch.diff"), tier],
                           capture_output=True, text=True)
        lines = [l for l in r.stdout.splitlines() if l.startswith(("VIOLATION", "OK "))]
        viol = [l for l in lines if l.startswith("VIOLATION")]
        res[chk] = {"exit": r.returncode, "violations": len(viol), "no_failing_input": any("no-failing-input-found" in l for l in viol),
                    "wall_s": round(time.time() - t0)}
    caught = [c for c, v in res.items() if v["exit"] == 1 and v["violations"]]
    with_input = [c for c in caught if not res[c]["no_failing_input"] or res[c]["violations"] > 1]
    meta["caught"] = {"by": ", ".join("./check %s" % c for c in caught) or "NOT CAUGHT",
                      "note": ("failing input reported" if with_input else ("broken obligation only (no-failing-input-found)" if caught else "")),
                      "tier": tier, "runs": res,
                      "ran": "tools/try_seeded.sh <check> seeded/%s/patch.diff %s  (cp -a /repo to a scratch dir, git apply, VERIF_REPO=<dir> ./check; scratch dir removed)" % (sid, tier)}
    json.dump(meta, open(os.path.join(d, "meta.json"), "w"), indent=1)
    print(sid, meta["caught"]["by"], "|", meta["caught"]["note"], flush=True)
