NOTES = ("Machine-checked proof in Coq 8.16.1; see DESIGN.md. KNOWN_FINDINGS.json lists genuine defects of mdtraj "
         "found by the checks (kind=known) and repaired ones (kind=fixed, 'fix:' commits in /repo).")

CHECKS = {
 "C18": {
  "technique": "Coq refinement proof (reader state machines refine an abstract cursor, induction over op histories) + vm_compute correspondence against real files",
  "text": "Theorems cursor_refines_{h5,sequential,xtc,netcdf_fixed}: for every file and every in-range op history the reader model returns exactly the abstract cursor's frames/positions/len; handles_independent; len_stable; the as-found NetCDF and TRR readers are proved NOT to refine it (…_refuted). The models are tied to /repo on every run: each history is executed on real files of all 10 formats and compared, inside coqc, with the model variant assigned to the format and with the abstract cursor.",
  "note": "Trusted: Coq kernel + vm_compute; no axioms (Print Assumptions: closed). Modelled, not verified: file contents as a list of frame identifiers; xdrfile/dcdplugin/PyTables/netCDF byte-level I/O; TRR/XTC read-ahead chunk assumed larger than the file (T<100 in the runs). .pyx readers are tied by correspondence with the compiled binary only.",
 },
}

_WIP = "check under construction in this session (DESIGN.md section 5 describes the planned model and theorems); not claimed yet"
NOT_APPLICABLE = {p: _WIP for p in ["C%02d" % i for i in range(1, 21)]}
