NOTES = ("Machine-checked proof in Coq 8.16.1; see DESIGN.md. KNOWN_FINDINGS.json lists genuine defects of mdtraj "
         "found by the checks (kind=known) and repaired ones (kind=fixed, 'fix:' commits in /repo).")

import glob, json, os
CHECKS = {}
for _p in sorted(glob.glob(os.path.join(os.path.dirname(os.path.abspath(__file__)), "manifest", "C*.json"))):
    CHECKS[os.path.basename(_p)[:-5]] = json.load(open(_p))

_WIP = "check under construction in this session (DESIGN.md section 5 describes the planned model and theorems); not claimed yet"
NOT_APPLICABLE = {p: _WIP for p in ["C%02d" % i for i in range(1, 21)]}
