#!/bin/bash
# tools/confirm_seeded.sh <Cxx> <k> <src_dir with patch.diff demo.py meta.json>
# Confirms a candidate seeded change in a fresh scratch worktree: patch applies, demo passes on the pristine tree,
# fails with the change, the pinned test-suite still passes with it.  On success copies it to /verif/seeded/<Cxx>-<k>/.
P=$1; K=$2; SRC=$(readlink -f "$3")
W=/tmp/confirm-$P-$K
rm -rf "$W"; /verif/tools/mkworktree.sh "$W" >/dev/null || exit 3
cd "$W"
res() { echo "$1"; }
PYTHONPATH=$W timeout 600 /venv/bin/python "$SRC/demo.py" >/dev/null 2>&1; d0=$?
git apply "$SRC/patch.diff" || { echo "$P-$K: patch does not apply"; git -C /repo worktree remove --force "$W"; exit 3; }
REB=$(python3 -c "import json;print(json.load(open('$SRC/meta.json')).get('rebuild') or '')")
if git diff --name-only | grep -qE '\.(c|cpp|h|hpp|cxx)$'; then
  for ext in $(/venv/bin/python - <<PY 2>/dev/null
import sys; sys.path.insert(0,'/verif/harness'); import build_ext, subprocess
ch=subprocess.run(['git','diff','--name-only'],capture_output=True,text=True,cwd='$W').stdout.split()
for n in build_ext.EXTS:
    fs=set(build_ext._files_for_hash('$W',n))
    if fs & set(ch): print(n)
PY
); do /venv/bin/python /verif/harness/build_ext.py inplace "$W" $ext >/dev/null 2>&1 || echo "rebuild $ext failed"; done
fi
PYTHONPATH=$W timeout 600 /venv/bin/python "$SRC/demo.py" > "$W/demo_mut.log" 2>&1; d1=$?
PYTHONPATH=$W nice -n 10 /verif/tools/baseline.sh "$W" > "$W/suite.log" 2>&1; s=$?
echo "$P-$K: demo pristine=$d0 mutant=$d1 suite_rc=$s $(tail -1 $W/suite.log | head -c 200)"
if [ $d0 -eq 0 ] && [ $d1 -ne 0 ] && [ $s -eq 0 ]; then
  D=/verif/seeded/$P-$K; mkdir -p "$D"; cp "$SRC/patch.diff" "$SRC/demo.py" "$D/"
  python3 - "$SRC/meta.json" "$D/meta.json" "$P" <<'PY'
import json,sys
m=json.load(open(sys.argv[1])); m['property']=sys.argv[3]
m['confirmed_by_coordinator']={"demo_on_pristine_exit":0,"demo_with_change_exit":"nonzero","pinned_test_suite_with_change":"all 907 stable_pass tests pass (tools/baseline.sh in a scratch worktree)"}
json.dump(m,open(sys.argv[2],'w'),indent=1)
PY
  echo "$P-$K: KEPT"
else
  echo "$P-$K: REJECTED"; tail -5 "$W/demo_mut.log"
fi
cd /; git -C /repo worktree remove --force "$W"
