#!/usr/bin/env python3
"""Regenerate /verif/MANIFEST.json from tools/manifest_table.py and validate it."""
import json, os, sys
HERE = os.path.dirname(os.path.abspath(__file__))
sys.path.insert(0, HERE)
from manifest_table import CHECKS, NOT_APPLICABLE, NOTES

ids = [json.loads(l)["id"] for l in open(os.path.join(HERE, "..", "properties.jsonl"))]
checks = []
ENABLED = set(open(os.path.join(HERE, "enabled.txt")).read().split())
CATS = {"exploration", "fault_enumeration", "model_checking", "proof", "translation_validation", "other"}
for pid in ids:
    if pid not in CHECKS or pid not in ENABLED:
        continue
    c = CHECKS[pid]
    if c.get("category", "proof") not in CATS:
        c["category"] = "proof"
    checks.append({
        "property_id": pid,
        "quick_cmd": "./check %s --tier quick" % pid,
        "thorough_cmd": "./check %s --tier thorough" % pid,
        "evidence_file": "/verif/evidence/%s.json" % pid,
        "replay_cmd_template": "./check %s --replay {path}" % pid,
        "engine": "coq-model+correspondence",
        "level_claimed": {"category": c.get("category", "proof"), "text": c["text"], "design_ref": c.get("design_ref", "DESIGN.md section 5 (%s)" % pid)},
        "level_note": c["note"],
        "technique": c["technique"],
    })
na = [{"property_id": p, "reason": NOT_APPLICABLE[p]} for p in ids if p not in {c["property_id"] for c in checks}]
m = {
    "version": 1,
    "setup_cmd": "./setup.sh",
    "hooks": {"guard": "MDTRAJ_VERIF", "enable": "no source hooks are needed: checks observe mdtraj through its public API, Python attributes and harness-side shims; MDTRAJ_VERIF=1 is exported by the harness but nothing in /repo reads it",
              "baseline_off_cmd": "cd /repo && /venv/bin/python -m pytest -ra -q -p no:cacheprovider --timeout=900 --continue-on-collection-errors",
              "source_commits": [], "add_only": True},
    "engines": [{"name": "coq-model+correspondence", "path": "/verif/check", "serves_properties": [c["property_id"] for c in checks],
                 "kind_free_text": "Coq 8.16.1 theorems about executable Gallina models (coq/), re-checked on every run; model tied to /repo by translators (coq/Gen) and by a differential correspondence check evaluated with vm_compute inside coqc (harness/)"}],
    "checks": checks,
    "notes": NOTES,
    "not_applicable": na,
}
out = os.path.join(HERE, "..", "MANIFEST.json")
import jsonschema
jsonschema.validate(m, json.load(open("/root/.vp/MANIFEST.schema.json")))   # never write an invalid manifest
json.dump(m, open(out, "w"), indent=1)
print("MANIFEST.json valid;", len(checks), "checks,", len(na), "not claimed")
