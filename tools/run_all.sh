#!/bin/bash
# tools/run_all.sh <seed> [tier]: run every registered check sequentially on /repo; print verdict lines and times.
SEED=${1:-20260930}; TIER=${2:-quick}
cd /verif
for p in $(cat tools/enabled.txt); do
  s=$(date +%s)
  out=$(VERIF_SEED=$SEED ./check $p --tier $TIER 2>/dev/null)
  rc=$?
  e=$(( $(date +%s) - s ))
  echo "$p seed=$SEED rc=$rc wall=${e}s $(echo "$out" | grep -c KNOWN-FINDING) known; $(echo "$out" | grep VIOLATION | head -2 | tr '\n' ' ')"
done
