#!/usr/bin/env python3
"""Merge known_findings/*.json fragments into the single committed KNOWN_FINDINGS.json."""
import glob, json, os
HERE = os.path.dirname(os.path.abspath(__file__))
main = os.path.join(HERE, "..", "KNOWN_FINDINGS.json")
doc = json.load(open(main))
byid = {k["id"]: k for k in doc["findings"]}
for p in sorted(glob.glob(os.path.join(HERE, "..", "known_findings", "*.json"))):
    for k in json.load(open(p)).get("findings", []):
        byid[k["id"]] = k
doc["findings"] = sorted(byid.values(), key=lambda k: (k["property"], k["id"]))
json.dump(doc, open(main, "w"), indent=1)
print(len(doc["findings"]), "findings")
