#!/bin/bash
# Run mdtraj's pinned test suite (guard off) and compare with the stable_pass list of BASELINE.json.
# usage: tools/baseline.sh [repo_dir]   -> prints missing passes; exit 0 iff every stable_pass test passed
REPO=${1:-/repo}
OUT=$(mktemp /var/tmp/baseline.XXXXXX.xml)
cd "$REPO" && env -u MDTRAJ_VERIF /venv/bin/python -m pytest -q -p no:cacheprovider --timeout=900 --continue-on-collection-errors -x --co -q >/dev/null 2>&1
cd "$REPO" && env -u MDTRAJ_VERIF /venv/bin/python -m pytest -ra -q -p no:cacheprovider --timeout=900 --continue-on-collection-errors --junitxml="$OUT" > "$OUT.log" 2>&1
python3 - "$OUT" <<'PY'
import json, sys, xml.etree.ElementTree as ET
base = set(json.load(open('/root/.vp/BASELINE.json'))['stable_pass'])
passed = set()
for tc in ET.parse(sys.argv[1]).getroot().iter('testcase'):
    if not any(ch.tag in ('failure', 'error', 'skipped') for ch in tc):
        passed.add(tc.get('classname') + '::' + tc.get('name'))
missing = sorted(base - passed)
print("stable_pass:", len(base), "passed now:", len(base & passed), "missing:", len(missing))
for m in missing[:40]:
    print("  MISSING", m)
sys.exit(1 if missing else 0)
PY
rc=$?
rm -f "$OUT" "$OUT.log"
exit $rc
