#!/usr/bin/env python3
"""tools/flip_fixed.py <finding id> <repo commit>: mark a known finding as repaired by a 'fix:' commit in /repo."""
import glob, json, os, sys
V = os.path.dirname(os.path.dirname(os.path.abspath(__file__)))
fid, commit = sys.argv[1], sys.argv[2]
for p in sorted(glob.glob(os.path.join(V, "known_findings", "*.json"))):
    d = json.load(open(p)); hit = False
    for f in d["findings"]:
        if f["id"] == fid:
            f["kind"] = "fixed"; f["commit"] = commit
            if not f["what"].startswith("fixed:"):
                f["what"] = "fixed: property=%s %s %s" % (f["property"], commit, f["what"])
            hit = True
    if hit:
        json.dump(d, open(p, "w"), indent=1); print("flipped in", p)
