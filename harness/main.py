#!/venv/bin/python
"""Driver:  ./check Cxx [--tier quick|thorough] [--replay file]   (cwd /verif)."""
import argparse
import importlib
import json
import os
import sys
import traceback

sys.path.insert(0, os.path.dirname(os.path.abspath(__file__)))
import common  # noqa: E402


def main():
    ap = argparse.ArgumentParser()
    ap.add_argument("prop")
    ap.add_argument("--tier", default=os.environ.get("VERIF_TIER", "quick"))
    ap.add_argument("--replay")
    ap.add_argument("--no-prove", action="store_true", help="developer switch: skip the Coq stage")
    a = ap.parse_args()
    seed = int(os.environ.get("VERIF_SEED", "20260930"))
    mod = importlib.import_module("props.%s" % a.prop)
    ctx = common.Ctx(a.prop, a.tier, seed, mod)
    ctx.dev_run = bool(a.no_prove or a.replay)   # developer / replay runs never overwrite the registered evidence
    rc = 2
    try:
        ctx.prepare_impl()
        if a.replay:
            with open(a.replay) as fh:
                rec = json.load(fh)
            ctx.log("replaying", a.replay)
            if rec.get("stage") == "prove/tie" or not rec.get("case"):
                # a broken obligation: re-run the whole check
                pass
            else:
                mod.replay(ctx, rec)
                rc = ctx.finish()
                return rc
        if hasattr(mod, "translate"):
            try:
                mod.translate(ctx)
            except Exception as e:  # fail-closed: translator could not read the source
                ctx.notes["translator"] = "degraded: %s" % e
                ctx.log("translator degraded:", e)
                if getattr(mod, "TRANSLATOR_REQUIRED", False):
                    ctx.break_("translator", traceback.format_exc())
        if not a.no_prove:
            ctx.prove(mod.THEOREMS, getattr(mod, "EXTRA_TARGETS", ()))
        try:
            mod.correspond(ctx)
        except Exception:
            ctx.break_("correspondence-harness", traceback.format_exc())
        if ctx.broken and not ctx.unlisted() and hasattr(mod, "search"):
            try:
                mod.search(ctx, ctx.broken)
            except Exception:
                ctx.log("search crashed:\n" + traceback.format_exc())
        rc = ctx.finish()
    finally:
        ctx.cleanup()
    return rc


if __name__ == "__main__":
    sys.exit(main())
