"""C15 -- secondary-structure codes follow the DSSP rules on the backbone H-bonds.

Model   : coq/Dssp/Model.v  (transliteration of dssp.cpp + dssp.py, pure function of
          (n, chain ids, skip mask, H-bond table, kappa>70 flags)); coq/Dssp/Bend.v (kappa > 70 degrees on exact CA
          coordinates; skip mask from atom names via coq/Hbond/KsWrap.v); tables regenerated into coq/Gen/DsspTables.v.
Theorems: coq/Props/C15.v  (the DSSP rules as characterisations of the model's output).
Tie     : (a) harness/shims/dssp_shim.cpp #includes the working tree's dssp.cpp and replaces kabsch_sander by a
          table reader, so mdtraj's dssp() runs on synthetic H-bond tables: exhaustive small tables, random tables
          with planted motifs; (b) md.compute_dssp(simplified in {T,F}) end to end on proteins of tests/data and
          perturbed / truncated / atom-deleted variants with md.kabsch_sander as the H-bond source.
          The DSSP strings are compared exactly with the model, evaluated by vm_compute inside coqc.
"""
import itertools
import os
import re

import common
from common import cnat, cbool, clist, cstr, cz

LEVEL = "proof"
THEOREMS = "Props/C15.v"
EXTRA_TARGETS = ("Gen/DsspTables.vo", "Dssp/Bend.vo")
EXTS = ["_geometry"]
RULE = ("synthetic stream: H-bond tables (<=2 acceptors per donor) x chain partition x missing-atom mask x bend angles, "
        "exhaustive for small n / few bonds, random with planted helix(3,4,5)/hairpin/parallel/bulge motifs up to 40 "
        "residues and 3 chains, 1..3 frames per call; a table is non-trivial when the model output contains a code "
        "other than blank; end-to-end stream: tests/data proteins x coordinate noise x residue window x deleted "
        "backbone atoms x residues renamed to names outside mdtraj's amino-acid table (HIE CYX NALA LIG ...) x coinciding CA atoms x bend angles set 0.004..0.1 degree off the threshold "
        "x 1..6 frames x simplified in {T,F}; call histories: on ONE Trajectory/Topology object compute_dssp / "
        "kabsch_sander calls are interleaved with in-place renames of backbone atoms and residues, every call compared "
        "with the model of the topology as it is at that moment; distinct by hash of the case")
TRUSTED = ["harness/shims/dssp_shim.cpp (feeds tables to mdtraj's dssp(); builds CA coordinates with prescribed kappa)",
           "harness/impl/dssp_impl.py (end to end: hands over residue / atom names, chain index per residue, md.kabsch_sander's "
           "bonds and the float32 CA coordinates converted exactly to integers in a common power-of-two unit)",
           "generator harness/props/C15.py; comparison by vm_compute inside coqc"]
ASSUMPTIONS = ["the H-bond pattern is the one md.kabsch_sander reports for the same frame (C14 covers its correctness)",
               "std::sort on bridges is modelled as a stable sort; cases with >16 bridges and equal sort keys "
               "(order unspecified in C++) are excluded from exact comparison and counted",
               "end to end the bend test kappa>70deg is decided by the model on exact coordinates (proved enclosure of cos 70deg); "
               "frames in which a bend flag that matters lies within 1/1000 degree of the threshold are excluded and counted "
               "(mdtraj evaluates the angle in float32); in the synthetic-table stream the bend enters as a flag"]

SHIM = os.path.join(common.VERIF, "harness", "shims", "dssp_shim.cpp")
NONTABLE_NAMES = ["HIE", "HID", "CYX", "ASH", "HSD", "NALA", "CALA", "LIG", "XYZ"]
E2E_FILES = ["1vii.pdb", "bpti.pdb", "1bpi.pdb", "2EQQ.pdb", "4OH9.pdb", "1am7_protein.pdb", "aaqaa-wat.pdb",
             "1ncw.pdb.gz", "1vii_sustiva_water.pdb"]


# ------------------------------------------------------------------------------------------------ translator
def translate(ctx):
    src = open(os.path.join(common.REPO, "mdtraj/geometry/src/dssp.cpp")).read()
    py = open(os.path.join(common.REPO, "mdtraj/geometry/dssp.py")).read()
    m = re.search(r"enum\s+ss_t\s*\{([^}]*)\}", src)
    if not m:
        raise ValueError("enum ss_t not found")
    names = [x.strip() for x in m.group(1).replace("\n", " ").split(",") if x.strip()]
    if sorted(names) != sorted(["SS_LOOP", "SS_ALPHAHELIX", "SS_BETABRIDGE", "SS_STRAND", "SS_HELIX_3", "SS_HELIX_5",
                                "SS_TURN", "SS_BEND"]):
        raise ValueError("enum ss_t has unexpected members %s" % names)
    sw = re.search(r"char\s+ss\s*=\s*'(.)'\s*;\s*switch\s*\(\s*framesecondary\[j\]\s*\)\s*\{(.*?)\}", src, re.S)
    if not sw:
        raise ValueError("char switch not found")
    default = sw.group(1)
    cases = re.findall(r"case\s+(SS_[A-Z0-9_]+)\s*:\s*ss\s*=\s*'(.)'\s*;\s*break\s*;", sw.group(2))
    if len(cases) != len(re.findall(r"\bcase\b", sw.group(2))):
        raise ValueError("unparsed case in the char switch")
    mt = re.search(r"SIMPLIFIED_CODE_TRANSLATION\s*=\s*str\.maketrans\(\s*\"([^\"]*)\"\s*,\s*\"([^\"]*)\"\s*\)", py)
    if not mt or len(mt.group(1)) != len(mt.group(2)):
        raise ValueError("SIMPLIFIED_CODE_TRANSLATION not found")
    na = re.search(r"array\[:,\s*np\.logical_not\(protein_indices\)\]\s*=\s*\"([^\"]*)\"", py)
    if not na:
        raise ValueError("NA overlay not found")
    bend = re.search(r"kappa\s*>\s*\(\s*(\d+)\s*\*\s*\(M_PI\s*/\s*180\.0\)\s*\)", src)
    if not bend:
        raise ValueError("bend angle not found")
    q = lambda s: '"' + s.replace('"', '""') + '"'
    text = """(* GENERATED by harness/props/C15.py:translate from
   mdtraj/geometry/src/dssp.cpp and mdtraj/geometry/dssp.py -- do not edit.
   Tables only; the model coq/Dssp/Model.v is parameterised by them. *)
From Coq Require Import List String Ascii.
Import ListNotations.
Local Open Scope string_scope.

(* enum ss_t {...} in declaration order *)
Definition ss_enum_names : list string :=
  [%s].

(* switch (framesecondary[j]) { case X: ss='c' } in dssp(); default char first *)
Definition ss_char_default : string := %s.
Definition ss_char_table : list (string * string) :=
  [%s].

(* SIMPLIFIED_CODE_TRANSLATION = str.maketrans(from, to) in dssp.py *)
Definition simplified_from : string := %s.
Definition simplified_to : string := %s.

(* the overlay string written for non-protein residues in compute_dssp *)
Definition na_code : string := %s.

(* kappa > (K * (M_PI / 180.0)) in calculate_bends *)
Definition bend_angle_degrees : nat := %d.
""" % ("; ".join(q(n) for n in names), q(default), "; ".join("(%s, %s)" % (q(a), q(b)) for a, b in cases),
       q(mt.group(1)), q(mt.group(2)), q(na.group(1)), int(bend.group(1)))
    ctx.write_gen("Gen/DsspTables.v", text)
    ctx.notes["bend_angle"] = int(bend.group(1))


# ------------------------------------------------------------------------------------------------ generators
def add_bond(hb, d, a, rng, n):
    if not (0 <= d < n and 0 <= a < n) or d == a or a in hb[d]:
        return
    if len(hb[d]) < 2:
        hb[d].append(a)
    elif rng.random() < 0.5:
        hb[d][rng.randrange(2)] = a


def plant(rng, hb, n):
    kind = rng.choice(["h4", "h4", "h3", "h5", "anti", "anti", "par", "par", "bulge_a", "bulge_p", "mix45", "rand"])
    if kind in ("h3", "h4", "h5"):
        s = int(kind[1])
        st = rng.randrange(0, max(1, n - s))
        L = rng.randint(1, 8)
        for i in range(st, st + L):
            add_bond(hb, i + s, i, rng, n)
    elif kind == "mix45":
        st = rng.randrange(0, max(1, n - 5))
        L = rng.randint(2, 7)
        for i in range(st, st + L):
            add_bond(hb, i + 4, i, rng, n)
        off = rng.randint(-2, L)
        for i in range(st + off, st + off + rng.randint(2, 4)):
            add_bond(hb, i + 5, i, rng, n)
    elif kind in ("anti", "bulge_a"):
        i = rng.randrange(1, max(2, n - 6))
        j = rng.randrange(min(n - 1, i + 3), n)
        L = rng.randint(1, 6)
        gap_at = rng.randint(1, L) if kind == "bulge_a" else None
        gi = gj = 0
        for t in range(L):
            if gap_at is not None and t == gap_at:
                if rng.random() < 0.5:
                    gi = rng.randint(1, 5)
                else:
                    gj = rng.randint(1, 5)
            a, b = i + t + gi, j - t - gj
            if rng.random() < 0.5:
                add_bond(hb, a, b, rng, n)
                add_bond(hb, b, a, rng, n)
            else:
                add_bond(hb, a + 1, b - 1, rng, n)
                add_bond(hb, b + 1, a - 1, rng, n)
    elif kind in ("par", "bulge_p"):
        i = rng.randrange(1, max(2, n - 6))
        j = rng.randrange(min(n - 1, i + 3), n)
        L = rng.randint(1, 6)
        gap_at = rng.randint(1, L) if kind == "bulge_p" else None
        gi = gj = 0
        for t in range(L):
            if gap_at is not None and t == gap_at:
                if rng.random() < 0.5:
                    gi = rng.randint(1, 5)
                else:
                    gj = rng.randint(1, 5)
            a, b = i + t + gi, j + t + gj
            if rng.random() < 0.5:
                add_bond(hb, a + 1, b, rng, n)
                add_bond(hb, b, a - 1, rng, n)
            else:
                add_bond(hb, b + 1, a, rng, n)
                add_bond(hb, a, b - 1, rng, n)
    else:
        for _ in range(rng.randint(1, 5)):
            add_bond(hb, rng.randrange(n), rng.randrange(n), rng, n)


def rand_chain(rng, n, maxc=3):
    k = rng.choice([1, 1, 2, 3][:maxc + 1])
    cuts = sorted(rng.sample(range(1, n), min(k - 1, n - 1))) if n > 1 else []
    ch, c = [], 0
    for i in range(n):
        if c < len(cuts) and i == cuts[c]:
            c += 1
        ch.append(c)
    return ch


def rand_missing(rng, n, p):
    return [rng.randint(1, 15) if rng.random() < p else 0 for _ in range(n)]


def rand_turn(rng, n, p):
    return [rng.choice([80, 90, 120, 180]) if rng.random() < p else rng.choice([0, 30, 60]) for _ in range(n)]


def random_table(rng, nmax):
    n = rng.randint(5, nmax)
    chain = rand_chain(rng, n)
    missing = rand_missing(rng, n, rng.choice([0, 0, 0.05, 0.15]))
    frames = []
    for _ in range(rng.choice([1, 1, 1, 2, 3])):
        hb = [[] for _ in range(n)]
        for _ in range(rng.randint(1, 5)):
            plant(rng, hb, n)
        if rng.random() < 0.85:        # kabsch_sander never reports a bond of an incomplete residue
            for d in range(n):
                hb[d] = [] if missing[d] else [a for a in hb[d] if not missing[a]]
        frames.append({"hb": hb, "turn": rand_turn(rng, n, rng.choice([0.1, 0.3, 0.6]))})
    return {"n": n, "chain": chain, "missing": missing, "frames": frames, "stream": "random"}


def drift_table(rng, nmax):
    """3..6 frames of ONE structure whose H-bonds weaken and strengthen: later frames lose bonds, swap acceptors for
    weaker ones and regain them -- the inputs on which state carried over from the previous frame would show"""
    n = rng.randint(8, nmax)
    chain = rand_chain(rng, n)
    missing = rand_missing(rng, n, rng.choice([0, 0, 0.05]))
    base = [[] for _ in range(n)]
    for _ in range(rng.randint(2, 5)):
        plant(rng, base, n)
    for d in range(n):
        base[d] = [] if missing[d] else [a for a in base[d] if not missing[a]]
    F = rng.randint(3, 6)
    strengths = [3.0] + [rng.choice([0.6, 1.0, 2.0, 3.0]) for _ in range(F - 1)]
    frames = []
    for f in range(F):
        hb = [list(x) for x in base]
        if f > 0:
            for d in range(n):
                u = rng.random()
                if u < 0.3:
                    hb[d] = []                       # bond broken in this frame
                elif u < 0.5 and hb[d]:
                    a = rng.randrange(n)             # acceptor swapped
                    if a != d and not missing[a] and not missing[d]:
                        hb[d] = [a] + hb[d][1:]
        frames.append({"hb": hb, "turn": rand_turn(rng, n, 0.3), "strength": strengths[f]})
    return {"n": n, "chain": chain, "missing": missing, "frames": frames, "stream": "drift"}


def exhaustive_tables(rng, n, maxb, vary):
    bonds = [(d, a) for d in range(n) for a in range(n) if d != a]
    for k in range(maxb + 1):
        for comb in itertools.combinations(bonds, k):
            hb = [[] for _ in range(n)]
            ok = True
            for d, a in comb:
                hb[d].append(a)
                if len(hb[d]) > 2:
                    ok = False
            if not ok:
                continue
            if vary and rng.random() < 0.3:
                chain = rand_chain(rng, n, 2)
                missing = rand_missing(rng, n, 0.1)
                turn = rand_turn(rng, n, 0.4)
            else:
                chain, missing, turn = [0] * n, [0] * n, [0] * n
            yield {"n": n, "chain": chain, "missing": missing, "frames": [{"hb": hb, "turn": turn}],
                   "stream": "exhaustive"}


FIXED_TABLES = [
    # alpha helix of two consecutive 4-turns; pi over alpha; 3-10 next to alpha; antiparallel + bulge; chain break
    {"n": 12, "chain": [0] * 12, "missing": [0] * 12, "stream": "fixed",
     "frames": [{"hb": [[] if d < 4 else [d - 4] for d in range(12)], "turn": [0] * 12}]},
    {"n": 14, "chain": [0] * 14, "missing": [0] * 14, "stream": "fixed",
     "frames": [{"hb": [([d - 4] if 4 <= d < 10 else []) + ([d - 5] if 7 <= d < 11 else []) for d in range(14)],
                 "turn": [90] * 14}]},
    {"n": 12, "chain": [0] * 6 + [1] * 6, "missing": [0] * 12, "stream": "fixed",
     "frames": [{"hb": [[] if d < 4 else [d - 4] for d in range(12)], "turn": [0, 90] * 6}]},
    {"n": 12, "chain": [0] * 12, "missing": [0, 0, 0, 0, 2, 0, 0, 0, 0, 0, 0, 0], "stream": "fixed",
     "frames": [{"hb": [[] if (d < 4 or d == 4 or d - 4 == 4) else [d - 4] for d in range(12)], "turn": [90] * 12}]},
]


def build_tables(ctx):
    rng = ctx.rng
    quick = ctx.tier == "quick"
    tabs = [dict(t) for t in FIXED_TABLES]
    for n, maxb in ([(5, 2), (6, 2), (7, 2)] if quick else [(5, 3), (6, 3), (7, 3)]):
        tabs += list(exhaustive_tables(rng, n, maxb, vary=True))
    for _ in range(1200 if quick else 120000):
        tabs.append(random_table(rng, 40))
    for _ in range(150 if quick else 6000):
        tabs.append(drift_table(rng, 40))
    # a share of the tables also goes through dssp.py (stubbed C call) so that all 8 codes meet the Python layer
    for k, t in enumerate(tabs):
        if t["stream"] in ("fixed", "random", "drift") and k % (4 if quick else 20) == 0:
            t["pylayer"] = True
    return tabs


def build_e2e(ctx):
    rng = ctx.rng
    quick = ctx.tier == "quick"
    cases = []
    # every file once unperturbed (windowed when large), then perturbed variants
    windows = {"1ncw.pdb.gz": 1023, "1vii_sustiva_water.pdb": 80, "aaqaa-wat.pdb": 60, "4OH9.pdb": 210,
               "1am7_protein.pdb": 158}
    nres = {"1vii.pdb": 36, "bpti.pdb": 58, "1bpi.pdb": 58, "2EQQ.pdb": 28}
    nres.update(windows)
    nvar = 3 if quick else 110
    for f in E2E_FILES:
        for v in range(nvar + 1):
            N = nres[f]
            W = rng.randint(12, 70)
            if N > 58 or (v > 0 and rng.random() < 0.3):
                lo = rng.randrange(0, max(1, N - W)) if f not in ("1vii_sustiva_water.pdb", "aaqaa-wat.pdb") \
                    else rng.randrange(0, 8)
                keep = [lo, min(N, lo + W)]
            else:
                keep = None
            n_eff = (keep[1] - keep[0]) if keep else N
            base = keep[0] if keep else 0
            dele = []
            if v > 0 and rng.random() < 0.5:
                for _ in range(rng.randint(1, 3)):
                    dele.append([rng.randrange(n_eff), rng.choice(["N", "CA", "C", "O", "O", "C"])])
            if v == 1 and n_eff > 6:
                # every file once with backbone atoms missing in the INTERIOR of the chain (complete residues on both sides):
                # the incomplete residue must stay in place ('NA') and its neighbours must not become sequence neighbours
                dele = [[rng.randrange(2, n_eff - 2), rng.choice(["O", "C", "N", "CA"])] for _ in range(rng.randint(2, 3))]
            nfr = 1 if v == 0 else rng.choice([1, 2, 3, 5, 6])
            sched = None
            if nfr >= 3 and rng.random() < 0.7:
                # unfold, then refold: H-bonds weaken / vanish and come back within one trajectory
                flip = rng.choice([0.0, 1.0])
                sched = [abs(1.0 - abs(2.0 * k / (nfr - 1) - 1.0) - flip) for k in range(nfr)]
            cases.append({"file": f, "frame": rng.randrange(20), "n_frames": nfr, "schedule": sched,
                          "noise": 0.0 if v == 0 else rng.choice([0.0, 0.005, 0.02, 0.05, 0.1]),
                          "ramp": rng.random() < 0.5, "seed": rng.randrange(1 << 30), "delete": dele,
                          "keep_residues": keep})
            if v > 0 and rng.random() < 0.5:
                # residues renamed (in memory) to names outside mdtraj's amino-acid table, backbone untouched: taking part
                # in H-bonds / DSSP is decided by the backbone atoms present, not by the residue name
                cases[-1]["rename_residues"] = [[r, rng.choice(NONTABLE_NAMES)]
                                                for r in sorted(rng.sample(range(n_eff), min(n_eff, rng.randint(1, 4))))]
            if v > 0 and rng.random() < 0.6:
                # bend angles a few 1/1000 .. 1/10 degree off the 70 degree threshold (outside the 1/1000 degree guard band)
                aims = []
                for r in range(rng.randint(2, 7), n_eff - 2, rng.randint(6, 9)):
                    aims.append([r, rng.choice([-1, 1]) * rng.choice([0.004, 0.01, 0.03, 0.1])])
                cases[-1]["aim_kappa"] = aims
            if v > 0 and rng.random() < 0.2:
                # coinciding CA atoms (CA of r+2 exactly on CA of r): kappa is 0/0 in the C code
                cases[-1]["collapse_ca"] = sorted(rng.sample(range(n_eff), min(n_eff, rng.randint(1, 3))))
    # call histories on ONE Trajectory/Topology: backbone atoms renamed in place between calls (C-terminal O <-> OT1,
    # CA <-> CX, ...): after every edit the result must be the one of the topology as it is now
    for k in range(5 if quick else 150):
        f = rng.choice(["1vii.pdb", "bpti.pdb", "2EQQ.pdb", "1bpi.pdb"])
        N = nres[f]
        W = rng.randint(10, 30)
        lo = rng.randrange(0, max(1, N - W))
        W = min(W, N - lo)
        swap = {"O": "OT1", "N": "NT", "CA": "CX", "C": "CY"}
        state = {}
        steps = []
        if rng.random() < 0.5:      # start from a topology that is already edited (first use sees OT1)
            r = rng.randrange(W)
            steps.append({"op": "rename_atom", "res": r, "old": "O", "new": "OT1"})
            state[(r, "O")] = "OT1"
        steps.append({"op": "call"})
        for _ in range(rng.randint(2, 4)):
            for _e in range(rng.randint(1, 2)):
                if state and rng.random() < 0.5:
                    (r, orig), cur = rng.choice(sorted(state.items()))
                    steps.append({"op": "rename_atom", "res": r, "old": cur, "new": orig})
                    del state[(r, orig)]
                elif rng.random() < 0.85:
                    r, orig = rng.randrange(W), rng.choice(sorted(swap))
                    if (r, orig) not in state:
                        steps.append({"op": "rename_atom", "res": r, "old": orig, "new": swap[orig]})
                        state[(r, orig)] = swap[orig]
                else:
                    steps.append({"op": "rename_residue", "res": rng.randrange(W), "name": rng.choice(["PRO", "ALA", "XYZ", "HIE", "CYX"])})
            steps.append({"op": "call"})
        cases.append({"file": f, "frame": rng.randrange(20), "n_frames": rng.randint(1, 2), "schedule": None,
                      "noise": rng.choice([0.0, 0.01]), "ramp": False, "seed": rng.randrange(1 << 30), "delete": [],
                      "keep_residues": [lo, min(N, lo + W)], "history": steps})
    return cases


# the fixed three-letter image of the property, used as a direct oracle on every (full, simplified) pair
IMAGE = {"H": "H", "G": "H", "I": "H", "E": "E", "B": "E", "T": "C", "S": "C", " ": "C", "NA": "NA"}


def image_oracle(ctx, case, full, simp, stage):
    for fi, (a, b) in enumerate(zip(full, simp)):
        want = [IMAGE.get(x, "?") for x in a]
        if want != list(b):
            ctx.fail("md.compute_dssp: simplified output is not the fixed three-letter image of the full output",
                     case, observed={"frame": fi, "full": a, "simplified": b}, expected=want,
                     tags={"stage": stage, "what": "image"})
            return


# ------------------------------------------------------------------------------------------------ model calls
def coq_case(simp, n, chain, skip, hb, geom):
    return "(%s, %s, %s, %s, %s, %s)" % (
        cbool(simp), cnat(n), clist(chain, cnat), clist(skip, cbool),
        clist([clist(x, cnat) for x in hb]), clist(geom, cbool))


CASE_TY = "bool * nat * list nat * list bool * list (list nat) * list bool"
XYZ_TY = "list nat * list (string * list (nat * string)) * list (list nat) * list (option (Z * Z * Z))"


def check_model(ctx, jobs, fn):
    """jobs: list of (coq_input, expected list of str) -> set of mismatching job indices (None on coqc error)."""
    cases = [(a, clist(e, cstr)) for a, e in jobs]
    bad, errs = ctx.coq_mismatches(["MD.Dssp.Model"], (CASE_TY, "list string"), "strs_eqb", fn, cases)
    if errs:
        ctx.break_("correspondence:coqc-evaluation", "\n".join(errs))
        return None
    return set(bad)


def sensitive(ctx, inputs):
    cases = [(a, "false") for a in inputs]
    bad, errs = ctx.coq_mismatches(["MD.Dssp.Model"], (CASE_TY, "bool"), "Bool.eqb", "run_sensitive", cases)
    if errs:
        ctx.break_("correspondence:coqc-evaluation", "\n".join(errs))
        return set()
    return set(bad)


def run_tables(ctx, tabs, spec=False):
    if not tabs:
        return
    sfx = "_spec" if spec else ""
    payload = {"repo": common.REPO, "tmp": ctx.tmp, "shim": SHIM,
               "tables": [{k: t[k] for k in ("n", "chain", "missing", "frames", "pylayer") if k in t} for t in tabs]}
    full_res = ctx.run_impl("dssp_impl.py", payload)["tables"]
    res = [r["c"] for r in full_res]
    jobs, where = [], []
    pyjobs, pywhere = [], []
    for ti, (t, out) in enumerate(zip(tabs, res)):
        skip = [m != 0 for m in t["missing"]]
        py = full_res[ti].get("py")
        if py is not None and py.get("subset_call") and "error" not in py:
            # the wrapper handed only part of the residues to the (stubbed) kernel: the recorded dssp() output of the full
            # table does not apply to that call; whether such a wrapper is right is decided by the end-to-end stream
            ce1 = ctx.notes.setdefault("coverage_extra", {})
            ce1["pylayer_tables_skipped_subset_call"] = ce1.get("pylayer_tables_skipped_subset_call", 0) + 1
            py = None
        if py is not None and "error" in py:
            ctx.fail("md.compute_dssp raises on a topology with chains / incomplete residues (kernel stubbed)", dict(t, kind="table"),
                     observed=py, expected="one code per residue per frame", tags={"stage": "pylayer", "what": "raises"})
            py = None
        if py is not None and (not py["args_ok"] or py["shape"] != [len(t["frames"]), t["n"]]):
            ctx.fail("dssp.py hands wrong chain ids / incomplete-residue indices to _dssp or returns a wrong shape",
                     dict(t, kind="table"), observed=py, expected="chain index per residue, -1 for absent N/CA/C/O",
                     tags={"stage": "pylayer", "what": "args"})
            py = None
        if py is not None:
            image_oracle(ctx, dict(t, kind="table"), py["full"], py["simp"], "pylayer")
        for fi, (fr, s) in enumerate(zip(t["frames"], out)):
            geom = [d > 70 for d in fr["turn"]]
            jobs.append((coq_case(False, t["n"], t["chain"], skip, fr["hb"], geom), list(s)))
            where.append((ti, fi))
            if py is not None:
                for simp in (False, True):
                    pyjobs.append((coq_case(simp, t["n"], t["chain"], skip, fr["hb"], geom),
                                   py["simp" if simp else "full"][fi]))
                    pywhere.append((ti, fi, simp))
    bad = check_model(ctx, jobs, "run_case_c" + sfx)
    if bad is None:
        return
    if pyjobs:
        pybad = check_model(ctx, pyjobs, "run_case" + sfx)
        badc = {where[j] for j in bad}
        for j in sorted(pybad or ()):
            ti, fi, simp = pywhere[j]
            if (ti, fi) in badc:
                continue        # already reported at the C++ level
            t = tabs[ti]
            ctx.count({"pylayer": t, "simp": simp}, bucket="pylayer")
            ctx.fail("dssp.py (simplified map / reshape / NA overlay) deviates from the model on dssp()'s own output",
                     {"kind": "table", "n": t["n"], "chain": t["chain"], "missing": t["missing"],
                      "frames": t["frames"], "pylayer": True},
                     observed={"frame": fi, "simplified": simp, "codes": pyjobs[j][1], "c_level": res[ti][fi]},
                     expected="coq: MD.Dssp.Model.run_case", tags={"stage": "pylayer", "simplified": simp})
        ce = ctx.notes.setdefault("coverage_extra", {})
        ce["pylayer_comparisons"] = ce.get("pylayer_comparisons", 0) + len(pyjobs)
    sens = sensitive(ctx, [jobs[i][0] for i in sorted(bad)]) if bad else set()
    sens = {sorted(bad)[k] for k in sens}
    excluded = 0
    for ji, (ti, fi) in enumerate(where):
        t = tabs[ti]
        if fi == 0:
            trivial = all(set(s) <= {" "} for s in res[ti])
            ctx.count({"table": t}, nontrivial=not trivial, bucket="shim/%s" % t.get("stream", "replay"))
        if ji in bad:
            if ji in sens:
                excluded += 1
                continue
            one = {"kind": "table", "n": t["n"], "chain": t["chain"], "missing": t["missing"],
                   "frames": [t["frames"][fi]]}
            ctx.fail("dssp.cpp on a synthetic H-bond table deviates from the DSSP-rule model", one,
                     observed=res[ti][fi], expected="coq: MD.Dssp.Model.run_case_c",
                     tags={"stage": "shim", "frame": fi, "n_frames": len(t["frames"])})
    if excluded:
        ce = ctx.notes.setdefault("coverage_extra", {})
        ce["excluded_sort_order_sensitive"] = ce.get("excluded_sort_order_sensitive", 0) + excluded


def eval_xyz_groups(ctx, groups, fn):
    """groups: list of (prelude text with shared definitions, [(coq input, expected list of str)]).  One coqc file per
    group, up to 8 in parallel; per group the model is evaluated once per job (vm_compute inside coqc) and three index
    lists are printed: mismatches, abstentions (a bend flag that matters within the guard band), sort-order sensitive.
    -> list of (bad, excluded, sensitive) sets per group, or None after reporting a break."""
    import subprocess
    files = []
    for gi, (prelude, jobs) in enumerate(groups):
        lines = ["From Coq Require Import ZArith List String Bool Ascii.", "Import ListNotations.", "Open Scope nat_scope.",
                 "Set Printing Depth 1000000.", "Set Printing Width 200.",
                 "Require Import MD.Hbond.KsWrap MD.Dssp.Model MD.Dssp.Bend.", prelude,
                 "Definition cases : list (nat * (%s) * (list string * list string)) := [" % XYZ_TY,
                 ";\n".join("(%d%%nat, %s, (%s, %s))" % (j, a, clist(ef, cstr), clist(es, cstr)) for j, (a, (ef, es)) in enumerate(jobs)),
                 "].",
                 # every frame is evaluated ONCE (both output alphabets); the three index lists share the results
                 "Eval vm_compute in (let rs := map (fun c => (fst (fst c), %s (snd (fst c)), snd c)) cases in" % fn,
                 ' let bad := map (fun r => fst (fst r)) (filter (fun r => negb (check_frame (snd (fst r)) (snd r))) rs) in',
                 ' let exc := map (fun r => fst (fst r)) (filter (fun r => frame_excluded (snd (fst r))) rs) in',
                 ' (("MISMATCH"%string, List.length rs, bad, "NBAD"%string, List.length bad),',
                 '  ("EXCLUDED"%string, List.length rs, exc, "NEXC"%string, List.length exc))).',
                 "Definition sen := map (fun c => fst (fst c)) (filter (fun c => run_sensitive_xyz (snd (fst c))) cases).",
                 'Eval vm_compute in ("SENSITIVE"%string, List.length cases, sen, "NSEN"%string, List.length sen).']
        path = os.path.join(ctx.tmp, "xyz_%d.v" % gi)
        with open(path, "w") as fh:
            fh.write("\n".join(lines) + "\n")
        files.append((gi, path))
    out, errors, running, todo = {}, [], [], list(files)

    def reap(pr, gi):
        o = pr.communicate()[0]
        if pr.returncode != 0:
            errors.append(o[-3000:])
            return
        got = []
        for tag, ntag in (("MISMATCH", "NBAD"), ("EXCLUDED", "NEXC"), ("SENSITIVE", "NSEN")):
            m = re.search(r'\("%s"%%string,\s*(\d+)(?:%%nat)?,\s*(\[.*?\]|nil)\s*,\s*"%s"%%string,\s*(\d+)' % (tag, ntag), o, re.S)
            if not m or int(m.group(1)) != len(groups[gi][1]):
                errors.append("unparsed coqc output (%s): %s" % (tag, o[-1500:]))
                return
            found = {int(x) for x in re.findall(r"\d+", m.group(2))}
            if len(found) != int(m.group(3)):
                errors.append("index list elided by the printer (%s)" % tag)
                return
            got.append(found)
        out[gi] = tuple(got)
    while todo or running:
        while todo and len(running) < 8:
            gi, path = todo.pop(0)
            pr = subprocess.Popen(["timeout", "900", "coqc", "-Q", common.COQ, "MD", path], cwd=ctx.tmp,
                                  stdout=subprocess.PIPE, stderr=subprocess.STDOUT, text=True)
            running.append((pr, gi))
        pr, gi = running.pop(0)
        reap(pr, gi)
    if errors:
        ctx.break_("correspondence:coqc-evaluation", "\n".join(errors))
        return None
    return [out[gi] for gi in range(len(groups))]


def run_e2e(ctx, cases, spec=False):
    if not cases:
        return
    sfx = "_spec" if spec else ""
    res = ctx.run_impl("dssp_impl.py", {"repo": common.REPO, "tmp": ctx.tmp, "shim": SHIM, "e2e": cases})["e2e"]
    ctx.log("e2e: implementation done")
    excluded = 0
    flat = []
    for ci, (c, r) in enumerate(zip(cases, res)):
        if "snapshots" in r:
            flat += [(ci, c, snap, k) for k, snap in enumerate(r["snapshots"])]
        else:
            flat.append((ci, c, r, None))
    # one group (= one coqc file) per observed object state: names, chain ids, H-bond tables and CA coordinates are
    # defined once and shared by the jobs (frames x simplified) of that state
    groups, wheres = [], []
    cav = lambda v: "None" if v is None else "(Some (%s, %s, %s))" % tuple(cz(c) for c in v)
    for ci, c, r, snap_no in flat:
        n = r["n"]
        F = len(r["frames"])
        nontriv = False
        if r["shape_full"] != [F, n] or r["shape_simp"] != [F, n]:
            ctx.fail("md.compute_dssp: result is not one code per residue per frame", dict(c, kind="e2e"),
                     observed=[r["shape_full"], r["shape_simp"]], expected=[F, n], tags={"stage": "e2e", "what": "shape"})
            continue
        image_oracle(ctx, dict(c, kind="e2e"), [fr["full"] for fr in r["frames"]], [fr["simp"] for fr in r["frames"]], "e2e")
        resd, idx = [], 0
        for rname, atoms in r["names"]:
            # (the atom indices are not read by the DSSP model, only the names are: 0 keeps the unary nat literals small)
            resd.append("(%s, %s)" % (cstr(rname), clist(["(%s, %s)" % (cnat(0), cstr(a)) for k, a in enumerate(atoms)])))
            idx += len(atoms)
        prelude = ["Definition names_x : list (string * list (nat * string)) := %s." % clist(resd),
                   "Definition chain_x : list nat := %s." % clist(r["chain"], cnat)]
        jobs, where = [], []
        for fi, fr in enumerate(r["frames"]):
            if any(set(x) - {" ", "NA", "C"} for x in (fr["full"],)):
                nontriv = True
            prelude.append("Definition hb_%d : list (list nat) := %s." % (fi, clist([clist(x, cnat) for x in fr["hb"]])))
            prelude.append("Definition ca_%d : list (option (Z * Z * Z)) := %s." % (fi, clist(fr["ca"], cav)))
            jobs.append(("(chain_x, names_x, hb_%d, ca_%d)" % (fi, fi), (fr["full"], fr["simp"])))
            where.append((ci, fi))
        groups.append(("\n".join(prelude), jobs))
        wheres.append(where)
        ctx.count({"e2e": c, "snapshot": snap_no}, nontrivial=nontriv,
                  bucket="e2e/%s%s%s%s" % (c["file"], "/del" if c.get("delete") else "", "/history" if c.get("history") else "",
                                           "/coinciding-CA" if c.get("collapse_ca") else "") + ("/nontable-names" if c.get("rename_residues") else "") + ("/kappa-near-70" if c.get("aim_kappa") else ""))
    outs = eval_xyz_groups(ctx, groups, "run_frame_xyz" + sfx)
    njobs = sum(len(g[1]) for g in groups)
    ctx.log("e2e: model evaluated on", njobs, "frames in", len(groups), "files")
    if outs is None:
        return
    n_amb = 0
    for (prelude, jobs), where, (bad, exc, sens) in zip(groups, wheres, outs):
        # frames in which a bend flag that matters lies within the guard band (1e-3 degree) of the threshold: the model
        # abstains (run_case_xyz = None); counted
        n_amb += len(exc)
        for ji in sorted(bad):
            if ji in sens:
                excluded += 1
                continue
            ci, fi = where[ji]
            ctx.fail("md.compute_dssp deviates from the DSSP rules applied to md.kabsch_sander's H-bonds",
                     dict(cases[ci], kind="e2e"), observed={"frame": fi, "full": jobs[ji][1][0], "simplified": jobs[ji][1][1]},
                     expected="coq: MD.Dssp.Bend.run_frame_xyz on (kabsch_sander H-bonds, chain ids, residue / atom names, exact CA coordinates)",
                     tags={"stage": "e2e", "history": bool(cases[ci].get("history"))})
    ce = ctx.notes.setdefault("coverage_extra", {})
    ce["e2e_frames_compared_with_exact_bend_test"] = ce.get("e2e_frames_compared_with_exact_bend_test", 0) + njobs - n_amb
    ce["excluded_frames_kappa_guard_or_sort"] = ce.get("excluded_frames_kappa_guard_or_sort", 0) + excluded + n_amb


def correspond(ctx):
    # the executable model must be built even when a theorem file failed (make stops launching jobs after a failure)
    ok, log = ctx.make(["Gen/DsspTables.vo", "Dssp/Model.vo", "Dssp/Bend.vo"])
    if not ok:
        ctx.break_("build:Dssp/Model.vo", log)
    tabs = build_tables(ctx)
    e2e = build_e2e(ctx)
    ctx.log("tables:", len(tabs), "e2e cases:", len(e2e))
    run_tables(ctx, tabs)
    ctx.log("tables done")
    run_e2e(ctx, e2e)
    ce = ctx.notes.setdefault("coverage_extra", {})
    ce["exhaustive_subspace"] = "all H-bond tables over 5..7 residues with at most %d bonds (single chain, complete residues, " \
                                "no bends; 30%% of them re-drawn with random chain split / missing atoms / bends)" % (
                                    2 if ctx.tier == "quick" else 3)
    ce["translator"] = ctx.notes.get("translator", "ok")


def search(ctx, broken):
    # The correspondence already compares mdtraj with the rule model (= the property) on every case.
    # After a break, spend a second budget with a fresh stream.
    # The fixed-table variant of the model (char_spec / simplified_spec) is the oracle here, so that a change of the
    # character switch or of the simplified translation, which the regenerated model follows, yields a failing input.
    tabs = [dict(t) for t in FIXED_TABLES] + [random_table(ctx.rng, 40) for _ in range(800)]
    for t in tabs:
        t["pylayer"] = True
    run_tables(ctx, tabs, spec=True)
    if not ctx.failures:
        run_e2e(ctx, build_e2e(ctx), spec=True)


def replay(ctx, rec):
    c = rec["case"]
    if c.get("kind") == "table":
        run_tables(ctx, [c])
    else:
        run_e2e(ctx, [c])
