"""C03 -- slicing / joining / stacking / atom subsetting act like numpy indexing on every field,
never hand out shared memory where the property forbids it, and no history leaves the RMSD cache stale.

Model   : coq/Traj/Model.v (trajectory registers over a heap of xyz buffers, symbolic frame terms)
Theorems: coq/Props/C03.v
Tie     : (1) translator: the field data-flow of Trajectory.slice/join/stack/atom_slice is re-extracted from
              mdtraj/core/trajectory.py with `ast` into coq/Gen/TrajFlow.v, where it must equal the flow the model
              implements for one of the two variants of each defect (re-checked by coqc on every run);
          (2) correspondence: random and exhaustive operation histories are executed on real md.Trajectory
              objects (harness/impl/traj_impl.py) and by the Gallina model inside coqc (vm_compute); the model's
              final world is printed as integers, decoded here, its symbolic frames are given their numeric
              meaning (eval_fr) and every register is compared field by field, plus the np.shares_memory
              matrix, topology identities, error classes and the _rmsd_traces cache.
Search  : model-free oracles inside traj_impl.py (numpy indexing of snapshots, shares_memory against every
          earlier array, cache consistency recomputed from the coordinates, rmsd(precentered) vs from scratch)
          run on every case; plus the before/after hashing of a list of analysis/save calls (tested, not proved).
"""
import itertools
import json
import math
import os
import re
import subprocess

import numpy as np

from common import COQ, REPO, cz, clist, cnat, cbool, copt

LEVEL = "proof"
THEOREMS = "Props/C03.v"
EXTRA_TARGETS = ("Traj/Encode.vo", "Traj/FlowProofs.vo", "Traj/ExtraProofs.vo", "Gen/TrajFlow.vo")
EXTS = ["_rmsd"]
RULE = ("operation histories over {t[key] (int, negative int, slice incl. reversed/strided/clipped, index list/array, "
        "bool mask; integers also as np.int64 / np.int32 / np.uint8 / 0-d array / 1-tuple, index lists also as range / list of "
        "numpy ints / int32 array / 1-tuple holding an array, masks also as Python lists of bools), restrict_atoms(inplace F/T), "
        "make_molecules_whole / image_molecules (inplace F/T), smooth(inplace F/T), analysis / save / getter / pickle calls as "
        "observers inside the history (each must leave every trajectory object identical), slice(copy=False), join / + / join(list) / md.join each with discard_overlapping_frames off and on "
        "(a dedicated stream joins consecutive chunks of one run that share a frame: centred before or after the cut, "
        "one or two seams, equal xyz with different time, two-frame overlaps, one-frame operands, empty operands), stack, atom_slice(inplace F/T), remove_solvent, "
        "center_coordinates(mass_weighted F/T), superpose, xyz/time/unitcell_* assignment (fresh or shared arrays; a stream assigns time to "
        "trajectories constructed without one and then takes atom subsets / slices)} on "
        "2-3 initial trajectories (2-6 frames, 3-5 atoms, with/without cell; time axis absent (int64 arange) / int64 / float32 / "
        "float64 with fractional values, mixed across operands in both orders; xyz and unit-cell arrays handed over as C float32, "
        "float64, Fortran-ordered or non-contiguous arrays of the same values; every value compared exactly in float64); operands are drawn "
        "from all registers created so far; a case is non-trivial when it has >= 2 successful ops of >= 2 kinds; "
        "distinct by hash of (specs, ops)")
TRUSTED = ["harness/impl/traj_impl.py (runs the history through the public API, dumps arrays, shares_memory, oracles)",
           "harness/props/C03.py: decoder of the model's integer output and eval_fr, the numeric meaning of the symbolic "
           "frame terms (Raw = generated data, Sub = take on the atom axis, Cen/CenM = subtract centroid / centre of "
           "mass, Sup = float64 Kabsch superposition, Stk = hstack)",
           "harness/props/C03.py translate(): ast extraction of the field data-flow of slice/join/stack/atom_slice"]
ASSUMPTIONS = ["coordinates are symbolic in the model: float rounding inside centring/superposition is outside the "
               "theorems; the tie compares them with float64 re-computation under tolerances 2e-3 nm (centred) and "
               "3e-2 nm (superposed) on data whose distinct frames/atoms differ by >= 0.25 nm",
               "topologies have one atom per residue and no bonds, so Topology.__eq__ is equality of the chain lists "
               "(bond/residue bookkeeping is C04's)",
               "'analysis and save functions leave their input bit-identical' is tested by hashing before/after a "
               "fixed list of public calls, not proved"]

# model variants in the order Encode.run_all emits them: (slice indexes traces, atom_slice inplace resets, join keeps cache)
NVAR = 10
VNAME = {0: "repaired", 1: "slice_traces_unindexed", 2: "atom_slice_inplace_keeps_traces",
         3: "slice_traces_unindexed+atom_slice_inplace_keeps_traces"}
for _i in range(4):
    VNAME[4 + _i] = VNAME[_i] + "+join_hands_on_trimmed_cache"
# second layer (coq/Traj/Extra.v): make_molecules_whole / image_molecules as found keep _rmsd_traces
VNAME[8] = "imaging_keeps_traces"
VNAME[9] = "imaging_keeps_traces+join_hands_on_trimmed_cache"
ERR = {0: "ok", 1: "IndexError", 2: "ValueError", 3: "TypeError", 9: "NoReg"}


# ----------------------------------------------------------------------------- translator (T3: field data-flow)
import ast  # noqa: E402

FIELD_ATTRS = {"xyz": "SXyz", "_xyz": "SXyz", "time": "STime", "_time": "STime",
               "unitcell_lengths": "SLen", "_unitcell_lengths": "SLen", "unitcell_angles": "SAng",
               "_unitcell_angles": "SAng", "_rmsd_traces": "STraces", "_topology": "STop", "topology": "STop",
               "top": "STop"}


class Untranslatable(Exception):
    pass


def _is_self_attr(node, attrs=None):
    return (isinstance(node, ast.Attribute) and isinstance(node.value, ast.Name) and node.value.id == "self"
            and (attrs is None or node.attr in attrs))


class FlowInterp:
    """abstract interpretation of one method body: local name -> flow term (nested tuples)"""

    def __init__(self, keyname):
        self.env = {}
        self.keyname = keyname          # name of the index argument ('key' / 'atom_indices')
        self.ctor = None                # flows passed to the constructor that is returned
        self.obj_attrs = {}             # newtraj.<attr> = ...
        self.self_attrs = None          # attributes of self assigned in the `if inplace:` branch

    def expr(self, e):
        if isinstance(e, ast.Constant) and e.value is None:
            return ("FNone",)
        if isinstance(e, ast.Name):
            if e.id in self.env:
                return self.env[e.id]
            raise Untranslatable("unbound name %s" % e.id)
        if _is_self_attr(e, FIELD_ATTRS):
            return ("FField", "OSelf", FIELD_ATTRS[e.attr])
        if isinstance(e, ast.Attribute) and isinstance(e.value, ast.Name) and e.value.id == "other" and e.attr in FIELD_ATTRS:
            return ("FField", "OOther", FIELD_ATTRS[e.attr])
        if isinstance(e, ast.Subscript):
            base = self.expr(e.value)
            sl = e.slice
            if isinstance(sl, ast.Name) and sl.id == self.keyname:
                return ("FIdx", base)
            if (isinstance(sl, ast.Tuple) and len(sl.elts) == 2 and isinstance(sl.elts[0], ast.Slice)
                    and sl.elts[0].lower is None and sl.elts[0].upper is None and sl.elts[0].step is None
                    and isinstance(sl.elts[1], ast.Name) and sl.elts[1].id == self.keyname):
                return ("FAtoms", base)
            raise Untranslatable("subscript " + ast.dump(sl)[:80])
        if isinstance(e, ast.Call):
            f = e.func
            kw = {k.arg: k.value for k in e.keywords}
            if isinstance(f, ast.Attribute) and f.attr == "copy" and not e.args and not kw:
                return ("FCopy", self.expr(f.value))
            if isinstance(f, ast.Name) and f.id == "deepcopy" and len(e.args) == 1:
                return ("FDeep", self.expr(e.args[0]))
            if isinstance(f, ast.Attribute) and isinstance(f.value, ast.Name) and f.value.id == "np":
                if f.attr == "array" and len(e.args) == 1:
                    if set(kw) == {"ndmin", "copy"} and getattr(kw["ndmin"], "value", None) == 1 and getattr(kw["copy"], "value", None) is True:
                        return ("FArr1", self.expr(e.args[0]))
                    if set(kw) <= {"order", "copy"} and getattr(kw.get("copy"), "value", True) is True:
                        return ("FCopy", self.expr(e.args[0]))
                if f.attr == "concatenate" and len(e.args) == 1 and isinstance(e.args[0], ast.ListComp):
                    lc = e.args[0]
                    if (len(lc.generators) == 1 and isinstance(lc.generators[0].iter, ast.Name)
                            and lc.generators[0].iter.id == "trajectories" and isinstance(lc.elt, ast.Attribute)
                            and isinstance(lc.elt.value, ast.Name) and lc.elt.value.id == lc.generators[0].target.id
                            and lc.elt.attr in FIELD_ATTRS):
                        return ("FConcat", FIELD_ATTRS[lc.elt.attr])
                if f.attr == "hstack" and len(e.args) == 1 and isinstance(e.args[0], ast.Tuple) and len(e.args[0].elts) == 2:
                    a, b = e.args[0].elts
                    if _is_self_attr(a, ("xyz", "_xyz")) and isinstance(b, ast.Attribute) and b.attr in ("xyz", "_xyz") \
                            and isinstance(b.value, ast.Name) and b.value.id == "other":
                        return ("FHstack",)
            if isinstance(f, ast.Attribute) and f.attr == "subset" and _is_self_attr(f.value, ("_topology", "topology", "top")) \
                    and len(e.args) == 1 and isinstance(e.args[0], ast.Name) and e.args[0].id == self.keyname:
                return ("FSubset",)
            if isinstance(f, ast.Attribute) and f.attr == "join" and _is_self_attr(f.value, ("_topology", "topology", "top")) \
                    and e.args and isinstance(e.args[0], ast.Attribute) and e.args[0].attr in ("_topology", "topology", "top"):
                return ("FTopJoin",)
        raise Untranslatable("expression " + ast.dump(e)[:100])

    def is_ctor(self, e):
        if not isinstance(e, ast.Call):
            return False
        f = e.func
        return (isinstance(f, ast.Name) and f.id == "Trajectory") or \
               (isinstance(f, ast.Attribute) and f.attr == "__class__" and isinstance(f.value, ast.Name) and f.value.id == "self")

    def ctor_flow(self, e):
        names = ["xyz", "topology", "time", "unitcell_lengths", "unitcell_angles"]
        got = {}
        for n, a in zip(names, e.args):
            got[n] = self.expr(a)
        for k in e.keywords:
            if k.arg not in names or k.arg in got:
                raise Untranslatable("constructor argument %s" % k.arg)
            got[k.arg] = self.expr(k.value)
        if "xyz" not in got or "topology" not in got:
            raise Untranslatable("constructor without xyz/topology")
        return {"xyz": got["xyz"], "top": got["topology"], "time": got.get("time", ("FNone",)),
                "len": got.get("unitcell_lengths", ("FNone",)), "ang": got.get("unitcell_angles", ("FNone",))}

    def assign(self, target, val):
        if isinstance(target, ast.Name):
            self.env[target.id] = val
        elif isinstance(target, ast.Attribute) and isinstance(target.value, ast.Name):
            if target.value.id == "self":
                if self.self_attrs is None:
                    raise Untranslatable("assignment to self.%s outside the in-place branch" % target.attr)
                if target.attr not in FIELD_ATTRS:
                    raise Untranslatable("self.%s" % target.attr)
                self.self_attrs[FIELD_ATTRS[target.attr]] = val
            else:
                if target.attr not in FIELD_ATTRS:
                    raise Untranslatable("%s.%s" % (target.value.id, target.attr))
                self.obj_attrs[FIELD_ATTRS[target.attr]] = val
        else:
            raise Untranslatable("assignment target")

    def presence_test(self, t):
        """`X is not None`, `self._have_unitcell`: the body describes the field when it is present"""
        if isinstance(t, ast.Compare) and len(t.ops) == 1 and isinstance(t.ops[0], ast.IsNot) \
                and isinstance(t.comparators[0], ast.Constant) and t.comparators[0].value is None:
            return True
        return _is_self_attr(t, ("_have_unitcell",))

    def block(self, stmts):
        for st in stmts:
            if isinstance(st, ast.Expr) and isinstance(st.value, ast.Constant):
                continue                                   # docstring
            if isinstance(st, ast.Assign):
                if len(st.targets) == 1 and isinstance(st.targets[0], ast.Tuple):
                    if not isinstance(st.value, ast.Tuple) or len(st.value.elts) != len(st.targets[0].elts):
                        raise Untranslatable("tuple assignment")
                    for t, v in zip(st.targets[0].elts, st.value.elts):
                        self.assign(t, self.expr(v))
                else:
                    val = None
                    if self.is_ctor(st.value):
                        self.ctor = self.ctor_flow(st.value)
                        for t in st.targets:
                            if not isinstance(t, ast.Name):
                                raise Untranslatable("constructor target")
                        continue
                    val = self.expr(st.value)
                    for t in st.targets:
                        self.assign(t, val)
            elif isinstance(st, ast.If):
                t = st.test
                if isinstance(t, ast.Name) and t.id == "copy":
                    before = dict(self.env)
                    self.block(st.body)
                    then_env = self.env
                    self.env = dict(before)
                    self.block(st.orelse)
                    else_env = self.env
                    merged = {}
                    for k in set(then_env) | set(else_env):
                        a, b = then_env.get(k), else_env.get(k)
                        if a == b:
                            merged[k] = a
                        elif a is not None and b is not None and a in (("FCopy", b), ("FDeep", b)):
                            merged[k] = ("FCopyIf", b)
                        else:
                            raise Untranslatable("`if copy` branches of %s: %s vs %s" % (k, a, b))
                    self.env = merged
                elif isinstance(t, ast.Name) and t.id == "inplace":
                    if st.orelse:
                        raise Untranslatable("else branch of `if inplace`")
                    saved = dict(self.env)
                    self.self_attrs = {}
                    body = [x for x in st.body if not isinstance(x, ast.Return)]
                    self.block(body)
                    self.inplace = self.self_attrs
                    self.self_attrs = None
                    self.env = saved
                elif self.presence_test(t):
                    if st.orelse:
                        raise Untranslatable("else branch of a presence test")
                    self.block(st.body)
                elif isinstance(t, ast.BoolOp) or isinstance(t, ast.UnaryOp) or isinstance(t, ast.Call) \
                        or isinstance(t, ast.Compare) or isinstance(t, ast.Name):
                    # validation that only raises / rewrites operands: must not bind any field variable
                    for x in ast.walk(st):
                        if isinstance(x, ast.Return):
                            raise Untranslatable("return inside a validation branch")
                    assigned = {n.id for x in ast.walk(st) if isinstance(x, ast.Assign) for n in x.targets if isinstance(n, ast.Name)}
                    if assigned & {"xyz", "time", "lengths", "angles", "unitcell_lengths", "unitcell_angles", "topology", "rmsd_traces"}:
                        raise Untranslatable("field variable assigned inside a validation branch")
                else:
                    raise Untranslatable("if " + ast.dump(t)[:80])
            elif isinstance(st, ast.Return):
                if st.value is not None and self.is_ctor(st.value):
                    self.ctor = self.ctor_flow(st.value)
                elif isinstance(st.value, ast.Name):
                    pass                                   # returns the object built earlier
                else:
                    raise Untranslatable("return value")
            elif isinstance(st, (ast.Raise, ast.Pass, ast.For, ast.ImportFrom, ast.Import)):
                if isinstance(st, ast.For):
                    raise Untranslatable("loop")
            else:
                raise Untranslatable("statement " + type(st).__name__)


def coq_fexp(t):
    if len(t) == 1:
        return t[0]
    if t[0] == "FField":
        return "(FField %s %s)" % (t[1], t[2])
    if t[0] == "FConcat":
        return "(FConcat %s)" % t[1]
    return "(%s %s)" % (t[0], coq_fexp(t[1]))


def coq_flow(d, traces):
    return "mkFlow %s %s %s %s %s %s" % (coq_fexp(d["xyz"]), coq_fexp(d["time"]), coq_fexp(d["len"]), coq_fexp(d["ang"]),
                                          coq_fexp(d["top"]), coq_fexp(traces))


def extract_flows(src_text):
    tree = ast.parse(src_text)
    cls = [n for n in tree.body if isinstance(n, ast.ClassDef) and n.name == "Trajectory"]
    if not cls:
        raise Untranslatable("class Trajectory not found")
    meth = {n.name: n for n in cls[0].body if isinstance(n, ast.FunctionDef)}
    out = {}
    # slice
    it = FlowInterp("key")
    it.block(meth["slice"].body)
    if it.ctor is None:
        raise Untranslatable("slice: no constructor call")
    out["slice"] = coq_flow(it.ctor, it.obj_attrs.get("STraces", ("FNone",)))
    # join: validation and the discard_overlapping_frames loop come first; interpret from `xyz = np.concatenate`
    body = meth["join"].body
    start = [i for i, st in enumerate(body) if isinstance(st, ast.Assign) and isinstance(st.targets[0], ast.Name)
             and st.targets[0].id == "xyz"]
    if not start:
        raise Untranslatable("join: no xyz assignment")
    it = FlowInterp("key")
    it.block(body[start[0]:])
    if it.ctor is None:
        raise Untranslatable("join: no constructor call")
    out["join"] = coq_flow(it.ctor, ("FNone",))
    # stack
    it = FlowInterp("key")
    body = [st for st in meth["stack"].body if not (isinstance(st, ast.If) and any(isinstance(x, ast.Raise) for x in ast.walk(st)))]
    for st in body:                                        # `if self.topology is not None: topology = ... else: topology = None`
        if isinstance(st, ast.If) and st.orelse:
            st.orelse = []
    it.block(body)
    if it.ctor is None:
        raise Untranslatable("stack: no constructor call")
    out["stack"] = coq_flow(it.ctor, ("FNone",))
    # atom_slice
    it = FlowInterp("atom_indices")
    it.inplace = None
    it.block(meth["atom_slice"].body)
    if it.ctor is None or it.inplace is None:
        raise Untranslatable("atom_slice: constructor or in-place branch missing")
    out["atom_slice"] = coq_flow(it.ctor, ("FNone",))
    ip = it.inplace
    keep = ("FKeep",)
    out["atom_slice_inplace"] = "mkFlow %s %s %s %s %s %s" % tuple(
        coq_fexp(ip.get(k, keep)) for k in ("SXyz", "STime", "SLen", "SAng", "STop", "STraces"))
    return out


def _assigned(node, owner="self"):
    """[(attribute, value expr, via)] for `owner.attr = value` / `owner.attr -= value` statements inside node"""
    out = []
    for x in ast.walk(node):
        if isinstance(x, ast.Assign):
            for t in x.targets:
                if isinstance(t, ast.Attribute) and isinstance(t.value, ast.Name) and t.value.id == owner:
                    out.append((t.attr, x.value, "assign"))
        elif isinstance(x, ast.AugAssign):
            t = x.target
            if isinstance(t, ast.Attribute) and isinstance(t.value, ast.Name) and t.value.id == owner:
                out.append((t.attr, x.value, "augassign"))
    return out


def _binding(attr, value_term):
    """self._xyz = v  ->  v ;  self.xyz = v (through the property)  ->  FSetter v"""
    if attr == "_xyz":
        return value_term
    if attr == "xyz":
        return ("FSetter", value_term)
    raise Untranslatable("binding of %s" % attr)


def extract_effects(cls):
    """summaries of the in-place methods: how _xyz is (re)bound and what is assigned to _rmsd_traces"""
    meth = {}
    for n in cls.body:
        if isinstance(n, ast.FunctionDef):
            deco = [ast.unparse(d) for d in n.decorator_list]
            key = n.name + (".setter" if any(d.endswith(".setter") for d in deco) else (".getter" if "property" in deco else ""))
            meth[key] = n
    eff = {}

    def traces_term(assigns):
        tr = [v for a, v, _ in assigns if a == "_rmsd_traces"]
        if not tr:
            return ("FKeep",)
        if len(tr) > 1:
            raise Untranslatable("several assignments to _rmsd_traces")
        v = tr[0]
        if isinstance(v, ast.Constant) and v.value is None:
            return ("FNone",)
        if isinstance(v, ast.Call) and ast.unparse(v.func).endswith("_center_inplace_atom_major") and len(v.args) == 1 \
                and _is_self_attr(v.args[0], ("_xyz", "xyz")):
            return ("FCentred",)
        raise Untranslatable("value assigned to _rmsd_traces: " + ast.unparse(v)[:60])

    def xyz_term(assigns, value=("FArg",)):
        xs = [(a, v, how) for a, v, how in assigns if a in ("_xyz", "xyz")]
        if not xs:
            return ("FKeep",)
        if len(xs) > 1:
            raise Untranslatable("several bindings of xyz")
        return _binding(xs[0][0], value)

    # xyz setter: value = ensure_type(value, ...); self._xyz = value; self._rmsd_traces = None
    st = meth["xyz.setter"]
    a = _assigned(st)
    ens = any(isinstance(x, ast.Call) and ast.unparse(x.func) == "ensure_type" for x in ast.walk(st))
    if [x for x in a if x[0] == "xyz"]:
        raise Untranslatable("xyz setter assigns the property")
    eff["setter_xyz"] = xyz_term(a, ("FEnsure", ("FArg",)) if ens else ("FArg",))
    eff["setter_traces"] = traces_term(a)
    # atom_slice, `if inplace:` branch
    ifs = [x for x in meth["atom_slice"].body if isinstance(x, ast.If) and isinstance(x.test, ast.Name) and x.test.id == "inplace"]
    if len(ifs) != 1:
        raise Untranslatable("atom_slice: `if inplace:` branch")
    a = []
    for stt in ifs[0].body:
        a += _assigned(stt)
    eff["aslice_xyz"] = xyz_term(a, ("FCopy", ("FAtoms", ("FField", "OSelf", "SXyz"))))
    eff["aslice_traces"] = traces_term(a)
    # center_coordinates: `if mass_weighted and ...: self.xyz -= ... else: self._rmsd_traces = _center_inplace(self._xyz)`
    cc = meth["center_coordinates"]
    ifs = [x for x in cc.body if isinstance(x, ast.If)]
    if len(ifs) != 1 or "mass_weighted" not in ast.unparse(ifs[0].test) or not ifs[0].orelse:
        raise Untranslatable("center_coordinates: branches")
    a_mw, a_plain = [], []
    for stt in ifs[0].body:
        a_mw += _assigned(stt)
    for stt in ifs[0].orelse:
        a_plain += _assigned(stt)
    if [x for x in a_mw if x[0] == "_rmsd_traces"] or [x for x in a_plain if x[0] in ("_xyz", "xyz")]:
        raise Untranslatable("center_coordinates: unexpected assignment")
    eff["center_traces"] = traces_term(a_plain)
    eff["center_mw_xyz"] = xyz_term(a_mw)
    # superpose: the result is bound once, at the end
    a = _assigned(meth["superpose"])
    if [x for x in a if x[0] == "_rmsd_traces"]:
        raise Untranslatable("superpose assigns _rmsd_traces itself")
    eff["superpose_xyz"] = xyz_term(a)
    # remove_solvent delegates to atom_slice with the same inplace flag
    rets = [x for x in ast.walk(meth["remove_solvent"]) if isinstance(x, ast.Return)]
    eff["remove_solvent_delegates"] = (
        len(rets) == 1 and isinstance(rets[0].value, ast.Call) and ast.unparse(rets[0].value.func) == "self.atom_slice"
        and any(k.arg == "inplace" and isinstance(k.value, ast.Name) and k.value.id == "inplace" for k in rets[0].value.keywords)
        and not _assigned(meth["remove_solvent"]))
    # the time and unitcell setters leave coordinates and cache alone
    def touches(names):
        return any(a_ in ("_rmsd_traces", "_xyz", "xyz") for nm in names for a_, _v, _h in _assigned(meth[nm]))
    eff["time_touches"] = touches(["time.setter"])
    eff["cell_touches"] = touches(["unitcell_lengths.setter", "unitcell_angles.setter", "unitcell_vectors.setter"])
    return eff


def extract_layer2(cls):
    """facts about restrict_atoms, make_molecules_whole, image_molecules and smooth (coq/Traj/Extra.v: layer2_reading)"""
    meth = {n.name: n for n in cls.body if isinstance(n, ast.FunctionDef)}
    out = {}
    # restrict_atoms: return self.atom_slice(atom_indices, inplace=inplace) and nothing else
    ra = meth["restrict_atoms"]
    body = [x for x in ra.body if not (isinstance(x, ast.Expr) and isinstance(x.value, ast.Constant))]
    out["restrict"] = (
        len(body) == 1 and isinstance(body[0], ast.Return) and isinstance(body[0].value, ast.Call)
        and ast.unparse(body[0].value.func) == "self.atom_slice" and len(body[0].value.args) == 1
        and isinstance(body[0].value.args[0], ast.Name) and body[0].value.args[0].id == ra.args.args[1].arg
        and [(k.arg, ast.unparse(k.value)) for k in body[0].value.keywords] == [("inplace", "inplace")])
    # imaging methods
    resets = []
    shape_ok = True
    for nm, kernel in (("make_molecules_whole", "_geometry.whole_molecules"), ("image_molecules", "_geometry.image_molecules")):
        m = meth[nm]
        binds = [x for x in ast.walk(m) if isinstance(x, ast.If) and isinstance(x.test, ast.Name) and x.test.id == "inplace"
                 and len(x.body) == 1 and isinstance(x.body[0], ast.Assign)]
        ok = (len(binds) == 1 and ast.unparse(binds[0].body[0]) == "result = self" and len(binds[0].orelse) == 1
              and ast.unparse(binds[0].orelse[0]) == "result = self[:]")
        calls = [x for x in ast.walk(m) if isinstance(x, ast.Call) and ast.unparse(x.func) == kernel]
        ok = ok and len(calls) == 1 and calls[0].args and ast.unparse(calls[0].args[0]) in ("result.xyz", "result._xyz")
        a_self = _assigned(m, "self")
        a_res = _assigned(m, "result")
        ok = ok and not a_self and all(a == "_rmsd_traces" and isinstance(v, ast.Constant) and v.value is None and how == "assign"
                                        for a, v, how in a_res)
        if a_res and calls:
            # the reset must come after the kernel call
            line_reset = max(x.lineno for x in ast.walk(m) if isinstance(x, ast.Assign) and any(
                isinstance(t_, ast.Attribute) and ast.unparse(t_) == "result._rmsd_traces" for t_ in x.targets))
            ok = ok and line_reset > calls[0].lineno
        rets = sorted(ast.unparse(x.value) for x in ast.walk(m) if isinstance(x, ast.Return) and x.value is not None)
        ok = ok and rets == ["result", "self"]
        shape_ok = shape_ok and ok
        resets.append(bool(a_res))
    if resets[0] != resets[1]:
        raise Untranslatable("make_molecules_whole and image_molecules differ in resetting _rmsd_traces")
    out["imaging_shape"] = shape_ok
    out["imaging_resets"] = resets[0]
    # smooth
    sm = meth["smooth"]
    src = ast.unparse(sm)
    a_self = _assigned(sm, "self")
    out["smooth_setter"] = ("xyz = self.xyz.copy()" in src and [a for a, _v, _h in a_self] == ["xyz"]
                            and ast.unparse(a_self[0][1]) == "xyz" and a_self[0][2] == "assign")
    ctor = [x for x in ast.walk(sm) if isinstance(x, ast.Call) and ast.unparse(x.func) in ("Trajectory", "self.__class__")]
    out["smooth_ctor"] = (len(ctor) == 1 and not ctor[0].args and sorted((k.arg, ast.unparse(k.value)) for k in ctor[0].keywords) == sorted([
        ("xyz", "xyz"), ("topology", "self.topology"), ("time", "self.time"), ("unitcell_lengths", "self.unitcell_lengths"),
        ("unitcell_angles", "self.unitcell_angles")]))
    return out


def translate(ctx):
    path = os.path.join(REPO, "mdtraj", "core", "trajectory.py")
    try:
        with open(path) as fh:
            src_text = fh.read()
        flows = extract_flows(src_text)
        tree = ast.parse(src_text)
        eff = extract_effects([n for n in tree.body if isinstance(n, ast.ClassDef) and n.name == "Trajectory"][0])
        l2 = extract_layer2([n for n in tree.body if isinstance(n, ast.ClassDef) and n.name == "Trajectory"][0])
    except Exception as e:
        # outside the translator's grammar (e.g. after a refactoring): no stale term may stand in; the tie for this
        # run is the correspondence alone (main.py records 'translator: degraded')
        ctx.write_gen("Gen/TrajFlow.v", "(* GENERATED: harness/props/C03.py:translate could not read mdtraj/core/trajectory.py\n"
                                          "   (%s); the data-flow tie is degraded to the correspondence run. *)\n"
                                          "Definition translator_degraded := true.\n" % str(e).replace("*)", "* )")[:300])
        ctx.notes.pop("source_variant", None)
        raise
    cb = lambda b: "true" if b else "false"   # noqa: E731
    text = ["(* GENERATED on every run by harness/props/C03.py:translate from mdtraj/core/trajectory.py -- do not edit.",
            "   Field data-flow of Trajectory.slice / join / stack / atom_slice and the cache effects of the in-place methods",
            "   (term language and its semantics: MD.Traj.Flow; soundness of the checkers: MD.Traj.FlowProofs). *)",
            "Require Import MD.Traj.Model MD.Traj.Flow MD.Traj.Extra.", ""]
    for k in ("slice", "join", "stack", "atom_slice"):
        text.append("Definition %s_flow : flow := %s." % (k, flows[k]))
    text.append("Definition inplace_effects : effects :=\n  mkEffects %s %s\n            %s %s\n            %s %s %s\n            %s %s %s." % (
        coq_fexp(eff["setter_xyz"]), coq_fexp(eff["setter_traces"]), coq_fexp(eff["aslice_xyz"]), coq_fexp(eff["aslice_traces"]),
        coq_fexp(eff["center_traces"]), coq_fexp(eff["center_mw_xyz"]), coq_fexp(eff["superpose_xyz"]),
        cb(eff["remove_solvent_delegates"]), cb(eff["time_touches"]), cb(eff["cell_touches"])))
    text += ["",
             "(* each extracted term passes the checker, hence (FlowProofs.check_*_sound) denotes the model's operation *)"]
    for k in ("slice", "join", "stack", "atom_slice"):
        text += ["Lemma %s_flow_checks : check_%s %s_flow = true." % (k, k, k), "Proof. vm_compute. reflexivity. Qed."]
    text += ["Lemma inplace_effects_check : check_effects inplace_effects = true.", "Proof. vm_compute. reflexivity. Qed.", ""]
    text += ["(* second layer (MD.Traj.Extra): restrict_atoms / make_molecules_whole / image_molecules / smooth as read *)",
             "Definition layer2_as_read : layer2_reading := mkL2 %s %s %s %s %s." % (
                 cb(l2["restrict"]), cb(l2["imaging_shape"]), cb(l2["imaging_resets"]), cb(l2["smooth_setter"]), cb(l2["smooth_ctor"])),
             "Lemma layer2_checks : check_layer2 layer2_as_read = true.", "Proof. vm_compute. reflexivity. Qed.", ""]
    ctx.write_gen("Gen/TrajFlow.v", "\n".join(text))
    ctx.notes["translator"] = "ok"
    # the checkers accept the repaired data-flow only; the imaging methods are read as repaired (0) or as found (8)
    ctx.notes["source_variant"] = 0 if l2["imaging_resets"] else 8


# ----------------------------------------------------------------------------- generator
# observers that may be called in the middle of a history (harness/impl/traj_impl.py: SMALL_OBSERVERS)
OBSERVER_NAMES = [
    "compute_distances", "compute_distances(periodic=False)", "compute_distances(opt=False)", "compute_displacements",
    "compute_angles", "compute_dihedrals", "compute_rg", "compute_center_of_mass", "compute_center_of_geometry",
    "compute_inertia_tensor", "compute_gyration_tensor", "compute_contacts", "compute_neighbors", "compute_neighborlist",
    "compute_rdf", "density", "shrake_rupley", "compute_drid", "find_closest_contact", "rmsd(atom_indices)", "lprmsd",
    "hash", "eq", "str", "timestep", "unitcell_vectors", "unitcell_volumes", "openmm", "topology.to_dataframe",
    "topology.select", "topology.find_molecules", "slice", "slice(copy=False)", "join", "stack", "atom_slice",
    "remove_solvent", "smooth(inplace=False)", "make_molecules_whole(inplace=False)", "image_molecules(inplace=False)",
    "pickle", "deepcopy"] + ["save(.%s)" % e for e in ("h5", "pdb", "xtc", "trr", "dcd", "nc", "binpos", "mdcrd", "xyz",
                                                      "lammpstrj", "gro", "rst7", "ncrst", "lh5", "pdb.gz", "dtr")]


class Shadow:
    """rough prediction of (n_frames, chains, has_cell) per register, only to bias the generator towards
    histories that mostly succeed; never used in a comparison"""

    def __init__(self, specs):
        self.regs = [{"n": n, "chains": [list(c) for c in ch], "cell": cell} for (n, ch, cell, _e) in specs]

    def na(self, r):
        return sum(len(c) for c in self.regs[r]["chains"])


def rand_key(rng, n):
    k = rng.random()
    if k < 0.18:
        if n == 0 or rng.random() < 0.08:
            return ["int", rng.choice([n, -n - 1, n + 2])]
        kind = rng.choice(["int", "int", "npint", "npint", "npint32", "npuint", "arr0d", "tuple1"])
        return [kind, rng.randrange(0, n) if kind == "npuint" else rng.randrange(-n, n)]
    if k < 0.62:
        def bound():
            return None if rng.random() < 0.3 else rng.randint(-n - 2, n + 2)
        c = rng.choice([None, None, 1, 1, 2, 3, -1, -1, -2, -3])
        if rng.random() < 0.02:
            c = 0
        return ["slice", [bound(), bound(), c]]
    if k < 0.84:
        ln = rng.randint(0, min(n + 2, 7))
        if n == 0:
            return ["list", []]
        idx = [rng.randrange(-n, n) for _ in range(ln)]
        if rng.random() < 0.06:
            idx.append(n + rng.randint(0, 2))
        if rng.random() < 0.15:
            a, b, c = rng.randint(-1, n + 1), rng.randint(-2, n + 1), rng.choice([1, 1, 2, -1, -2])
            if all(-n <= i < n for i in range(a, b, c)) or rng.random() < 0.3:
                return ["range", [a, b, c]]
        return [rng.choice(["list", "list", "array", "array", "listnp", "array32", "tuplearr"]), idx]
    m = [rng.random() < 0.6 for _ in range(n)]
    if rng.random() < 0.06:
        m = m + [True]
    return [rng.choice(["mask", "masklist"]) if m else "mask", m]


def key_len(key, n):
    kind, v = key
    try:
        if kind in ("int", "npint", "npint32", "npuint", "arr0d", "tuple1"):
            return 1 if -n <= v < n else None
        if kind == "slice":
            return len(range(*slice(*v).indices(n)))
        if kind == "range":
            v = list(range(*v))
            kind = "list"
        if kind in ("list", "array", "listnp", "array32", "tuplearr"):
            return len(v) if all(-n <= i < n for i in v) else None
        return sum(v) if len(v) == n else None
    except ValueError:
        return None


def gen_specs(rng):
    kinds_a = rng.choice([[[1, 2, 3]], [[1, 2, 100], [4]], [[1, 2], [100, 3, 101]], [[5, 100, 6, 7]], [[2, 4], [6]]])
    kinds_b = rng.choice([[[8, 9, 10]], [[1, 3, 2]], [[7, 100], [11, 12]], [[1, 2, 3, 4]], [[100, 101, 1, 2, 3]]])
    cell = rng.random() < 0.7

    def tkind():
        # the time axis: absent (int64 arange 0..n-1), int64 frame numbers, float32 / float64 with fractional values
        return rng.choice([False, "i8", "f4", "f8", "f8", True])
    specs = [[rng.randint(2, 6), kinds_a, cell, tkind()],
             [rng.randint(1, 5), kinds_a, cell if rng.random() < 0.85 else not cell, tkind()]]
    if rng.random() < 0.7:
        specs.append([rng.choice([specs[0][0], rng.randint(1, 5)]), kinds_b, rng.random() < 0.6, tkind()])
    return specs


def gen_history(rng, specs, length):
    sh = Shadow(specs)
    ops = []
    nsup = 0
    for _ in range(length):
        R = len(sh.regs)
        r = rng.randrange(R) if rng.random() < 0.5 else R - 1 - min(R - 1, int(rng.expovariate(1.0)))
        reg = sh.regs[r]
        n, na = reg["n"], sh.na(r)
        kind = rng.choices(
            ["getitem", "slice_nc", "join", "mdjoin", "stack", "atom_slice", "remove_solvent", "center", "superpose",
             "set_xyz", "set_time", "set_cell", "restrict_atoms", "image", "smooth", "observe"],
            [22, 9, 8, 3, 6, 10, 3, 14, 7, 5, 3, 6, 2, 6, 3, 5])[0]
        if kind in ("getitem", "slice_nc"):
            key = rand_key(rng, n)
            cp = kind == "getitem"
            op = ["slice", r, key, cp] + (["method"] if cp and rng.random() < 0.3 else [])
            ops.append(op)
            ln = key_len(key, n)
            if ln is not None:
                sh.regs.append({"n": ln, "chains": reg["chains"], "cell": reg["cell"]})
        elif kind == "join":
            cands = [i for i in range(R) if sh.na(i) == na] if rng.random() < 0.9 else list(range(R))
            k = 1 if rng.random() < 0.75 else 2
            others = [rng.choice(cands) for _ in range(k)]
            if n + sum(sh.regs[o]["n"] for o in others) > 14:
                continue
            chk = rng.random() < 0.7
            dis = rng.random() < 0.35
            op = ["join", r, others, chk, "plus" if (k == 1 and chk and not dis and rng.random() < 0.4) else None, dis]
            ops.append(op)
            ok = all(sh.na(o) == na and sh.regs[o]["cell"] == reg["cell"] and (not chk or sh.regs[o]["chains"] == reg["chains"])
                     for o in others)
            if ok:
                sh.regs.append({"n": n + sum(sh.regs[o]["n"] for o in others), "chains": reg["chains"], "cell": reg["cell"]})
        elif kind == "mdjoin":
            cands = [i for i in range(R) if sh.regs[i]["chains"] == reg["chains"] and sh.regs[i]["cell"] == reg["cell"]]
            rs_ = [r] + [rng.choice(cands) for _ in range(rng.randint(1, 2))]
            if sum(sh.regs[o]["n"] for o in rs_) > 14:
                continue
            ops.append(["mdjoin", rs_, rng.random() < 0.4])
            sh.regs.append({"n": sum(sh.regs[o]["n"] for o in rs_), "chains": reg["chains"], "cell": reg["cell"]})
        elif kind == "stack":
            cands = [i for i in range(R) if sh.regs[i]["n"] == n] if rng.random() < 0.9 else list(range(R))
            o = rng.choice(cands)
            if na + sh.na(o) > 10:
                continue
            ops.append(["stack", r, o])
            if sh.regs[o]["n"] == n:
                sh.regs.append({"n": n, "chains": reg["chains"] + sh.regs[o]["chains"], "cell": reg["cell"]})
        elif kind == "atom_slice":
            inplace = rng.random() < 0.4
            if na == 0:
                continue
            k = rng.randint(1, na)
            idx = sorted(rng.sample(range(na), k))
            weird = rng.random()
            if not inplace and weird < 0.05:
                idx = idx + [idx[0]]              # duplicate: constructor refuses
            elif not inplace and weird < 0.10:
                idx = [-1]                        # negative: coordinates yes, topology no -> refused
            elif weird < 0.14:
                idx = idx + [na + 1]              # out of range
            elif weird < 0.20 and len(idx) > 1:
                rng.shuffle(idx)                  # not increasing: coordinates in the given order, topology sorted
            ops.append(["atom_slice", r, idx, inplace])
            if all(0 <= i < na for i in idx) and len(set(idx)) == len(idx):
                flat = [k_ for c in reg["chains"] for k_ in c]
                # shadow keeps chain structure only roughly (one chain); good enough to bias
                newc = []
                pos = 0
                for c in reg["chains"]:
                    kept = [c[j] for j in range(len(c)) if (pos + j) in idx]
                    pos += len(c)
                    if kept:
                        newc.append(kept)
                nr = {"n": n, "chains": newc, "cell": reg["cell"]}
                if inplace:
                    sh.regs[r] = nr
                else:
                    sh.regs.append(nr)
                del flat
        elif kind == "restrict_atoms":
            if na == 0:
                continue
            inplace = rng.random() < 0.5
            idx = sorted(rng.sample(range(na), rng.randint(1, na)))
            ops.append(["restrict_atoms", r, idx, inplace])
            newc, pos = [], 0
            for c in reg["chains"]:
                kept = [c[j] for j in range(len(c)) if (pos + j) in idx]
                pos += len(c)
                if kept:
                    newc.append(kept)
            nr = {"n": n, "chains": newc, "cell": reg["cell"]}
            if inplace:
                sh.regs[r] = nr
            else:
                sh.regs.append(nr)
        elif kind == "image":
            if not reg["cell"] and rng.random() < 0.8:
                continue
            inplace = rng.random() < 0.5
            ops.append(["image", r, rng.choice(["whole", "image"]), inplace])
            if not inplace and reg["cell"]:
                sh.regs.append(dict(reg))
        elif kind == "smooth":
            inplace = rng.random() < 0.5
            ops.append(["smooth", r, inplace])
            if not inplace and (n >= 3 or na == 0):
                sh.regs.append(dict(reg))
        elif kind == "observe":
            ops.append(["observe", r, rng.choice(OBSERVER_NAMES)])
        elif kind == "remove_solvent":
            inplace = rng.random() < 0.4
            ops.append(["remove_solvent", r, inplace])
            newc = [[k_ for k_ in c if k_ < 100] for c in reg["chains"]]
            nr = {"n": n, "chains": [c for c in newc if c], "cell": reg["cell"]}
            if inplace:
                sh.regs[r] = nr
            else:
                sh.regs.append(nr)
        elif kind == "center":
            if na == 0:
                continue
            ops.append(["center", r, rng.random() < 0.2])
        elif kind == "superpose":
            if nsup >= 3 or na < 3 or n == 0:
                continue
            cands = [i for i in range(R) if sh.na(i) == na and sh.regs[i]["n"] > 0] if rng.random() < 0.93 else \
                [i for i in range(R) if sh.regs[i]["n"] > 0]
            if not cands:
                continue
            q = rng.choice(cands)
            nq = sh.regs[q]["n"]
            fr = rng.randrange(-nq, nq) if rng.random() < 0.95 else nq
            ops.append(["superpose", r, q, fr])
            nsup += 1
        elif kind == "set_xyz":
            if rng.random() < 0.6:
                m = n if rng.random() < 0.9 else n + 1
                ops.append(["set_xyz_new", r, m, na if rng.random() < 0.93 else na + 1])
                if m != n:
                    sh.regs[r] = dict(reg, n=m)
            else:
                cands = [i for i in range(R) if sh.na(i) == na and sh.regs[i]["n"] == n and i != r]
                if not cands:
                    continue
                ops.append(["set_xyz_share", r, rng.choice(cands)])
        elif kind == "set_time":
            if rng.random() < 0.6:
                ops.append(["set_time_new", r, n if rng.random() < 0.9 else n + 1, rng.choice(["i8", "f4", "f8", True])])
            else:
                ops.append(["set_time_share", r, rng.randrange(R)])
        else:
            w = rng.random()
            if w < 0.3:
                ops.append(["set_vectors", r, None])
                sh.regs[r] = dict(reg, cell=False)
            elif w < 0.5:
                zero = rng.random() < 0.15
                ops.append(["set_vectors", r, n if rng.random() < 0.9 else n + 1, zero])
                sh.regs[r] = dict(reg, cell=not zero)
            elif w < 0.75:
                ops.append([rng.choice(["set_lengths", "set_angles"]), r, None])
                sh.regs[r] = dict(reg, cell=False)
            else:
                ops.append([rng.choice(["set_lengths", "set_angles"]), r, n if rng.random() < 0.9 else n + 1])
    return ops


EXH_SPECS = [[4, [[1, 2, 100], [4]], True, True], [4, [[1, 2, 100], [4]], True, True]]


def exhaustive_histories(length):
    """every sequence of `length` ops from a 14-letter alphabet; each op acts on the newest register (L),
    the second operand is register 1"""
    alphabet = ["center", "center_mw", "t[1:]", "t[::-1]", "t[[2,0]]", "t[1]", "nc[0:2]", "join", "stack", "aslice",
                "aslice_ip", "superpose", "set_xyz", "rmsolv_ip"]
    newl = ["whole_ip", "image_cp", "smooth_cp", "smooth_ip"]
    partner = ["center", "t[1:]", "nc[0:2]", "join"] + newl
    seqs = list(itertools.product(alphabet, repeat=length))
    if length == 1:
        seqs += [(a,) for a in newl]
    elif length == 2:
        seqs += [(a, b) for a in partner for b in partner if a in newl or b in newl]
    for seq in seqs:
        if seq.count("superpose") > 2 or seq.count("stack") > 2:
            continue
        sh = Shadow(EXH_SPECS)
        ops = []
        for a in seq:
            L = len(sh.regs) - 1
            reg = sh.regs[L]
            n, na = reg["n"], sh.na(L)
            new = None
            if a == "center":
                ops.append(["center", L, False])
            elif a == "center_mw":
                ops.append(["center", L, True])
            elif a in ("t[1:]", "t[::-1]", "t[[2,0]]", "t[1]", "nc[0:2]"):
                key = {"t[1:]": ["slice", [1, None, None]], "t[::-1]": ["slice", [None, None, -1]],
                       "t[[2,0]]": ["list", [2, 0]], "t[1]": ["int", 1], "nc[0:2]": ["slice", [0, 2, None]]}[a]
                ops.append(["slice", L, key, a != "nc[0:2]"])
                ln = key_len(key, n)
                if ln is not None:
                    new = dict(reg, n=ln)
            elif a == "join":
                ops.append(["join", L, [1], True])
                if sh.na(1) == na and sh.regs[1]["chains"] == reg["chains"] and sh.regs[1]["cell"] == reg["cell"]:
                    new = dict(reg, n=n + sh.regs[1]["n"])
            elif a == "stack":
                ops.append(["stack", L, 1])
                if sh.regs[1]["n"] == n:
                    new = dict(reg, chains=reg["chains"] + sh.regs[1]["chains"])
            elif a in ("aslice", "aslice_ip"):
                idx = [0, 2] if na >= 3 else [0]
                ops.append(["atom_slice", L, idx, a == "aslice_ip"])
                newc, pos = [], 0
                for c in reg["chains"]:
                    kept = [c[j] for j in range(len(c)) if (pos + j) in idx]
                    pos += len(c)
                    if kept:
                        newc.append(kept)
                if a == "aslice_ip":
                    sh.regs[L] = dict(reg, chains=newc)
                else:
                    new = dict(reg, chains=newc)
            elif a == "superpose":
                ops.append(["superpose", L, 1, 1])
            elif a == "set_xyz":
                ops.append(["set_xyz_new", L, n, na])
            elif a == "whole_ip":
                ops.append(["image", L, "whole", True])
            elif a == "image_cp":
                ops.append(["image", L, "image", False])
                new = dict(reg)
            elif a == "smooth_cp":
                ops.append(["smooth", L, False])
                if n >= 3:
                    new = dict(reg)
            elif a == "smooth_ip":
                ops.append(["smooth", L, True])
            elif a == "rmsolv_ip":
                ops.append(["remove_solvent", L, True])
                sh.regs[L] = dict(reg, chains=[c2 for c2 in [[k for k in c if k < 100] for c in reg["chains"]] if c2])
            if new is not None:
                sh.regs.append(new)
        yield ops


def overlap_history(rng, specs):
    """joins with discard_overlapping_frames=True whose operands really overlap: consecutive chunks of one run that
    share a frame (t[a:b+1], t[b:c]), with the run or the chunks centred before, the shared frame carrying a different
    time stamp, chunks overlapping by two frames (no trimming: only last/first are compared), a chunk changed in place
    after the cut (coordinates differ: no trimming), three chunks with two seams, the whole run appended again; the
    joined result is then sliced / masked / centred so that a cache of the wrong length or offset shows"""
    n = specs[0][0]
    ops = []
    R = len(specs)
    if rng.random() < 0.75:
        ops.append(["center", 0, rng.random() < 0.15])
    b = rng.randint(1, n - 1) if n > 1 else 0
    a = rng.randint(0, max(0, b - 1))
    c = rng.randint(b + 1, n)
    shape = rng.choice(["share1", "share1", "share1", "share2", "gap", "three", "single"])
    if shape == "share2" and b + 2 <= n:
        chunks = [[a, b + 2], [b, c]]
    elif shape == "gap":
        chunks = [[a, b], [b, c]]
    elif shape == "three" and n >= 3:
        b1 = rng.randint(1, n - 2)
        b2 = rng.randint(b1 + 1, n - 1)
        chunks = [[0, b1 + 1], [b1, b2 + 1], [b2, n]]
    elif shape == "single":
        chunks = [[b, b + 1], [b, c]]            # a one-frame operand that is trimmed away completely
    else:
        chunks = [[a, b + 1], [b, c]]
    regs = []
    for lo, hi in chunks:
        ops.append(["slice", 0, ["slice", [lo, hi, None]], rng.random() < 0.85])
        regs.append(R + len(regs))
    w = rng.random()
    if w < 0.2:
        ops.append(["center", regs[rng.randrange(len(regs))], False])       # idempotent if the run was centred, a real change otherwise
    elif w < 0.3:
        ops.append(["set_time_new", regs[-1], chunks[-1][1] - chunks[-1][0]])   # equal xyz, different time
    elif w < 0.4:
        ops.append(["center", regs[0], True])
    elif w < 0.5 and sum(len(ch) for ch in specs[0][1]) >= 3:
        ops.append(["superpose", regs[0], regs[-1], 0])
    how = rng.random()
    if how < 0.45:
        ops.append(["join", regs[0], regs[1:], rng.random() < 0.7, None, True])
    elif how < 0.8:
        ops.append(["mdjoin", regs, True])
    else:
        ops.append(["join", regs[0], regs[1:] + [0], True, None, True])          # ... and the whole run again
    J = R + len(regs)
    tail = rng.random()
    if tail < 0.3:
        ops.append(["slice", J, ["slice", [1, None, None]], True])
    elif tail < 0.5:
        ops.append(["slice", J, ["mask", [rng.random() < 0.6 for _ in range(12)]], True])    # wrong length -> IndexError in both
    elif tail < 0.65:
        ops.append(["center", J, False])
    elif tail < 0.8:
        ops.append(["join", J, [J], True, None, True])
    return ops


def bonded_history(rng, specs, length):
    """histories on topologies with bonds and two-atom residues (sharing / identity part of the property: every Chain,
    Residue, Atom and bonded-Atom object of a result must be new).  Topology.__eq__ then also depends on residues and
    bonds, which the model does not carry: joins use check_topology=False, md.join only operands of one lineage."""
    ops = gen_history(rng, specs, length)
    out = []
    for o in ops:
        if o[0] == "join":
            o = list(o) + [None] * (6 - len(o))
            o[3] = False
            o[4] = None
        elif o[0] == "mdjoin":
            o = ["mdjoin", [o[1][0]] * len(o[1])] + list(o[2:])
        out.append(o)
    return out


def imaging_history(rng, specs):
    """the imaging methods and smooth in the positions where a stale cache would show: after center_coordinates, on the
    object itself and on the returned copy, through a copy=False view, followed by slicing / joining / centring again"""
    ops = []
    R = len(specs)
    if rng.random() < 0.8:
        ops.append(["center", 0, rng.random() < 0.1])
    if rng.random() < 0.3:
        ops.append(["slice", 0, ["slice", [rng.choice([None, 0, 1]), None, None]], rng.random() < 0.5])
    L = R + sum(1 for o in ops if o[0] == "slice")
    tgt = rng.choice([0, L - 1])
    what = rng.random()
    if what < 0.6:
        ip = rng.random() < 0.5
        ops.append(["image", tgt, rng.choice(["whole", "image"]), ip])
        res = tgt if ip else L
    elif what < 0.85:
        ip = rng.random() < 0.5
        ops.append(["smooth", tgt, ip])
        res = tgt if ip else L
    else:
        ip = rng.random() < 0.5
        ops.append(["restrict_atoms", tgt, [0, 1], ip])
        res = tgt if ip else L
    tail = rng.random()
    if tail < 0.25:
        ops.append(["slice", res, ["slice", [1, None, None]], True])
    elif tail < 0.4:
        ops.append(["center", res, False])
    elif tail < 0.55:
        ops.append(["join", res, [res], True, None, rng.random() < 0.5])
    elif tail < 0.7:
        ops.append(["image", res, "whole", rng.random() < 0.5])
    elif tail < 0.8:
        ops.append(["atom_slice", res, [0, 1], rng.random() < 0.5])
    ops.append(["observe", rng.randrange(R), rng.choice(OBSERVER_NAMES)])
    return ops


def observer_history(rng, specs, length):
    """a random history, then a handful of observers on the registers it left behind (cache present or not, views,
    Fortran-ordered cell arrays, integer / float32 / float64 times)"""
    ops = gen_history(rng, specs, length)
    sh_n = len(specs) + sum(1 for o in ops if o[0] in ("slice", "join", "mdjoin", "stack"))   # upper bound; NoReg is harmless
    for _ in range(rng.randint(4, 8)):
        ops.append(["observe", rng.randrange(max(1, min(sh_n, len(specs) + 2))), rng.choice(OBSERVER_NAMES)])
    return ops


def assigned_time_history(rng, specs):
    """registers constructed without time get a time array assigned (fresh of any dtype, or another register's), then an
    atom subset / slice / join is taken: the result must carry the assigned values"""
    specs[0][3] = False
    if len(specs) > 1 and rng.random() < 0.5:
        specs[1][3] = False
    n0 = specs[0][0]
    na = sum(len(c) for c in specs[0][1])
    R = len(specs)
    ops = []
    if rng.random() < 0.25:
        ops.append(["slice", 0, ["slice", [None, None, rng.choice([None, -1])]], rng.random() < 0.7])   # the flag is inherited? (no: time is passed)
    if rng.random() < 0.75:
        ops.append(["set_time_new", 0, n0, rng.choice(["i8", "f4", "f8", True])])
    else:
        cands = [i for i in range(1, R) if specs[i][0] == n0]
        ops.append(["set_time_share", 0, rng.choice(cands)] if cands else ["set_time_new", 0, n0, "f8"])
    for _ in range(rng.randint(1, 3)):
        w = rng.random()
        idx = sorted(rng.sample(range(na), rng.randint(1, na)))
        if w < 0.4:
            ops.append(["atom_slice", 0, idx, False])
        elif w < 0.6:
            ops.append(["remove_solvent", 0, False])
        elif w < 0.8:
            ops.append(["restrict_atoms", 0, idx, False])
        elif w < 0.9:
            ops.append(["slice", 0, rand_key(rng, n0), True])
        else:
            ops.append(["center", 0, False])
    return ops


def fixed_probes():
    """the historical witnesses and a few structural probes, always run first"""
    s3 = [[5, [[1, 2, 100], [4]], True, True], [3, [[1, 2, 100], [4]], True, True], [5, [[8, 9, 10, 11]], False, False]]
    P = []
    # D1: center; t[2:]; (rmsd precentered)       D1 with an int key and with an index list that repeats
    P.append((s3, [["center", 0, False], ["slice", 0, ["slice", [2, None, None]], True]]))
    P.append((s3, [["center", 0, False], ["slice", 0, ["int", 3], True], ["slice", 0, ["list", [4, 4, 0]], True]]))
    # D2: center; atom_slice(inplace=True)
    P.append((s3, [["center", 0, False], ["atom_slice", 0, [0, 1, 3], True]]))
    P.append((s3, [["center", 0, False], ["remove_solvent", 0, True]]))
    # documented aliasing of slice(copy=False): in-place change through the view after the parent cached its traces
    P.append((s3, [["center", 0, False], ["slice", 0, ["slice", [1, 4, None]], False], ["superpose", 3, 2, 1]]))
    P.append((s3, [["slice", 0, ["slice", [1, 4, None]], False], ["center", 3, False], ["superpose", 0, 2, 0]]))
    # sharing structure of copy=False for every key shape, and of stack
    P.append((s3, [["slice", 0, ["slice", [None, None, 2]], False], ["slice", 0, ["slice", [None, None, -1]], False],
                   ["slice", 0, ["slice", [3, 4, 2]], False], ["slice", 0, ["int", -1], False],
                   ["slice", 0, ["list", [1, 2]], False], ["slice", 0, ["mask", [True, False, True, False, False]], False],
                   ["slice", 0, ["slice", [4, 4, None]], False], ["stack", 0, 2], ["slice", 3, ["slice", [1, None, None]], False]]))
    # joins: +, list, md.join, mixed cell, unequal topologies with and without the check
    P.append((s3, [["join", 0, [1], True, "plus"], ["join", 0, [1, 0], True], ["mdjoin", [0, 1, 0]], ["join", 0, [2], True],
                   ["join", 0, [2], False], ["set_vectors", 1, None], ["join", 0, [1], True], ["set_angles", 0, None],
                   ["join", 0, [1], True], ["atom_slice", 0, [0, 1], False]]))
    # assignments: wrong lengths are refused (or not: xyz), shared arrays
    P.append((s3, [["set_xyz_new", 0, 6, 4], ["slice", 0, ["slice", [1, None, None]], True], ["set_time_new", 0, 6],
                   ["set_lengths", 0, 5], ["set_vectors", 0, 5], ["set_vectors", 0, 6], ["set_xyz_share", 1, 2],
                   ["set_time_share", 2, 0]]))
    # superpose with a wrong atom count raises after centring in place
    P.append((s3, [["superpose", 0, 2, 0], ["superpose", 2, 0, -1], ["center", 0, True], ["superpose", 0, 1, 5]]))
    # joins that trim an overlapping frame, operands centred before (cache of the result must be absent or right)
    P.append((s3, [["center", 0, False], ["slice", 0, ["slice", [0, 3, None]], True], ["slice", 0, ["slice", [2, 5, None]], True],
                   ["join", 3, [4], True, None, True], ["mdjoin", [3, 4, 0], True], ["join", 3, [4], True, None, False],
                   ["slice", 5, ["mask", [True, False, True, True]], True]]))
    P.append((s3, [["slice", 0, ["slice", [0, 2, None]], True], ["slice", 0, ["slice", [1, 4, None]], True], ["center", 3, False],
                   ["center", 4, False], ["join", 3, [4], True, None, True], ["set_time_new", 4, 3], ["mdjoin", [3, 4], True],
                   ["slice", 0, ["list", []], True], ["join", 0, [7], True, None, True], ["join", 7, [0], True, None, True]]))
    # time has no fixed dtype: frame-number (int64) times first, fractional float32 / float64 times later, and the reverse,
    # through +, join(list), md.join, with and without trimming; every time value must come through unchanged
    sd = [[3, [[1, 2, 100], [4]], True, False], [3, [[1, 2, 100], [4]], True, "f8"], [2, [[1, 2, 100], [4]], True, "f4"],
          [2, [[1, 2, 100], [4]], True, "i8"]]
    P.append((sd, [["join", 0, [1], True, "plus"], ["join", 1, [0], True, "plus"], ["join", 2, [1], True], ["join", 1, [2], True],
                   ["join", 3, [2, 1], True], ["mdjoin", [0, 1, 2, 3]], ["mdjoin", [2, 3, 1], True], ["join", 0, [2], True, None, True],
                   ["set_time_new", 1, 3, "i8"], ["join", 1, [2], True], ["slice", 4, ["slice", [None, None, -2]], True],
                   ["stack", 0, 1], ["atom_slice", 1, [0, 2], False]]))
    # md.join is a reduction: an empty operand in the middle raises IndexError at ITS pairwise step, before a later
    # incompatible operand is looked at (a list join would have refused the incompatible one first)
    P.append((s3, [["slice", 0, ["list", []], True], ["mdjoin", [0, 3, 2], True], ["mdjoin", [0, 2, 3], True], ["mdjoin", [0, 3, 2], False],
                   ["join", 0, [3, 2], True, None, True], ["mdjoin", [3, 0, 1], True], ["mdjoin", [0, 1, 0, 1], True]]))
    # second layer: the imaging methods after centring (object itself, returned copy, through a view), smooth both ways,
    # restrict_atoms both ways, each followed by something that would show a stale or misplaced cache
    P.append((s3, [["center", 0, False], ["image", 0, "whole", True], ["slice", 0, ["slice", [1, None, None]], True]]))
    P.append((s3, [["center", 0, False], ["image", 0, "image", False], ["image", 0, "whole", False], ["center", 3, False],
                   ["image", 2, "whole", True]]))
    P.append((s3, [["center", 0, False], ["slice", 0, ["slice", [1, 4, None]], False], ["image", 3, "image", True],
                   ["smooth", 0, False], ["smooth", 0, True], ["smooth", 1, True], ["smooth", 2, False]]))
    P.append((s3, [["center", 0, False], ["restrict_atoms", 0, [0, 2], False], ["restrict_atoms", 0, [1, 3], True],
                   ["observe", 0, "save(.h5)"], ["observe", 0, "compute_distances"], ["observe", 3, "save(.xtc)"],
                   ["observe", 1, "image_molecules(inplace=False)"], ["observe", 0, "rmsd(atom_indices)"]]))
    # every spelling of an integer and of an index list
    P.append((s3, [["slice", 0, ["npint32", -2], True], ["slice", 0, ["npuint", 3], True], ["slice", 0, ["arr0d", 1], True],
                   ["slice", 0, ["tuple1", -1], True], ["slice", 0, ["range", [0, 5, 2]], True], ["slice", 0, ["range", [4, -1, -1]], True],
                   ["slice", 0, ["range", [0, 0, 1]], True], ["slice", 0, ["range", [3, 7, 1]], True], ["slice", 0, ["listnp", [4, 0, 0]], True],
                   ["slice", 0, ["array32", [-1, 2]], True], ["slice", 0, ["tuplearr", [1, 1]], True],
                   ["slice", 0, ["masklist", [True, False, True, True, False]], True], ["slice", 0, ["arr0d", 2], False],
                   ["slice", 0, ["range", [1, 3, 1]], False], ["slice", 0, ["masklist", [False] * 5], True]]))
    # a trajectory built WITHOUT time (_time_default_to_arange stays set for ever) whose time is assigned afterwards: every
    # atom subset (atom_slice / remove_solvent / restrict_atoms, inplace=False), slice, join and stack must carry the
    # ASSIGNED times, for each dtype of the assigned array; the same after the assigned array was shared from another object
    sn = [[4, [[1, 2, 100], [4]], True, False], [4, [[1, 2, 100], [4]], False, "f8"], [3, [[5, 100, 6, 7]], False, False]]
    P.append((sn, [["set_time_new", 0, 4, "f8"], ["atom_slice", 0, [0, 2], False], ["remove_solvent", 0, False],
                   ["restrict_atoms", 0, [1, 3], False], ["slice", 0, ["slice", [1, None, None]], True], ["atom_slice", 6, [0], False],
                   ["set_time_share", 2, 2], ["set_time_new", 2, 3, "i8"], ["remove_solvent", 2, False], ["atom_slice", 2, [3, 0], False],
                   ["join", 0, [0], True], ["stack", 0, 1]]))
    P.append((sn, [["set_time_share", 0, 1], ["atom_slice", 0, [1], False], ["set_time_new", 0, 4, "f4"], ["remove_solvent", 0, False],
                   ["atom_slice", 0, [0, 1], True], ["restrict_atoms", 0, [0], False], ["atom_slice", 1, [0], False]]))
    return [{"specs": s, "ops": o, "stream": "probe"} for s, o in P]


def build_cases(ctx):
    rng = ctx.rng
    quick = ctx.tier == "quick"
    cases = fixed_probes()
    nrand = 230 if quick else 2400
    maxlen = 8 if quick else 20
    for i in range(nrand):
        specs = gen_specs(rng)
        L = rng.randint(2, maxlen)
        cases.append({"specs": specs, "ops": gen_history(rng, specs, L), "stream": "random"})
    for i in range(70 if quick else 700):
        specs = gen_specs(rng)
        specs[0][0] = rng.randint(3, 6)
        cases.append({"specs": specs, "ops": overlap_history(rng, specs), "stream": "overlap-join"})
    for i in range(60 if quick else 500):
        specs = gen_specs(rng)
        cases.append({"specs": specs, "ops": bonded_history(rng, specs, rng.randint(2, 8)), "stream": "bonded-topology",
                      "bonded": True})
    for i in range(40 if quick else 450):
        specs = gen_specs(rng)
        specs[0][0] = rng.randint(3, 6)
        specs[0][2] = True if rng.random() < 0.9 else specs[0][2]
        bonded = rng.random() < 0.6
        cases.append({"specs": specs, "ops": imaging_history(rng, specs), "stream": "imaging", "bonded": bonded})
    for i in range(25 if quick else 300):
        specs = gen_specs(rng)
        cases.append({"specs": specs, "ops": observer_history(rng, specs, rng.randint(1, 6)), "stream": "observers-after-history",
                      "bonded": rng.random() < 0.5})
    for i in range(20 if quick else 200):
        specs = gen_specs(rng)
        cases.append({"specs": specs, "ops": assigned_time_history(rng, specs), "stream": "time-assigned-after-construction"})
    for L in ([1, 2] if quick else [1, 2, 3]):
        for ops in exhaustive_histories(L):
            cases.append({"specs": EXH_SPECS, "ops": ops, "stream": "exhaustive%d" % L})
    for i, c in enumerate(cases):
        c["seed"] = (ctx.seed * 31 + i) % 100003
    return cases


# ----------------------------------------------------------------------------- Coq side
# a 0-d integer ARRAY selects one row like an integer, but by advanced indexing: a copy even with copy=False, exactly as
# the one-element index list does
INT_KEYS = ("int", "npint", "npint32", "npuint", "tuple1")
LIST_KEYS = ("list", "array", "listnp", "array32", "tuplearr")


def coq_key(k):
    kind, v = k
    if kind in INT_KEYS:
        return "(KInt %s)" % cz(v)
    if kind == "slice":
        return "(KSlice %s %s %s)" % tuple(copt(x, cz) for x in v)
    if kind in LIST_KEYS:
        return "(KList %s)" % clist(v, cz)
    if kind == "range":
        return "(KList %s)" % clist(list(range(*v)), cz)
    if kind == "arr0d":
        return "(KList %s)" % clist([v], cz)
    return "(KMask %s)" % clist(v, cbool)


def coq_op(o):
    """an operation of the extended alphabet (coq/Traj/Extra.v: xop)"""
    n = o[0]
    if n == "restrict_atoms":
        return "XRestrictAtoms %s %s %s" % (cnat(o[1]), clist(o[2], cz), cbool(o[3]))
    if n == "image":      # ["image", r, "whole" | "image", inplace]
        return "XImage %s %s" % (cnat(o[1]), cbool(o[3]))
    if n == "smooth":
        return "XSmooth %s %s" % (cnat(o[1]), cbool(o[2]))
    if n == "observe":
        return "XObserve %s" % cnat(o[1])
    return "XBase (%s)" % coq_base_op(o)


def coq_base_op(o):
    n = o[0]
    if n == "slice":
        return "OSlice %s %s %s" % (cnat(o[1]), coq_key(o[2]), cbool(o[3]))
    if n == "join":      # ["join", r, [others], check_topology, "plus" | "method" | None, discard_overlapping_frames]
        return "OJoin %s %s %s %s" % (cnat(o[1]), clist(o[2], cnat), cbool(o[3]), cbool(len(o) > 5 and o[5]))
    if n == "mdjoin":    # ["mdjoin", [registers], discard_overlapping_frames]
        return "OMdJoin %s %s" % (clist(o[1], cnat), cbool(len(o) > 2 and o[2]))
    if n == "stack":
        return "OStack %s %s" % (cnat(o[1]), cnat(o[2]))
    if n == "atom_slice":
        return "OAtomSlice %s %s %s" % (cnat(o[1]), clist(o[2], cz), cbool(o[3]))
    if n == "remove_solvent":
        return "ORemoveSolvent %s %s" % (cnat(o[1]), cbool(o[2]))
    if n == "center":
        return "OCenter %s %s" % (cnat(o[1]), cbool(o[2]))
    if n == "superpose":
        return "OSuperpose %s %s %s" % (cnat(o[1]), cnat(o[2]), cz(o[3]))
    if n == "set_xyz_new":
        return "OSetXyzNew %s %s %s" % (cnat(o[1]), cnat(o[2]), cnat(o[3]))
    if n == "set_xyz_share":
        return "OSetXyzShare %s %s" % (cnat(o[1]), cnat(o[2]))
    if n == "set_time_new":
        return "OSetTimeNew %s %s" % (cnat(o[1]), cnat(o[2]))
    if n == "set_time_share":
        return "OSetTimeShare %s %s" % (cnat(o[1]), cnat(o[2]))
    if n in ("set_lengths", "set_angles"):
        c = {"set_lengths": "OSetLengths", "set_angles": "OSetAngles"}[n]
        return "%s %s %s" % (c, cnat(o[1]), copt(o[2], cnat))
    if n == "read_cell":
        return "OReadCell %s" % cnat(o[1])
    if n == "set_vectors":
        return "OSetVectors %s %s %s" % (cnat(o[1]), copt(o[2], cnat), cbool(len(o) > 3 and o[3]))
    raise ValueError(n)


def coq_case(c):
    specs = clist(["(%s, %s, %s, %s)" % (cnat(n), clist([clist(ch, cnat) for ch in chains]), cbool(cell), cbool(bool(et)))
                   for (n, chains, cell, et) in c["specs"]])
    return "(%s, %s)" % (specs, clist([coq_op(o) for o in c["ops"]]))


def coq_run_all(ctx, cases, shard=30, par=4):
    """vm_compute Encode.run_all on every case inside coqc; returns one integer list per case"""
    shards = [cases[i:i + shard] for i in range(0, len(cases), shard)]
    files = []
    for si, sh in enumerate(shards):
        lines = ["From Coq Require Import ZArith List Bool Uint63.", "Import ListNotations.",
                 "Require Import MD.Traj.Model MD.Traj.Extra MD.Traj.Encode.", "Open Scope nat_scope.",
                 "Definition cases : list (list spec * list xop) := ["]
        lines.append(";\n".join(coq_case(c) for c in sh))
        lines.append("].")
        lines.append("Set Printing Width 200000. Set Printing Depth 100000000.")
        lines.append("Eval vm_compute in (map (fun c => map Uint63.of_Z (run_all c)) cases).")
        p = os.path.join(ctx.tmp, "trajrun_%d.v" % si)
        with open(p, "w") as fh:
            fh.write("\n".join(lines) + "\n")
        files.append(p)
    outs = [None] * len(files)
    errors = []
    running = []
    todo = list(enumerate(files))

    def reap(i, pr):
        out = pr.communicate()[0]
        if pr.returncode != 0:
            errors.append(out[-3000:])
            return
        m = re.search(r"=\s*(\[.*\])\s*:\s*list \(list", out, re.S)
        if not m:
            errors.append("unparsed coqc output: " + out[-1500:])
            return
        txt = m.group(1).replace("%uint63", "").replace(";", ",")
        outs[i] = json.loads(txt)

    while todo or running:
        while todo and len(running) < par:
            i, p = todo.pop(0)
            pr = subprocess.Popen(["timeout", "1200", "coqc", "-Q", COQ, "MD", p], cwd=ctx.tmp, stdout=subprocess.PIPE,
                                  stderr=subprocess.STDOUT, text=True)
            running.append((i, pr))
        i, pr = running.pop(0)
        reap(i, pr)
    if errors:
        return None, errors
    flat = []
    for o in outs:
        flat.extend(o)
    return flat, []


# ----------------------------------------------------------------------------- decoder (mirror of Traj/Encode.v)
class Rd:
    def __init__(self, xs):
        self.xs, self.i = xs, 0

    def one(self):
        v = self.xs[self.i]
        self.i += 1
        return v

    def lst(self, f):
        return [f() for _ in range(self.one())]

    def nats(self):
        return self.lst(self.one)

    def fr(self):
        t = self.one()
        if t == 0:
            return ("Raw", self.one(), self.one(), self.one())
        if t == 1:
            idx = self.nats()
            return ("Sub", idx, self.fr())
        if t == 2:
            return ("Cen", self.fr())
        if t == 3:
            ks = self.nats()
            return ("CenM", ks, self.fr())
        if t == 4:
            x = self.fr()
            return ("Sup", x, self.fr())
        if t == 5:
            x = self.fr()
            return ("Stk", x, self.fr())
        raise ValueError("bad frame tag %r" % t)

    def val3(self):
        return (self.one(), self.one(), self.one())

    def arr(self, f):
        return {"buf": self.one(), "pos": self.nats(), "val": self.lst(f)}

    def oarr(self, f):
        return self.arr(f) if self.one() else None

    def traj(self):
        t = {"xb": self.one(), "xp": self.nats(), "na": self.one(), "tm": self.arr(self.val3), "ul": self.oarr(self.val3),
             "ua": self.oarr(self.val3), "tloc": self.one(), "chains": self.lst(self.nats), "tr": self.oarr(self.fr)}
        t["tdef"], t["cache_ok"], t["lengths_ok"] = self.one(), self.one(), self.one()
        return t

    def world(self):
        w = {"res": self.lst(self.one), "heap": self.lst(lambda: self.lst(self.fr)), "trajs": self.lst(self.traj)}
        n = self.one()
        sp = [self.one() for _ in range(n)]
        w["share"] = sorted([sp[i], sp[i + 1]] for i in range(0, n, 2))
        return w


def decode_all(xs):
    rd = Rd(xs)
    worlds = [rd.world()]
    for _ in range(NVAR - 1):
        tag = rd.one()
        if tag == 1:
            worlds.append(rd.world())
        elif tag == 2:                       # by construction the run of an earlier variant (Encode.run_all)
            worlds.append(worlds[rd.one()])
        else:
            worlds.append(None)
    plans = []
    while rd.i < len(xs):
        tag = rd.one()
        plans.append(rd.lst(rd.one) if tag == 1 else ("empty-operand" if tag == 2 else None))
    out = [w if w is not None else worlds[0] for w in worlds]
    out[0] = dict(out[0], plans=plans)
    return out


# ----------------------------------------------------------------------------- numeric meaning of the symbols
def kabsch(x, r):
    """x rigidly moved onto r: optimal proper rotation about the centroids, then r's centroid (float64)"""
    cx, cr = x.mean(0), r.mean(0)
    a, b = x - cx, r - cr
    u, s, vt = np.linalg.svd(a.T @ b)
    d = np.sign(np.linalg.det(u @ vt))
    rot = u @ np.diag([1.0, 1.0, d]) @ vt
    return a @ rot + cr


class Ev:
    def __init__(self, impl):
        self.src = impl["sources"]
        self.mass = impl["masses"]

    def fr(self, t):
        """-> (coords float64 (n,3), class, centroid_reliable, rigid)
        class 0: bit-exact copy of generated data; 1: centred (float rounding only); 2: superposed (the float32
        QCP rotation is compared loosely, the rigid-motion invariants tightly); 3: superposed with a rotation that
        the data determine badly or not at all (fewer than 3 atoms, collinear, or two nearly equal leading
        eigenvalues of the correlation problem): invariants only.
        rigid: the frame is ONE rigid image of generated data (a stack of separately superposed parts is not, so
        distances between its parts are not invariants)"""
        tag = t[0]
        if tag == "Raw":
            return np.array(self.src[str(t[1])]["xyz"][t[2]], dtype=np.float64).reshape(-1, 3), 0, True, True
        if tag == "Sub":
            x, c, cr, rg = self.fr(t[2])
            return x[t[1]], c, cr and c < 2, rg
        if tag == "Cen":
            x, c, cr, rg = self.fr(t[1])
            return x - x.mean(0), max(c, 1), True, rg
        if tag == "CenM":
            x, c, cr, rg = self.fr(t[2])
            m = np.array([self.mass[str(k)] for k in t[1]], dtype=np.float64)
            m = m / m.sum()
            return x - x.T.dot(m), max(c, 1), cr and c < 2, rg
        if tag == "Sup":
            x, c, cr, rg = self.fr(t[1])
            r, c2, cr2, rg2 = self.fr(t[2])
            cov = (x - x.mean(0)).T @ (r - r.mean(0))
            u, sv, vt = np.linalg.svd(cov)
            d = np.sign(np.linalg.det(u @ vt))
            degenerate = (x.shape[0] < 3 or sv[1] < 1e-3 * max(sv[0], 1e-9) or (sv[1] + d * sv[2]) < 0.05 * max(sv[0], 1e-9)
                          or c == 3 or c2 == 3)
            return kabsch(x, r), (3 if degenerate else 2), cr2, rg
        if tag == "Stk":
            x, c, cr, rg = self.fr(t[1])
            y, c2, cr2, rg2 = self.fr(t[2])
            loose = max(c, c2) >= 2
            return np.vstack((x, y)), max(c, c2), not loose, (rg and rg2 and not loose)
        raise ValueError(tag)

    def tval(self, v):
        return float(self.src[str(v[1])]["time"][v[2]]) if v[0] == 0 else float(v[1])

    def cval(self, v, which):
        """-> (row of three, exact?)"""
        if v[0] == 0:
            return self.src[str(v[1])][which][v[2]], True
        m = np.array(self.src[str(v[1])]["vec"][v[2]], dtype=np.float64)
        a, b, c = m
        la, lb, lc = (math.sqrt(float(u @ u)) for u in (a, b, c))
        if which == "len":
            return [la, lb, lc], False
        ang = [math.degrees(math.acos(float(b @ c) / (lb * lc))), math.degrees(math.acos(float(c @ a) / (lc * la))),
               math.degrees(math.acos(float(a @ b) / (la * lb)))]
        return ang, False


TOL = {0: 0.0, 1: 2e-3, 2: 0.15}
SUP_STATS = []
SUP_NOT_OPTIMAL = []      # superposed frames that are a correct rigid image but not the optimal one (C06's business)


def frame_mismatch(x, got, cls, centroid_ok, rigid=True):
    """None when the implementation's frame `got` is the frame the model's term denotes (x, float64)"""
    if x.shape != got.shape:
        return "atom count %s vs %s" % (x.shape, got.shape)
    if not x.size:
        return None
    if cls <= 1:
        err = float(np.abs(x - got).max())
        return None if err <= TOL[cls] else "max deviation %.4g > %g" % (err, TOL[cls])
    if rigid:
        dx = np.sqrt(((x[:, None, :] - x[None, :, :]) ** 2).sum(-1))
        dg = np.sqrt(((got[:, None, :] - got[None, :, :]) ** 2).sum(-1))
        if np.abs(dx - dg).max() > 5e-3:
            return "interatomic distances differ by %.4g" % float(np.abs(dx - dg).max())
    if centroid_ok and np.abs(x.mean(0) - got.mean(0)).max() > 5e-3:
        return "centroid differs by %.4g" % float(np.abs(x.mean(0) - got.mean(0)).max())
    if cls == 2:
        err = float(np.abs(x - got).max())
        SUP_STATS.append(err)
        if err > TOL[2]:
            if rigid and centroid_ok:
                # interatomic distances and centroid are right: mdtraj produced a rigid image of the right frame at the
                # right place, only not the optimal rotation.  That is a defect of the superposition kernel (property
                # C06), not of the bookkeeping modelled here: counted, not treated as a mismatch.
                SUP_NOT_OPTIMAL.append(err)
                return None
            return "superposed coordinates deviate by %.4g > %g" % (err, TOL[2])
    return None


def compare(model, impl):
    """discrepancies between one model world and the implementation's dump ([] = agree)"""
    d = []
    ev = Ev(impl)
    want_steps = [ERR.get(r, "?") for r in model["res"]]
    got_steps = [s if not s.startswith("Other:") else s for s in impl["steps"]]
    if want_steps != got_steps:
        d.append("step results: model %s impl %s" % (want_steps, got_steps))
        return d
    if len(model["trajs"]) != len(impl["regs"]):
        d.append("register count: model %d impl %d" % (len(model["trajs"]), len(impl["regs"])))
        return d
    for i, (mt, it) in enumerate(zip(model["trajs"], impl["regs"])):
        pre = "reg %d: " % i
        heap = model["heap"][mt["xb"]]
        frames = [heap[p] for p in mt["xp"]]
        if it["shape"][0] != len(frames) or it["shape"][1] != mt["na"]:
            d.append(pre + "xyz shape model (%d,%d) impl %s" % (len(frames), mt["na"], it["shape"]))
            continue
        for f, term in enumerate(frames):
            x, cls, cok, rigid = ev.fr(term)
            got = np.array(it["xyz"][f], dtype=np.float64).reshape(-1, 3)
            why = frame_mismatch(x, got, cls, cok, rigid)
            if why:
                d.append(pre + "frame %d is not %s: %s" % (f, term, why))
                break
        tv = [ev.tval(v) for v in mt["tm"]["val"]]
        if tv != it["time"]:
            d.append(pre + "time model %s impl %s" % (tv, it["time"]))
        for fld, which in (("ul", "len"), ("ua", "ang")):
            ma, ia = mt[fld], it[which]
            if (ma is None) != (ia is None):
                d.append(pre + "%s presence model %s impl %s" % (which, ma is not None, ia is not None))
                continue
            if ma is None:
                continue
            if len(ma["val"]) != len(ia):
                d.append(pre + "%s length model %d impl %d" % (which, len(ma["val"]), len(ia)))
                continue
            for f, v in enumerate(ma["val"]):
                row, exact = ev.cval(v, which)
                bad = (list(row) != list(ia[f])) if exact else (np.abs(np.array(row) - np.array(ia[f])).max() > 2e-3)
                if bad:
                    d.append(pre + "%s row %d model %s impl %s" % (which, f, row, ia[f]))
                    break
        if mt["chains"] != it["chains"]:
            d.append(pre + "topology chains model %s impl %s" % (mt["chains"], it["chains"]))
        if bool(mt["tdef"]) != it["tdef"]:
            d.append(pre + "_time_default_to_arange model %s impl %s" % (bool(mt["tdef"]), it["tdef"]))
        mtr, itr = mt["tr"], it["traces"]
        if (mtr is None) != (itr is None):
            d.append(pre + "_rmsd_traces presence model %s impl %s" % (mtr is not None, itr is not None))
        elif mtr is not None:
            if it["traces_ndim"] != 1 or len(mtr["val"]) != len(itr):
                d.append(pre + "_rmsd_traces length model %d impl %d (ndim %s)" % (len(mtr["val"]), len(itr), it["traces_ndim"]))
            else:
                for f, term in enumerate(mtr["val"]):
                    x, cls, _cok, _rg = ev.fr(term)
                    g = float((x ** 2).sum())
                    if abs(g - itr[f]) > (1e-3 if cls < 2 else 3e-2) * (1.0 + abs(g)):
                        d.append(pre + "_rmsd_traces[%d] is not the trace of %s (model %.6g impl %.6g)" % (f, term, g, itr[f]))
                        break
        if mt["cache_ok"] and it["cache"] not in ("none", "ok"):
            d.append(pre + "model says the cache is consistent, coordinates say %s" % it["cache"])
    if model["share"] != sorted(impl["share"]):
        a, b = {tuple(x) for x in model["share"]}, {tuple(x) for x in impl["share"]}
        d.append("shares_memory pairs (5*reg+field): only model %s, only impl %s" % (sorted(a - b), sorted(b - a)))
    tl = [t["tloc"] for t in model["trajs"]]
    mtop = [[i, j] for i in range(len(tl)) for j in range(i + 1, len(tl)) if tl[i] == tl[j]]
    if mtop != impl["same_top"]:
        d.append("topology identity pairs model %s impl %s" % (mtop, impl["same_top"]))
    return d


# ----------------------------------------------------------------------------- run + verdict
def nontrivial(c, impl):
    ok = [o[0] for o, s in zip(c["ops"], impl["steps"]) if s == "ok"]
    return len(ok) >= 2 and len(set(ok)) >= 2


def explain_stale(worlds, reg, case):
    """which recorded defect (model variant) predicts a stale cache for this register"""
    def stale(vi):
        ts = worlds[vi]["trajs"]
        return reg < len(ts) and not ts[reg]["cache_ok"]
    if stale(0):
        return "inplace_write_through_shared_xyz_buffer"
    if stale(8) and not any(stale(i) for i in (1, 2, 3)):
        return "imaging_keeps_traces"
    if stale(1) and not stale(2):
        return "slice_traces_unindexed"
    if stale(2) and not stale(1):
        return "atom_slice_inplace_keeps_traces"
    if stale(3):
        return "slice_traces_unindexed+atom_slice_inplace_keeps_traces"
    return None


def run_cases(ctx, cases, replaying=False):
    B = 150
    impl = []
    for i in range(0, len(cases), B):
        res = ctx.run_impl("traj_impl.py", {"cases": [{"seed": c["seed"], "specs": c["specs"], "ops": c["ops"],
                                                        "bonded": bool(c.get("bonded"))} for c in cases[i:i + B]]})
        impl.extend(res["cases"])
    enc, errs = coq_run_all(ctx, cases)
    if errs:
        ctx.break_("correspondence:coqc-evaluation", "\n".join(errs))
        return
    worlds = [decode_all(x) for x in enc]
    # 1. the tie: one model variant reproduces the implementation on ALL cases
    def safe_compare(m, im):
        try:
            return compare(m, im)
        except (KeyError, IndexError, ValueError) as e:      # the model refers to data the run never produced
            return ["model output cannot be evaluated against the run: %s: %s" % (type(e).__name__, e)]
    diffs = [[safe_compare(w[v], im) for v in range(NVAR)] for w, im in zip(worlds, impl)]
    # overlap decisions of join(discard_overlapping_frames=True): the model compares symbolic frames, the code numbers.
    # Where the two disagree (numerically equal frames with different terms, or a margin inside the guard band) the
    # case cannot be expressed by the model: it is taken out of the tie (the model-free join oracle still applies).
    excluded = 0
    for ci, (w, im) in enumerate(zip(worlds, impl)):
        plans = w[0].get("plans") or []
        for d in im.get("overlap", []):
            mp = plans[d["step"]] if d["step"] < len(plans) else None
            if not isinstance(mp, list):
                continue
            num = [bool(x) for x in d["trim"]]
            ambiguous = any(1e-4 <= m <= 5e-2 for m in d["margin"])
            if ambiguous or [bool(x) for x in mp] != num:
                diffs[ci] = [[] for _ in range(NVAR)]
                excluded += 1
                break
    ctx.notes.setdefault("coverage_extra", {})["excluded_overlap_decision_not_expressible_by_terms"] = \
        ctx.notes.get("coverage_extra", {}).get("excluded_overlap_decision_not_expressible_by_terms", 0) + excluded
    agree = None
    for v in range(NVAR):
        if all(not d[v] for d in diffs):
            agree = v
            break
    ctx.notes.setdefault("coverage_extra", {})["model_variant_matching_impl"] = VNAME.get(agree)
    if agree is None:
        best = min(range(NVAR), key=lambda v: sum(bool(d[v]) for d in diffs))
        bad = [i for i, d in enumerate(diffs) if d[best]]
        bad.sort(key=lambda i: len(cases[i]["ops"]))
        i = bad[0]
        ctx.break_("correspondence:trajectory-model",
                   "no model variant reproduces the implementation on all cases (closest: %s, %d/%d cases differ); e.g. "
                   "specs=%s ops=%s -> %s" % (VNAME[best], len(bad), len(cases), cases[i]["specs"], cases[i]["ops"], diffs[i][best][:3]))
        ctx.notes.setdefault("tie_examples", []).append({"case": cases[i], "diff": diffs[i][best][:5]})
        for j in bad[1:6]:
            ctx.log("  also differs:", cases[j]["ops"], "->", diffs[j][best][:2])
        agree = best
    sv = ctx.notes.get("source_variant")
    if sv is not None and not replaying and any(d[sv] for d in diffs) and not ctx.broken:
        i = min((i for i, d in enumerate(diffs) if d[sv]), key=lambda i: len(cases[i]["ops"]))
        ctx.break_("tie:source-flow-vs-behaviour",
                   "trajectory.py reads as variant '%s' but the implementation behaves like '%s'; e.g. ops=%s -> %s" % (
                       VNAME[sv], VNAME[agree], cases[i]["ops"], diffs[i][sv][:2]))
    ctx.notes.setdefault("coverage_extra", {})["source_text_variant"] = VNAME.get(sv)
    ctx.notes["coverage_extra"]["superposed_frames_compared"] = len(SUP_STATS)
    ctx.notes["coverage_extra"]["superposed_frames_rigid_but_not_optimal(C06, not counted as mismatch)"] = len(SUP_NOT_OPTIMAL)
    # input distribution of the axes added by the deepening round (printed into the evidence)
    ce = ctx.notes.setdefault("coverage_extra", {})
    kk = ce.setdefault("getitem_key_spellings", {})
    oc = ce.setdefault("observer_calls_inside_histories", {"calls": 0, "raised(not counted as changes)": 0, "distinct_observers": []})
    l2 = ce.setdefault("second_layer_ops_succeeded", {})
    for c, im in zip(cases, impl):
        for o, st in zip(c["ops"], im["steps"]):
            if o[0] == "slice":
                kk[o[2][0]] = kk.get(o[2][0], 0) + 1
            if st == "ok" and o[0] in ("restrict_atoms", "image", "smooth"):
                nm = o[0] + ("(inplace)" if o[-1] else "(copy)")
                l2[nm] = l2.get(nm, 0) + 1
        for _si, nm, st in im.get("observed", []):
            oc["calls"] += 1
            oc["raised(not counted as changes)"] += st != "ok"
            if nm not in oc["distinct_observers"]:
                oc["distinct_observers"].append(nm)
    # 2. the property, judged by the model-free oracles on the implementation
    for ci, (c, im, w) in enumerate(zip(cases, impl, worlds)):
        case = {"seed": c["seed"], "specs": c["specs"], "ops": c["ops"]}
        if c.get("bonded"):
            case["bonded"] = True
        ctx.count(case, nontrivial=nontrivial(c, im), bucket=c.get("stream", "replay"))
        for p in im["prop"]:
            op = c["ops"][p["step"]]
            ctx.fail("%s: %s%s" % (op[0], p["kind"], (" (" + p["field"] + ")") if "field" in p else ""), case,
                     observed=p, expected="numpy indexing/concatenation of the inputs; fresh arrays",
                     tags={"kind": p["kind"], "op": op[0], "explained_by": None, "observer": p.get("observer")})
        for ri, reg in enumerate(im["regs"]):
            stale = reg["cache"] not in ("none", "ok")
            differs = isinstance(reg["rmsd_diff"], float) and reg["rmsd_diff"] > 0.02
            oddity = isinstance(reg["rmsd_diff"], str)
            if not (stale or differs or oddity):
                continue
            why = explain_stale(w, ri, c)
            if diffs[ci][agree]:
                why = None
            ctx.fail("stale _rmsd_traces: cache disagrees with the coordinates (explained by %s)" % why, case,
                     observed={"register": ri, "cache": reg["cache"], "max|rmsd(precentered)-rmsd(scratch)|": reg["rmsd_diff"]},
                     expected="cache absent, or one trace per frame equal to the squared norm of the centred frame",
                     tags={"kind": "stale-cache", "explained_by": why})
    if diffs and agree is not None and not ctx.broken:
        ctx.log("model variant matching the implementation:", VNAME[agree])
    return impl, worlds, diffs


def observers(ctx):
    res = ctx.run_impl("traj_impl.py", {"cases": [], "observers": True})["observers"]
    changed = sorted(k for k, v in res.items() if not v["unchanged"])
    raised = sorted(k for k, v in res.items() if v["status"] != "ok")
    ctx.notes.setdefault("coverage_extra", {})["observer_calls_hashed"] = {
        "calls": len(res), "left_input_bit_identical": len(res) - len(changed), "raised(not counted as changes)": raised}
    for k in changed:
        ctx.fail("%s modified its input trajectory" % k, {"observer": k}, observed=res[k],
                 expected="arrays and topology dump hash identically before and after",
                 tags={"kind": "observer-modifies-input", "call": k, "observer": k.split(" [")[0], "explained_by": None})
    for k in res:
        ctx.count({"observer": k}, nontrivial=True, bucket="observer")


def correspond(ctx):
    cases = build_cases(ctx)
    ctx.log("cases:", len(cases))
    run_cases(ctx, cases)
    observers(ctx)


def search(ctx, broken):
    # the model-free oracles already ran on every case of the correspondence stage; widen the random stream once
    rng = ctx.rng
    cases = []
    for i in range(150):
        specs = gen_specs(rng)
        cases.append({"specs": specs, "ops": gen_history(rng, specs, rng.randint(2, 10)), "stream": "search",
                      "seed": (ctx.seed * 17 + i) % 100003})
    B = 150
    res = ctx.run_impl("traj_impl.py", {"cases": [{"seed": c["seed"], "specs": c["specs"], "ops": c["ops"]} for c in cases[:B]]})
    for c, im in zip(cases, res["cases"]):
        case = {"seed": c["seed"], "specs": c["specs"], "ops": c["ops"]}
        for p in im["prop"]:
            ctx.fail("%s: %s" % (c["ops"][p["step"]][0], p["kind"]), case, observed=p, stage="search",
                     tags={"kind": p["kind"], "op": c["ops"][p["step"]][0], "explained_by": None})


def replay(ctx, rec):
    c = rec["case"]
    if "observer" in c:
        observers(ctx)
        return
    c = dict(c)
    c.setdefault("stream", "replay")
    run_cases(ctx, [c], replaying=True)
