"""C13 - solvent-accessible areas are correct, additive and selection-independent.

Model  : coq/Sasa/Model.v (exact integer model of sasa.cpp:asa_frame/sasa and sasa.py:shrake_rupley, sphere
         points an argument), coq/Gen/SasaTables.v (the _ATOMIC_RADII table regenerated from sasa.py on every run).
Theorems: coq/Props/C13.v.
Tie    : every generated call is run through md.shrake_rupley (public API, OMP_NUM_THREADS=1 and 16) and through
         the Gallina model inside coqc, with the sphere points taken from a shim that includes the repository's
         sasa.cpp.  The float32 areas are turned into integer intervals (relative width EPS, widened by the
         number of sphere points that lie within GUARD nm of a neighbour's surface); for <= 960 points the
         interval pins the per-atom count exactly.  The model is evaluated in two stages (stage 1: guards, radii and
         every frame's buffer, once per system; stage 2: mapping/-1 overlay/group sums per mode) - Props/C13.v
         shrake_rupley_two_stage_evaluation proves this is shrake_rupley on the repaired kernel.  Whether today's kernel
         (buffer carried across a thread's frames) explains a multi-frame result is decided by inverting the carry on the
         implementation's own previous-frame output and comparing the residual counts with the same model.
Search : an independent float64 evaluation on the same point set, plus the relations of the property stated
         directly on the implementation (isolated atom, analytic two-sphere cap, residue = sum of atoms,
         subset independence, frame alone = frame in company).
"""
import ast
import decimal
import math
import os
import re
import subprocess

import numpy as np

import common
from common import cz, cnat, clist, cstr, copt

LEVEL = "proof"
THEOREMS = "Props/C13.v"
EXTRA_TARGETS = ("Gen/SasaTables.vo", "Gen/SasaSpiral.vo")
EXTS = ["_geometry"]
RULE = ("calls of md.shrake_rupley on generated systems (isolated atoms, overlapping pairs incl. the y axis, random "
        "clusters, chain fragments; 1..60 atoms on a 2^-20 nm grid, 1..5 frames) x n_sphere_points in {1,7,60,96,960} "
        "x probe in [0,0.3] x change_radii x mode in {atom,residue} x atom_indices subsets x OMP_NUM_THREADS in {1,16}; "
        "a case is non-trivial when at least one selected atom has a neighbour and at least one accessible point; "
        "distinct by hash of the whole call; plus two-equal-sphere calls whose cap threshold sits a quarter band from an ideal "
        "spiral y (+-y) or anywhere (+-x, +-z, random direction), n_sphere_points in {7,60,96,960}, compared with the exact "
        "buried-point count on a float64 golden spiral; plus the argument forms of sasa.py (atom_indices as list/ndarray/"
        "numpy ints/duplicates/reversed/tuple/negative/boolean, invalid mode strings, get_mapping, float n_sphere_points)")
TRUSTED = ["harness/shims/sasa_points.cpp (prints the float32 sphere points of the repository's generate_sphere_points)",
           "harness/impl/sasa_impl.py (builds Topology/Trajectory, calls md.shrake_rupley)",
           "harness/props/C13.py: generator, conversion of float32 areas to integer intervals, guard band, the inversion "
           "of the carry-over that decides whether the as-found kernel explains a multi-frame result",
           "translator of _ATOMIC_RADII (Python ast) into coq/Gen/SasaTables.v",
           "harness/props/C13.py ideal_spiral (float64 golden spiral used as the documented point set in the API checks) and the "
           "tolerances SPIRAL_TOL of the integer spiral specification; the constants turnC/turnS of MD.Sasa.Spiral (float64 cos/sin)"]
ASSUMPTIONS = ["float32 rounding inside asa_frame is not modelled: sphere points within 1e-5 nm of a neighbour's surface are "
               "excluded from exact comparison (counted in the evidence); areas are compared under relative bound 2e-5",
               "coordinates lie on a 2^-20 nm grid with |x| < 4 nm; sphere points and radii are rounded to 2^-20 (relative) "
               "and 2^-20*1e-3 nm before entering the integer model",
               "atoms are not coincident (minimum distance 0.02 nm); atom_indices are non-negative",
               "interleaved topologies are built with add_atom in index order, so Topology.atoms walks them in stable order by residue",
               "K (the C constant 4*pi/n_sphere_points) is an integer argument of the model; the runs use K = 1 and divide "
               "the implementation's areas by the float64 constant"]

GRID = 20
KU = 1000                      # the model's length unit U is 2^-GRID / KU nm
UNM = KU * 2 ** GRID            # U per nm
M = 2 ** 20                     # sphere point scale
GUARD = 1e-5                    # nm, the property's own exclusion band
EPS = 2e-5                      # relative bound on float32 areas (3 roundings per atom + <=60 float32 additions)
TINY2 = int(1e-10 * UNM * UNM)  # "r2 < 1e-10f"
NSP = [1, 7, 60, 96, 960]
COMMON = ["H", "C", "N", "O", "S", "P"]


# ------------------------------------------------------------------------------------------ translator
def read_table(repo=None):
    """_ATOMIC_RADII of sasa.py as {symbol: Decimal}, from the source text (exact decimals)."""
    path = os.path.join(repo or common.REPO, "mdtraj/geometry/sasa.py")
    with open(path) as fh:
        src = fh.read()
    tree = ast.parse(src)
    for node in tree.body:
        if isinstance(node, ast.Assign) and len(node.targets) == 1 and getattr(node.targets[0], "id", None) == "_ATOMIC_RADII":
            if not isinstance(node.value, ast.Dict):
                raise ValueError("_ATOMIC_RADII is not a dict literal")
            tbl = {}
            for k, v in zip(node.value.keys, node.value.values):
                if not (isinstance(k, ast.Constant) and isinstance(k.value, str)):
                    raise ValueError("non-literal key in _ATOMIC_RADII")
                if not (isinstance(v, ast.Constant) and isinstance(v.value, (int, float))):
                    raise ValueError("non-literal value for %s" % k.value)
                tbl[k.value] = decimal.Decimal(ast.get_source_segment(src, v))
            return tbl
    raise ValueError("_ATOMIC_RADII not found")


def table_units(tbl):
    return {k: int((v * UNM).to_integral_value(rounding=decimal.ROUND_HALF_EVEN)) for k, v in tbl.items()}


def gen_tables_text(tbl):
    tu = table_units(tbl)
    rows = ";\n  ".join("(%s, %s)" % (cstr(k), cz(v)) for k, v in tu.items())
    return ("(* GENERATED on every run by harness/props/C13.py from mdtraj/geometry/sasa.py:_ATOMIC_RADII.\n"
            "   Radii in the model's length unit U = 2^-20 * 1e-3 nm (exact for decimals with <= 3 places). *)\n"
            "From Coq Require Import String.\nFrom Coq Require Import List ZArith Bool.\nImport ListNotations.\n"
            "Require Import MD.Sasa.Model MD.Sasa.Proofs.\nOpen Scope Z_scope.\n\n"
            "Definition units_per_nm : Z := %d.\n"
            "Definition atomic_radii_U : list (string * Z) := [\n  %s\n].\n\n"
            "(* per-run obligation: every radius is positive and no symbol is listed twice *)\n"
            "Lemma atomic_radii_wf : table_wf atomic_radii_U = true.\nProof. vm_compute. reflexivity. Qed.\n"
            % (UNM, rows))


_TABLE = {}


def get_table():
    if "t" not in _TABLE:
        _TABLE["t"] = read_table()
    return _TABLE["t"]


def translate(ctx):
    tbl = read_table()
    _TABLE["t"] = tbl
    ctx.write_gen("Gen/SasaTables.v", gen_tables_text(tbl))
    ctx.notes.setdefault("coverage_extra", {})["radii_table_entries"] = len(tbl)
    # the point sets the repository's generate_sphere_points produces (shim) against the golden-spiral specification
    pts = sphere_points(ctx)
    ctx.write_gen("Gen/SasaSpiral.v", gen_spiral_text(pts))
    ctx.notes["coverage_extra"]["sphere_point_sets_checked_against_spiral_spec"] = sorted(pts)


# ------------------------------------------------------------------------------------------ shim
def sphere_points(ctx):
    """{n: (float64 array [n,3] of the float32 points, integer triples in the unit 1/M)} from the repository's code."""
    if hasattr(ctx, "_c13_pts"):
        return ctx._c13_pts
    repo = common.REPO
    exe = os.path.join(ctx.tmp, "sasa_points")
    cmd = ["g++", "-O3", "-funroll-loops", "--std=c++11", "-fopenmp", "-msse2", "-mssse3", "-w",
           "-I" + os.path.join(repo, "mdtraj/geometry/include"), "-I" + os.path.join(repo, "mdtraj/geometry/src"),
           "-I" + os.path.join(repo, "mdtraj/geometry/src/kernels"),
           os.path.join(common.VERIF, "harness/shims/sasa_points.cpp"), "-o", exe]
    r = subprocess.run(cmd, stdout=subprocess.PIPE, stderr=subprocess.STDOUT, text=True, timeout=300)
    if r.returncode != 0:
        raise RuntimeError("shim build failed: " + r.stdout[-2000:])
    r = subprocess.run([exe] + [str(n) for n in NSP], stdout=subprocess.PIPE, text=True, timeout=60, check=True)
    pts = {}
    for line in r.stdout.splitlines():
        f = line.split()
        n = int(f[0])
        bits = np.array([int(x) for x in f[1:]], dtype=np.uint32)
        p32 = bits.view(np.float32).reshape(n, 3)
        p64 = p32.astype(np.float64)
        pint = [[int(round(float(v) * M)) for v in row] for row in p64]
        pts[n] = (p64, pint)
    ctx._c13_pts = pts
    over = {n: int((np.sum(pts[n][0] ** 2, axis=1) > 1.0).sum()) for n in pts}
    ctx.notes.setdefault("coverage_extra", {})["sphere_points_with_norm_above_1"] = over
    return pts


# ------------------------------------------------------------------------------------------ generator
def _grid(v):
    return int(round(v * 2 ** GRID))


def _rand_dir(rng):
    while True:
        v = [rng.uniform(-1, 1) for _ in range(3)]
        n = math.sqrt(sum(x * x for x in v))
        if 0.1 < n <= 1:
            return [x / n for x in v]


def gen_positions(rng, kind, n):
    """n positions (nm, floats) with pairwise distance >= 0.02."""
    pos = []
    if kind == "isolated":
        for i in range(n):
            pos.append([-3.5 + 1.3 * (i % 6) + rng.uniform(-0.05, 0.05), -3.5 + 1.3 * ((i // 6) % 6) + rng.uniform(-0.05, 0.05),
                        -3.0 + 1.3 * (i // 36) + rng.uniform(-0.05, 0.05)])
        return pos
    if kind in ("pair", "pair_y"):
        c = [rng.uniform(-2, 2) for _ in range(3)]
        d = rng.uniform(0.05, 0.7)
        u = [0.0, 1.0, 0.0] if kind == "pair_y" else _rand_dir(rng)
        if kind == "pair_y" and rng.random() < 0.5:
            u = [0.0, -1.0, 0.0]
        return [c, [c[k] + d * u[k] for k in range(3)]]
    c = [rng.uniform(-2, 2) for _ in range(3)]
    step = 0.15 if kind == "chain" else None
    spread = 0.12 * n ** (1 / 3.0) + 0.1
    tries = 0
    while len(pos) < n and tries < 20000:
        tries += 1
        if kind == "chain" and pos:
            b = pos[rng.randrange(max(0, len(pos) - 3), len(pos))]
            u = _rand_dir(rng)
            p = [b[k] + step * u[k] * rng.uniform(0.7, 1.1) for k in range(3)]
        else:
            p = [c[k] + rng.gauss(0, spread) for k in range(3)]
        if all(sum((p[k] - q[k]) ** 2 for k in range(3)) >= 0.05 ** 2 for q in pos) and all(abs(x) < 3.9 for x in p):
            pos.append(p)
    return pos


def gen_system(rng, size_cap):
    kind = rng.choice(["isolated", "pair", "pair_y", "cluster", "cluster", "chain", "chain"])
    if kind == "isolated":
        n = rng.randint(1, min(6, size_cap))
    elif kind in ("pair", "pair_y"):
        n = 2
    else:
        u = rng.random()
        n = rng.randint(2, 8) if u < 0.6 else rng.randint(9, 20) if u < 0.9 else rng.randint(21, max(21, size_cap))
        n = min(n, size_cap)
    pos = gen_positions(rng, kind, n)
    n = len(pos)
    tbl = get_table()
    syms = sorted(s for s in tbl if s in SYMBOLS) or COMMON
    elems = [rng.choice(COMMON) if rng.random() < 0.85 else rng.choice(syms) for _ in range(n)]
    # residues: consecutive blocks of atoms, every residue gets at least one atom.  (Topology.atoms iterates
    # chain by chain and residue by residue, which is index order only when residues are contiguous; interleaved
    # topologies are outside what shrake_rupley - and most of mdtraj - supports, so they are not generated.)
    nres = rng.randint(1, max(1, min(n, 1 + n // 3)))
    resid = sorted(list(range(nres)) + [rng.randrange(nres) for _ in range(n - nres)])
    single = n >= 2 and rng.random() < 0.06
    if single:
        # one-atom residues (ions, coarse-grained beads) stored in an order different from the residue order: in residue
        # mode n_groups == n_atoms although the atom -> group mapping is a non-identity permutation; sometimes mixed
        # with one multi-atom residue
        if n >= 4 and rng.random() < 0.35:
            nres = n - 1
            resid = list(range(nres)) + [rng.randrange(nres)]
        else:
            nres = n
            resid = list(range(n))
        while resid == sorted(resid):
            rng.shuffle(resid)
    interleaved = (not single) and n >= 3 and nres >= 2 and rng.random() < 0.07
    if interleaved:
        # residues NOT contiguous in index order: Topology.atoms (chain -> residue -> atom) then walks the atoms in an
        # order different from atom.index.  One frame only, so that the frame-carry variant does not interfere.
        rng.shuffle(resid)
        if resid == sorted(resid):
            resid[0], resid[-1] = resid[-1], resid[0]
    nfr = 1 if interleaved else rng.choice([1, 2, 3]) if single else rng.choice([1, 1, 2, 3, 5])
    frames = []
    for f in range(nfr):
        amp = 0.0 if f == 0 else rng.choice([0.002, 0.02, 0.06])
        fr = [[_grid(p[k] + rng.uniform(-amp, amp)) for k in range(3)] for p in pos]
        frames.append(fr)
    return {"kind": kind + ("-one-atom-residues" if single else "-interleaved" if interleaved and resid != sorted(resid) else ""),
            "elems": elems, "resid": resid,
            "nres": nres, "xyz": frames, "grid": GRID}


def min_dist_ok(frames):
    for fr in frames:
        x = np.array(fr, dtype=np.float64) / 2 ** GRID
        if len(x) > 1:
            d = np.sqrt(((x[:, None, :] - x[None, :, :]) ** 2).sum(-1)) + np.eye(len(x))
            if d.min() < 0.02:
                return False
    return True


SYMBOLS = set()


def gen_calls(ctx):
    """A list of groups; a group is one system + parameters, run in atom and residue mode."""
    rng = ctx.rng
    SYMBOLS.update(ctx.run_impl("sasa_impl.py", {"cases": []})["symbols"])
    quick = ctx.tier == "quick"
    nsys = 300 if quick else 4000
    budget = 170.0 if quick else 3000.0          # estimated seconds of vm_compute (spread over 4 processes)
    pts = sphere_points(ctx)
    groups = []
    skipped = 0
    for s in range(nsys):
        nsp = rng.choice(NSP)
        cap = {1: 60, 7: 60, 60: 40, 96: 30, 960: 10}[nsp]
        if s % 25 == 7:
            nsp, cap = 960, 40
        if s % 25 == 13:
            cap = 60
        sysd = gen_system(rng, cap)
        if not min_dist_ok(sysd["xyz"]):
            continue
        n = len(sysd["elems"])
        probe = rng.choice([0.0, 0.14, 0.14, 0.3, round(rng.uniform(0, 0.3), 3), rng.uniform(0, 0.3)])
        change = None
        if rng.random() < 0.3:
            ks = rng.sample(sorted(set(sysd["elems"])), 1) + ([rng.choice(sorted(get_table()))] if rng.random() < 0.3 else [])
            ks = sorted(set(ks))
            change = {k: round(rng.uniform(0.05, 0.3), 3) for k in ks}
        sel = None
        r = rng.random()
        if r < 0.45:
            sel = sorted(rng.sample(range(n), rng.randint(0 if r < 0.05 else 1, n)))
            if rng.random() < 0.3:
                rng.shuffle(sel)
        g = dict(sysd)
        g.update(probe=probe, nsp=nsp, change=change, sel=sel)
        cost = est_cost(g, analyse(g, pts[nsp][0]))
        if cost > budget or (quick and cost > 12.0):
            skipped += 1
            if budget < 2.0:
                break
            continue
        budget -= cost
        groups.append(g)
    ctx.notes.setdefault("coverage_extra", {})["generated_systems_skipped_for_model_evaluation_budget"] = skipped
    # fixed probes first: the historical witness of the carry-over (two frames, one thread) and the documented cases
    groups.insert(0, {"kind": "witness", "elems": ["C", "O"], "resid": [0, 0], "nres": 1, "grid": GRID,
                      "xyz": [[[0, 0, 0], [_grid(0.25), 0, 0]], [[0, 0, 0], [_grid(0.30), 0, 0]]],
                      "probe": 0.14, "nsp": 96, "change": None, "sel": None})
    groups.insert(1, {"kind": "isolated", "elems": ["C"], "resid": [0], "nres": 1, "grid": GRID, "xyz": [[[0, 0, 0]]],
                      "probe": 0.14, "nsp": 960, "change": None, "sel": None})
    # error classes and corner cases of sasa.py (cheap for the model: no geometry is evaluated on the error paths)
    far = [[[0, 0, 0], [_grid(0.2), 0, 0], [_grid(0.4), 0, 0], [0, _grid(0.25), 0]]]
    groups.append({"kind": "err-key", "elems": ["C", "VS", "O", "N"], "resid": [0, 0, 1, 1], "nres": 2, "grid": GRID, "xyz": far,
                   "probe": 0.14, "nsp": 7, "change": None, "sel": None})
    groups.append({"kind": "err-value", "elems": ["C", "H", "O", "N"], "resid": [0, 0, 2, 2], "nres": 3, "grid": GRID, "xyz": far,
                   "probe": 0.14, "nsp": 7, "change": None, "sel": None})
    groups.append({"kind": "err-index", "elems": ["C", "H", "O", "N"], "resid": [0, 0, 1, 1], "nres": 2, "grid": GRID, "xyz": far,
                   "probe": 0.14, "nsp": 7, "change": None, "sel": [1, 6]})
    groups.append({"kind": "empty-last-residue", "elems": ["C", "H", "O", "N"], "resid": [0, 0, 1, 1], "nres": 3, "grid": GRID,
                   "xyz": far, "probe": 0.05, "nsp": 7, "change": {"Fe": 0.1}, "sel": [3, 0]})
    for sym in sorted(SYMBOLS - set(get_table())):
        groups.append({"kind": "missing-radius", "elems": [sym], "resid": [0], "nres": 1, "grid": GRID, "xyz": [[[0, 0, 0]]],
                       "probe": 0.14, "nsp": 7, "change": None, "sel": None})
    groups.append({"kind": "pair-interleaved", "elems": ["C", "H", "O"], "resid": [1, 0, 1], "nres": 2, "grid": GRID,
                   "xyz": [[[0, 0, 0], [_grid(0.21), 0, 0], [_grid(3.0), 0, 0]]], "probe": 0.14, "nsp": 96, "change": None, "sel": None})
    ions = [[[0, 0, 0], [_grid(0.25), 0, 0], [_grid(0.1), _grid(0.3), 0], [_grid(2.5), 0, 0]],
            [[0, 0, 0], [_grid(0.28), 0, 0], [_grid(0.1), _grid(0.33), 0], [_grid(2.5), 0, 0]]]
    groups.append({"kind": "one-atom-residues", "elems": ["Na", "Cl", "O", "K"], "resid": [2, 0, 3, 1], "nres": 4, "grid": GRID,
                   "xyz": ions, "probe": 0.14, "nsp": 60, "change": None, "sel": None})
    groups.append({"kind": "one-atom-residues", "elems": ["Na", "Cl", "O", "K"], "resid": [2, 0, 3, 1], "nres": 4, "grid": GRID,
                   "xyz": ions[:1], "probe": 0.14, "nsp": 60, "change": None, "sel": [0, 3]})
    groups.append({"kind": "empty-selection", "elems": ["C", "H", "O", "N"], "resid": [0, 0, 1, 1], "nres": 2, "grid": GRID,
                   "xyz": far, "probe": 0.0, "nsp": 7, "change": None, "sel": []})
    return groups


# ------------------------------------------------------------------------------------------ decoding
def radii_float(g):
    tbl = get_table()
    ch = g.get("change") or {}
    return np.array([float(ch[e]) if e in ch else float(tbl.get(e, 0.2)) for e in g["elems"]], dtype=np.float64) + float(g["probe"])


def radii_units(g):
    tu = table_units(get_table())
    ch = g.get("change") or {}
    pu = int(round(float(g["probe"]) * UNM))
    return [(int(round(float(ch[e]) * UNM)) if e in ch else tu.get(e, UNM // 5)) + pu for e in g["elems"]]


def analyse(g, pts64):
    """Per frame: ambiguous-point count per atom (guard band) and an independent float64 count per atom."""
    r = radii_float(g)
    n = len(r)
    sel = range(n) if g["sel"] is None else sorted(i for i in set(g["sel"]) if 0 <= i < n)
    res = []
    for fr in g["xyz"]:
        x = (np.array(fr, dtype=np.float64) / 2 ** GRID).astype(np.float32).astype(np.float64)
        amb = np.zeros(n, dtype=np.int64)
        cnt = np.zeros(n, dtype=np.int64)
        has_nb = np.zeros(n, dtype=bool)
        n_nb = np.zeros(n, dtype=np.int64)
        for i in sel:
            c = x[i][None, :] + r[i] * pts64                        # [P,3]
            d = np.sqrt(((c[:, None, :] - x[None, :, :]) ** 2).sum(-1)) - r[None, :]   # [P,n]
            d[:, i] = np.inf
            blocked = (d < -GUARD).any(axis=1)
            clear = (d > GUARD).all(axis=1)
            amb[i] = int((~(blocked | clear)).sum())
            cnt[i] = int((d >= 0).all(axis=1).sum())
            dij = np.sqrt(((x - x[i]) ** 2).sum(-1))
            dij[i] = np.inf
            has_nb[i] = bool((dij < r + r[i]).any())
            n_nb[i] = int((dij < r + r[i]).sum())
        res.append({"amb": amb, "cnt": cnt, "has_nb": has_nb, "n_nb": n_nb})
    return res


def groups_of(g, mode):
    n = len(g["elems"])
    if mode == "atom":
        return list(range(n)), n
    return list(g["resid"]), g["nres"]


def intervals(g, mode, rows, an, nsp, carry_rows=None):
    """Integer intervals (unit U^2, K = 1) for each frame/column from float32 areas `rows`.
    carry_rows: atom-mode areas of the same call; when given, frame f>=1 is decoded under the hypothesis that the
    buffer still held frame f-1's areas (as-found kernel, one thread)."""
    mapping, ng = groups_of(g, mode)
    n = len(g["elems"])
    sel = set(range(n)) if g["sel"] is None else set(g["sel"])
    rf = radii_float(g)
    ru = radii_units(g)
    const = 4.0 * math.pi / nsp
    out = []
    for f, row in enumerate(rows):
        slack = [0] * ng
        carry = [0.0] * ng
        for j in range(n):
            if j in sel:
                slack[mapping[j]] += int(an[f]["amb"][j]) * ru[j] * ru[j]
                if carry_rows is not None and f >= 1:
                    carry[mapping[j]] += carry_rows[f - 1][j] * const * rf[j] * rf[j]
        cells = []
        for gi, v in enumerate(row):
            if v == -1.0:
                cells.append(None)
                continue
            q = (v - carry[gi]) / const * UNM * UNM
            w = abs(v) / const * UNM * UNM * EPS
            cells.append((int(math.floor(q - w)) - slack[gi] - 1, int(math.ceil(q + w)) + slack[gi] + 1))
        out.append(cells)
    return out


# ------------------------------------------------------------------------------------------ Coq text
def coq_vec(v):
    return "(%s, %s, %s)" % (cz(v[0]), cz(v[1]), cz(v[2]))


def coq_call(g, mode):
    ch = g.get("change") or {}
    change = clist(["(%s, %s)" % (cstr(k), cz(int(round(float(v) * UNM)))) for k, v in ch.items()])
    frames = clist([clist([coq_vec([c * KU for c in a]) for a in fr]) for fr in g["xyz"]])
    sel = "None" if g["sel"] is None else "(Some %s)" % clist([cnat(i) for i in g["sel"]])
    return ("{| c_K := 1; c_M := %s; c_tiny2 := %s; c_pts := pts%d; c_tbl := atomic_radii_U; c_change := %s; "
            "c_probe := %s; c_elems := %s; c_resid := %s; c_nres := %s; c_mode := %s; c_sel := %s; c_frames := %s |}"
            % (cz(M), cz(TINY2), g["nsp"], change, cz(int(round(float(g["probe"]) * UNM))),
               clist([cstr(e) for e in g["elems"]]), clist([cnat(r) for r in g["resid"]]), cnat(g["nres"]),
               "AtomMode" if mode == "atom" else "ResidueMode", sel, frames))


def coq_expected(iv):
    return "(inl %s)" % clist([clist([copt(c, lambda t: "(%s, %s)" % (cz(t[0]), cz(t[1]))) for c in row]) for row in iv])


ERRNUM = {"ValueError": 1, "KeyError": 2, "IndexError": 3}


def coq_prelude(pts, used):
    out = ["Open Scope Z_scope."]
    for n in sorted(used):
        out.append("Definition pts%d : list vec := %s." % (n, clist([coq_vec(p) for p in pts[n][1]])))
    return "\n".join(out)


# ------------------------------------------------------------------------------------------ the run
THREADS = ["1", "16"]


def impl_calls(ctx, groups):
    """Run every group in both modes under each thread count; returns {(gi, mode, thr): result}."""
    payload = []
    keys = []
    for gi, g in enumerate(groups):
        for mode in ("atom", "residue"):
            c = {k: g[k] for k in ("elems", "resid", "nres", "xyz", "grid", "probe", "nsp", "change", "sel")}
            c["mode"] = mode
            payload.append(c)
            keys.append((gi, mode))
    res = {}
    for thr in THREADS:
        out = ctx.run_impl("sasa_impl.py", {"cases": payload}, env={"OMP_NUM_THREADS": thr})["out"]
        for k, o in zip(keys, out):
            res[k + (thr,)] = o
    return res


def case_of(g, mode, thr):
    c = {k: g[k] for k in ("kind", "elems", "resid", "nres", "xyz", "grid", "probe", "nsp", "change", "sel")}
    c["mode"] = mode
    c["threads"] = thr
    return c


DESC_ORDER = ("shrake_rupley: radii and residue indices are taken in Topology.atoms walk order, coordinates in atom.index order "
              "(wrong areas for topologies whose residues are not contiguous)")
DESC_MISSING = "shrake_rupley raises KeyError: an element defined by mdtraj has no radius in _ATOMIC_RADII"


def walk_order(g):
    """Atom indices in the order Topology.atoms visits them (stable sort by residue)."""
    return sorted(range(len(g["elems"])), key=lambda j: g["resid"][j])


def walk_view(g):
    """The call the as-found code effectively computes: symbols and residues of the k-th atom of the walk at index k."""
    w = walk_order(g)
    g2 = dict(g)
    g2["elems"] = [g["elems"][k] for k in w]
    g2["resid"] = [g["resid"][k] for k in w]
    return g2


def is_interleaved(g):
    return walk_order(g) != list(range(len(g["elems"])))


DESC_CARRY = ("shrake_rupley: a frame's areas depend on the frames the same thread processed before "
              "(outframebuffer is not reset between frames)")


def est_cost(g, an):
    """Upper estimate (seconds of vm_compute) of one model evaluation: point-in-sphere tests."""
    tests = 0
    for a in an:
        tests += int(sum(g["nsp"] * max(1, int(k)) for k in a["n_nb"])) + len(g["elems"]) ** 2 // 4
    return 0.3 + 1e-4 * tests


def coq_check(ctx, pts, units, procs=4):
    """Evaluate the Gallina model once per unit (vm_compute inside coqc) and compare it, inside Coq, with each of the
    unit's expected values; returns (indices of failed checks, errors).  Units are packed into shards of
    comparable estimated cost, `procs` coqc processes at a time."""
    import re
    import time as _time
    order = sorted(range(len(units)), key=lambda i: -units[i][0])
    nsh = max(1, min(len(units), int(sum(u[0] for u in units) / 25.0) + procs))
    shards = [[0.0, []] for _ in range(nsh)]
    for i in order:
        s = min(shards, key=lambda x: x[0])
        s[0] += units[i][0]
        s[1].append(i)
    shards = [s for s in shards if s[1]]
    shards.sort(key=lambda s: -s[0])
    files = []
    for si, (_c, idx) in enumerate(shards):
        used = {units[i][1] for i in idx}
        lines = ["From Coq Require Import ZArith List String Bool Ascii.", "Import ListNotations.",
                 "Require Import MD.Sched.ParFor MD.Sasa.Model MD.Gen.SasaTables.", coq_prelude(pts, used)]
        checks = []
        for i in idx:
            # stage 1 (guards, radii, every frame's buffer) once per system; stage 2 (mapping, -1 overlay, group sums)
            # per mode.  Props/C13.v shrake_rupley_two_stage_evaluation: this IS shrake_rupley on the repaired kernel.
            lines.append("Definition c%d : call := %s." % (i, units[i][2]))
            lines.append("Definition p%d : pre := Eval vm_compute in (shrake_rupley_pre c%d)." % (i, i))
            for (job, mode, exp) in units[i][3]:
                md = "AtomMode" if mode == "atom" else "ResidueMode"
                checks.append("(%d%%nat, result_ok (shrake_rupley_post (set_mode %s c%d) p%d) %s)" % (job, md, i, i, exp))
            if len(units[i]) > 4 and units[i][4]:
                # the as-found view: symbols and residues in Topology.atoms walk order (MD.Sasa.Model.as_found_view)
                lines.append("Definition w%d : call := as_found_view (walk_order (c_nres c%d) (c_resid c%d)) c%d." % (i, i, i, i))
                lines.append("Definition q%d : pre := Eval vm_compute in (shrake_rupley_pre w%d)." % (i, i))
                for (job, mode, exp) in units[i][4]:
                    md = "AtomMode" if mode == "atom" else "ResidueMode"
                    checks.append("(%d%%nat, result_ok (shrake_rupley_post (set_mode %s w%d) q%d) %s)" % (job, md, i, i, exp))
        lines.append("Definition checks : list (nat * bool) := [\n%s\n]." % ";\n".join(checks))
        lines.append('Definition tag := "MISMATCH"%string.')
        lines.append("Eval vm_compute in (tag, List.length checks, map fst (filter (fun c => negb (snd c)) checks)).")
        p = os.path.join(ctx.tmp, "sasa_cases_%d_%d.v" % (int(_time.time() * 1000) % 100000000, si))
        with open(p, "w") as fh:
            fh.write("\n".join(lines) + "\n")
        files.append(p)
    bad, errors = [], []
    running, todo = [], list(files)
    while todo or running:
        while todo and len(running) < procs:
            p = todo.pop(0)
            running.append(subprocess.Popen(["timeout", "1500", "coqc", "-Q", common.COQ, "MD", p], cwd=ctx.tmp,
                                            stdout=subprocess.PIPE, stderr=subprocess.STDOUT, text=True))
        pr = running.pop(0)
        out = pr.communicate()[0]
        if pr.returncode != 0:
            errors.append(out[-3000:])
            continue
        m = re.search(r'\("MISMATCH"%string,\s*(\d+)(?:%nat)?,\s*(\[.*?\]|nil)\s*\)', out, re.S)
        if not m:
            errors.append("unparsed coqc output: " + out[-2000:])
            continue
        bad.extend(int(x) for x in re.findall(r"\d+", m.group(2)))
    return sorted(bad), errors


def run_groups(ctx, groups):
    pts = sphere_points(ctx)
    res = impl_calls(ctx, groups)
    ctx.log("implementation calls done")
    analyses = [analyse(g, pts[g["nsp"]][0]) for g in groups]
    ctx.log("guard-band analysis done")
    jobs = []      # (gi, mode, thr, variant)
    units = []     # one model evaluation each: (cost, nsp, call text, [(job index, expected text)])
    excluded = 0
    for gi, g in enumerate(groups):
        an = analyses[gi]
        excluded += int(sum(int(a["amb"].sum()) for a in an))
        checks = []
        for mode in ("atom", "residue"):
            for thr in THREADS:
                o = res[(gi, mode, thr)]
                if "err" in o:
                    jobs.append((gi, mode, thr, "fix"))
                    checks.append((len(jobs) - 1, mode, "(inr %s)" % cnat(ERRNUM.get(o["err"], 9))))
                    continue
                jobs.append((gi, mode, thr, "fix"))
                checks.append((len(jobs) - 1, mode, coq_expected(intervals(g, mode, o["rows"], an, g["nsp"]))))
                if thr == "1" and len(g["xyz"]) > 1 and "rows" in res[(gi, "atom", thr)]:
                    jobs.append((gi, mode, thr, "cur"))
                    checks.append((len(jobs) - 1, mode, coq_expected(intervals(g, mode, o["rows"], an, g["nsp"],
                                                                               carry_rows=res[(gi, "atom", thr)]["rows"]))))
        ochecks = []
        if is_interleaved(g):
            g2 = walk_view(g)
            an2 = analyse(g2, pts[g["nsp"]][0])
            for mode in ("atom", "residue"):
                for thr in THREADS:
                    o = res[(gi, mode, thr)]
                    if "rows" in o:
                        jobs.append((gi, mode, thr, "ord"))
                        ochecks.append((len(jobs) - 1, mode, coq_expected(intervals(g2, mode, o["rows"], an2, g["nsp"]))))
        units.append((est_cost(g, an) * (2 if ochecks else 1), g["nsp"], coq_call(g, "atom"), checks, ochecks))
    ctx.log("model evaluations: %d, estimated %.0f s of vm_compute" % (len(units), sum(u[0] for u in units)))
    bad, errs = coq_check(ctx, pts, units)
    ctx.log("model evaluations done")
    if errs:
        ctx.break_("correspondence:coqc-evaluation", "\n".join(errs))
        return
    badset = {jobs[i] for i in bad}
    ctx.notes.setdefault("coverage_extra", {})["sphere_points_excluded_by_guard_band"] = \
        ctx.notes.get("coverage_extra", {}).get("sphere_points_excluded_by_guard_band", 0) + excluded
    # decide per call
    n_fix = n_cur = n_ord = 0
    for gi, g in enumerate(groups):
        an = analyses[gi]
        nontriv = any(bool((a["has_nb"] & (a["cnt"] > 0)).any()) for a in an)
        for mode in ("atom", "residue"):
            for thr in THREADS:
                case = case_of(g, mode, thr)
                ctx.count(case, nontrivial=nontriv,
                          bucket="%s/nsp=%d/%s/thr=%s/frames=%d" % (g["kind"], g["nsp"], mode, thr, len(g["xyz"])))
                if (gi, mode, thr, "fix") not in badset:
                    n_fix += 1
                    continue
                o = res[(gi, mode, thr)]
                if (gi, mode, thr, "ord") in jobs and (gi, mode, thr, "ord") not in badset:
                    n_ord += 1
                    ctx.fail(DESC_ORDER, case, observed=o, expected="radii and residues by atom index (Coq shrake_rupley on the call itself)",
                             tags={"explained_by": "atoms_walk_order", "threads": thr})
                    continue
                if (gi, mode, thr, "cur") in jobs and (gi, mode, thr, "cur") not in badset:
                    n_cur += 1
                    ctx.fail(DESC_CARRY, case, observed=o, expected="each frame evaluated from a zeroed buffer (Coq frame_row)",
                             tags={"explained_by": "sasa_cur", "threads": thr, "frames_gt_1": True})
                    continue
                # neither variant: confirm with the independent float64 evaluation before blaming the implementation
                verdict = oracle_one(g, mode, o, an)
                if verdict is None:
                    ctx.break_("correspondence:sasa-model[%s,thr=%s]" % (mode, thr),
                               "model and implementation disagree but the float64 evaluation agrees with the "
                               "implementation: %s -> %s" % (case, str(o)[:400]))
                else:
                    ctx.fail("shrake_rupley: " + verdict[0], case, observed=o, expected=verdict[1],
                             tags={"explained_by": None, "threads": thr, "kind": verdict[2]})
    ce = ctx.notes.setdefault("coverage_extra", {})
    ce["calls_matching_repaired_model"] = ce.get("calls_matching_repaired_model", 0) + n_fix
    ce["calls_explained_only_by_as_found_carry_over"] = ce.get("calls_explained_only_by_as_found_carry_over", 0) + n_cur
    ce["calls_explained_only_by_walk_order_of_interleaved_topology"] = ce.get("calls_explained_only_by_walk_order_of_interleaved_topology", 0) + n_ord
    ce["interleaved_topologies"] = ce.get("interleaved_topologies", 0) + sum(1 for g in groups if is_interleaved(g))
    for gi, g in enumerate(groups):
        if g["kind"] == "missing-radius":
            o = res.get((gi, "atom", THREADS[0]))
            if o and o.get("err") == "KeyError":
                ctx.fail(DESC_MISSING, case_of(g, "atom", THREADS[0]), observed=o, expected="an area (documented default 0.2 nm) or a radius entry",
                         tags={"kind": "missing_radius", "symbol": g["elems"][0]})
    return res, analyses


def oracle_one(g, mode, o, an):
    """Independent float64 evaluation of one call: returns None when it agrees with the implementation,
    else (description, expected, kind)."""
    if "err" in o:
        return ("raises on a valid call", o["err"], "raises")
    mapping, ng = groups_of(g, mode)
    n = len(g["elems"])
    sel = set(range(n)) if g["sel"] is None else set(g["sel"])
    rf = radii_float(g)
    const = 4.0 * math.pi / g["nsp"]
    for f, row in enumerate(o["rows"]):
        if len(row) != ng:
            return ("wrong number of output columns", {"columns": len(row), "groups": ng}, "shape")
        want = [0.0] * ng
        slack = [0.0] * ng
        has = [False] * ng
        for j in range(n):
            if j in sel:
                has[mapping[j]] = True
                want[mapping[j]] += int(an[f]["cnt"][j]) * const * rf[j] ** 2
                slack[mapping[j]] += int(an[f]["amb"][j]) * const * rf[j] ** 2
        for gi in range(ng):
            w = want[gi] if (has[gi] or g["sel"] is None) else -1.0
            if abs(row[gi] - w) > slack[gi] + 2 * EPS * abs(w) + 1e-9:
                kind = "minus1" if (w == -1.0 or row[gi] == -1.0) else "area"
                what = ("a column is/is not -1 against the selection" if kind == "minus1" else
                        "an area differs from the independent evaluation on the documented point set")
                return (what, {"frame": f, "column": gi, "expected": w, "observed": row[gi]}, kind)
    return None



# ------------------------------------------------------------------------------------------ golden spiral
SPIRAL_TOL = {"t_y": 2, "t_norm": 4 * M, "t_turn_num": 1, "t_turn_den": 1000, "t_start": 2}
GOLDEN_INC = math.pi * (3.0 - math.sqrt(5.0))
GUARD_DIR = 1.0e-4         # nm; general directions: float32 phi = i*inc is off by up to ~1.1e-4 rad at i = 960


def gen_spiral_text(pts):
    sets = []
    out = ["(* GENERATED on every run by harness/props/C13.py: the float32 sphere points of the repository's own",
           "   generate_sphere_points (obtained through harness/shims/sasa_points.cpp, rounded to the unit 2^-20), for every",
           "   n_sphere_points the correspondence uses.  Per-run obligation: each set satisfies the golden-spiral specification",
           "   MD.Sasa.Spiral.spiral_ok (strata in y, unit sphere, golden-angle turn between consecutive points, phi_0 = 0)",
           "   within the stated float32/grid tolerances.  A generator that lays the points out differently stops the build. *)",
           "From Coq Require Import List ZArith Bool.", "Import ListNotations.",
           "Require Import MD.Sasa.Model MD.Sasa.Spiral.", "Open Scope Z_scope.", "",
           "Definition spiral_M : Z := %d." % M,
           "Definition spiral_tolerances : spiral_tol :=",
           "  {| t_y := %(t_y)d; t_norm := %(t_norm)d; t_turn_num := %(t_turn_num)d; t_turn_den := %(t_turn_den)d; t_start := %(t_start)d |}." % SPIRAL_TOL, ""]
    for n in sorted(pts):
        out.append("Definition shim_pts%d : list vec := %s." % (n, clist([coq_vec(p) for p in pts[n][1]])))
        sets.append("(%s, shim_pts%d)" % (cnat(n), n))
    out.append("Definition shim_point_sets : list (nat * list vec) := %s." % clist(sets))
    out.append("Definition point_set_ok (p : nat * list vec) : bool :=")
    out.append("  Nat.eqb (length (snd p)) (fst p) && negb (Nat.eqb (fst p) 0) && spiral_ok spiral_M spiral_tolerances (snd p).")
    out.append("Lemma shim_points_are_golden_spiral : forallb point_set_ok shim_point_sets = true.")
    out.append("Proof. vm_compute. reflexivity. Qed.")
    return "\n".join(out) + "\n"


def ideal_spiral(n):
    i = np.arange(n, dtype=np.float64)
    y = (2 * i + 1 - n) / n
    r = np.sqrt(1.0 - y * y)
    phi = i * GOLDEN_INC
    return np.stack([np.cos(phi) * r, y, np.sin(phi) * r], axis=1)


def spiral_api_checks(ctx):
    """Two overlapping spheres through the public API against the DOCUMENTED point set (golden spiral computed here in
    float64, independent of the repository's generator): the number of buried points must be the ideal count exactly,
    up to the points that lie within a guard band of the neighbour's surface.  Along +-y the count only depends on the
    y strata (guard 1e-5 nm); in other directions the float32 azimuth adds up to ~1e-4 rad (guard 1e-4 nm)."""
    rng = ctx.rng
    tbl = get_table()
    ce = ctx.notes.setdefault("coverage_extra", {})
    # the shim's points against the ideal ones (evidence; the Coq obligation shim_points_are_golden_spiral is the check)
    try:
        pts = sphere_points(ctx)
        ce["shim_points_max_abs_deviation_from_ideal_spiral"] = {str(n): float(np.abs(pts[n][0] - ideal_spiral(n)).max()) for n in sorted(pts)}
    except Exception as e:
        ce["shim_points_max_abs_deviation_from_ideal_spiral"] = "shim unavailable: %s" % e
    groups, meta = [], []
    quick = ctx.tier == "quick"
    dirs = [("+y", [0, 1, 0]), ("-y", [0, -1, 0]), ("+x", [1, 0, 0]), ("-x", [-1, 0, 0]), ("+z", [0, 0, 1]), ("-z", [0, 0, -1])]
    for rep in range(2 if quick else 12):
        for nsp in (960, 96, 60, 7):
            for dname, u in dirs + [("rand", None)]:
                e1 = rng.choice(["C", "N", "O", "S"])
                probe = rng.choice([0.14, 0.14, 0.0, 0.2])
                ra = float(tbl[e1]) + probe
                rb = ra                                     # same element: d = 2 ra t puts the cap threshold at cos = t
                if dname in ("+y", "-y"):
                    # threshold a quarter stratum below / above an ideal y: every point is >= 1/(4n) away from it
                    k = rng.randrange(nsp // 2 + 1, nsp) if nsp > 2 else nsp - 1
                    yk = (2 * k + 1 - nsp) / nsp
                    t = yk + rng.choice([-1, 1]) / (2.0 * nsp) * 0.5
                    if not (0.05 < t < 0.98):
                        t = yk - 0.25 / nsp if yk > 0.3 else 0.5
                else:
                    t = rng.uniform(0.1, 0.9)
                d = 2 * ra * t
                if d < 0.03:
                    continue
                uu = u if u is not None else _rand_dir(rng)
                c = [rng.uniform(-1, 1) for _ in range(3)]
                g = {"kind": "spiral" + dname, "elems": [e1, e1], "resid": [0, 0], "nres": 1, "grid": GRID,
                     "xyz": [[[_grid(c[k]) for k in range(3)], [_grid(c[k] + d * uu[k]) for k in range(3)]]],
                     "probe": probe, "nsp": nsp, "change": None, "sel": None}
                groups.append(g)
                meta.append((dname, ra, rb))
    payload = []
    for g in groups:
        c = {k: g[k] for k in ("elems", "resid", "nres", "xyz", "grid", "probe", "nsp", "change", "sel")}
        c["mode"] = "atom"
        payload.append(c)
    out = ctx.run_impl("sasa_impl.py", {"cases": payload}, env={"OMP_NUM_THREADS": "1"})["out"]
    n_exact = n_slack = 0
    for g, (dname, ra, rb), o in zip(groups, meta, out):
        n = g["nsp"]
        x = (np.array(g["xyz"][0], dtype=np.float64) / 2 ** GRID).astype(np.float32).astype(np.float64)
        P = ideal_spiral(n)
        guard = GUARD if dname in ("+y", "-y") else GUARD_DIR
        const = 4.0 * math.pi / n
        for i, j in ((0, 1), (1, 0)):
            ri, rj = (ra, rb) if i == 0 else (rb, ra)
            dist = np.sqrt(((x[i][None, :] + ri * P - x[j][None, :]) ** 2).sum(-1)) - rj
            sure_in = int((dist < -guard).sum())
            amb = int((np.abs(dist) <= guard).sum())
            got = (n * const * ri * ri - o["rows"][0][i]) / (const * ri * ri) if "rows" in o else None
            ctx.count(case_of(g, "atom", "1"), nontrivial=sure_in > 0, bucket="golden-spiral/%s/nsp=%d" % (dname, n))
            if amb == 0:
                n_exact += 1
            else:
                n_slack += 1
            if got is None or not (sure_in - 0.01 <= got <= sure_in + amb + 0.01) or abs(got - round(got)) > 0.01:
                ctx.fail("shrake_rupley: the number of buried sphere points of two overlapping spheres is not the count on the "
                         "documented golden-spiral point set", case_of(g, "atom", "1"),
                         observed={"atom": i, "buried_points": got, "area": o.get("rows", [[None, None]])[0][i] if "rows" in o else o},
                         expected={"buried_points_min": sure_in, "buried_points_max": sure_in + amb, "direction": dname},
                         tags={"kind": "golden_spiral", "direction": dname})
    ce["golden_spiral_api_checks(exact; with guard-band slack)"] = [n_exact, n_slack]


# ------------------------------------------------------------------------------------------ the Python layer of sasa.py
DESC_SELFORM = ("shrake_rupley: atom_indices given as negative indices or as a boolean mask are interpreted in two different ways "
                "(selection mask by `ii in atom_indices`, -1 overlay by numpy indexing): a wrong value is returned silently")


def python_layer_checks(ctx):
    """Argument handling of sasa.py that the integer model does not represent: the form of atom_indices (list, tuple,
    range, ndarray, duplicates, negative, boolean mask), invalid mode strings, get_mapping, integer-like n_sphere_points.
    Expected values are other calls of the same function (bitwise) or the documented error."""
    rng = ctx.rng
    n = rng.randint(4, 9)
    pos = gen_positions(rng, "chain", n)
    n = len(pos)
    nres = rng.randint(2, max(2, n // 2))
    resid = sorted(list(range(nres)) + [rng.randrange(nres) for _ in range(n - nres)])
    base = {"elems": [rng.choice(COMMON) for _ in range(n)], "resid": resid, "nres": nres, "grid": GRID,
            "xyz": [[[_grid(v) for v in p] for p in pos]], "probe": 0.14, "nsp": rng.choice([60, 96]), "change": None}
    sel = sorted(rng.sample(range(n), rng.randint(1, n - 1)))
    cases, tags = [], []

    def add(tag, **kw):
        c = dict(base, mode=kw.pop("mode", "atom"), sel=kw.pop("sel", None))
        c.update(kw)
        cases.append(c)
        tags.append(tag)
    add(("full", "atom"), mode="atom", sel=None)
    for mode in ("atom", "residue"):
        add(("ref", mode), mode=mode, sel=sel)
        add(("form", mode, "ndarray"), mode=mode, sel=sel, sel_form="ndarray")
        add(("form", mode, "range-like"), mode=mode, sel=sel, sel_form="int64")
        add(("form", mode, "duplicates"), mode=mode, sel=sel + sel[:1] + sel)
        add(("form", mode, "reversed"), mode=mode, sel=sel[::-1])
        add(("neg", mode), mode=mode, sel=[i - n for i in sel])
        add(("bool", mode), mode=mode, sel=sel, sel_form="bool")
        add(("boolarr", mode), mode=mode, sel=sel, sel_form="boolarray")
        add(("tuple", mode), mode=mode, sel=sel, sel_form="tuple")
        add(("mapping", mode), mode=mode, sel=sel, get_mapping=True)
        add(("nsp-float", mode), mode=mode, sel=sel, nsp=float(base["nsp"]))
    for bad in ("Atom", "residues", "", "ATOM", None, 0):
        add(("badmode", repr(bad)), mode=bad)
    out = ctx.run_impl("sasa_impl.py", {"cases": cases}, env={"OMP_NUM_THREADS": "1"})["out"]
    by = dict(zip(tags, zip(cases, out)))
    n_ok = 0
    for tag, (c, o) in by.items():
        kind = tag[0]
        case = dict(c, kind="python-layer/" + kind, threads="1")
        ctx.count(case, nontrivial=True, bucket="python-layer/%s" % kind)
        if kind == "badmode":
            if o.get("err") != "ValueError":
                ctx.fail("shrake_rupley: a mode other than 'atom'/'residue' is not refused with ValueError", case, observed=o,
                         expected="ValueError", tags={"kind": "badmode"})
            else:
                n_ok += 1
            continue
        if kind in ("ref", "full"):
            continue
        ref = by[("ref", tag[1])][1]
        if kind in ("form", "nsp-float"):
            if o.get("rows") != ref.get("rows"):
                ctx.fail("shrake_rupley: the result depends on the container type / order / multiplicity of atom_indices "
                         "(or on n_sphere_points being passed as a float)", case, observed=o, expected=ref, tags={"kind": "selform", "form": tag[-1]})
            else:
                n_ok += 1
        elif kind == "mapping":
            want = list(range(n)) if tag[1] == "atom" else resid
            if o.get("rows") != ref.get("rows") or o.get("mapping") != want:
                ctx.fail("shrake_rupley(get_mapping=True) does not return the same areas plus the atom -> column mapping", case,
                         observed=o, expected={"rows": ref.get("rows"), "mapping": want}, tags={"kind": "get_mapping"})
            else:
                n_ok += 1
        else:
            # negative indices / boolean masks / tuples: either the numpy meaning (same atoms as `sel`) or a refusal
            if "err" in o and o["err"] in ("IndexError", "ValueError", "TypeError"):
                n_ok += 1
            elif o.get("rows") == ref.get("rows"):
                n_ok += 1
            else:
                full = by[("full", "atom")][1].get("rows")
                explained = as_found_selform(ctx, c, "neg" if kind == "neg" else "bool", n, tag[1], o, full)
                ctx.fail(DESC_SELFORM, case, observed=o, expected={"same as atom_indices=%s" % sel: ref.get("rows"), "or": "IndexError"},
                         tags={"kind": "selform", "form": kind, "explained_by": "two_readings_of_atom_indices" if explained else None})
    ctx.notes.setdefault("coverage_extra", {})["python_layer_checks_passed"] = n_ok


def as_found_selform(ctx, c, kind, n, mode, o, full_rows):
    """Does the as-found reading of atom_indices (mask = [ii in atom_indices], overlay = numpy indexing) explain the
    output?  (1) from the implementation's own all-atoms areas with float32 arithmetic (harness arithmetic);
    (2) for negative integers also against the Gallina variant MD.Sasa.Model.shrake_rupley_raw_cur inside coqc."""
    raw = c["sel"]
    if kind == "neg":
        mask, overlay = set(), {i + n for i in raw}
    else:
        bools = [i in set(raw) for i in range(n)]
        mask = {v for v in (0, 1) if ((v == 1) in bools) and v < n}
        overlay = {i for i, b_ in enumerate(bools) if b_}
    mapping, ng = groups_of(c, mode)
    if "rows" not in o or full_rows is None:
        return False
    for row, frow in zip(o["rows"], full_rows):
        want = np.full(ng, -1.0, dtype=np.float32)
        for j in overlay:
            want[mapping[j]] = 0.0
        for j in sorted(mask):
            want[mapping[j]] = np.float32(want[mapping[j]] + np.float32(frow[j]))
        if any(abs(float(w) - v) > 2 * EPS * abs(float(w)) + 1e-9 for w, v in zip(want, row)):
            return False
    if kind == "neg":
        pts = sphere_points(ctx)
        g = dict(c, sel=sorted(mask), kind="python-layer/neg")
        an = analyse(g, pts[c["nsp"]][0])
        exp = coq_expected(intervals(g, mode, o["rows"], an, c["nsp"]))
        call = coq_call(dict(c, sel=None), mode)
        expr = "result_ok (shrake_rupley_raw_cur (sched_serial 1) %s (RawInts %s)) %s" % (call, clist([cz(i) for i in raw]), exp)
        rc, out = ctx.coq_eval(["MD.Sched.ParFor", "MD.Sasa.Model", "MD.Gen.SasaTables"], expr, prelude=coq_prelude(pts, {c["nsp"]}))
        ce = ctx.notes.setdefault("coverage_extra", {})
        ce["as_found_atom_indices_model_evaluations"] = ce.get("as_found_atom_indices_model_evaluations", 0) + 1
        if rc != 0 or not re.search(r"=\s*true", out):
            return False
    return True



# ------------------------------------------------------------------------------------------ histories on one Topology object
DESC_HISTORY = ("shrake_rupley: a call made after other calls / after an in-place edit of the topology on the same objects does not "
                "equal the independent evaluation of that call (something is remembered from an earlier call)")


def gen_history(rng):
    """One history: a small system, then calls interleaved with in-place edits of the SAME Topology object
    (element change, atom moved to another residue, rename, atom added / deleted) and with arguments that vary from call
    to call (change_radii, probe, n_sphere_points, mode, atom_indices, a slice / a new Trajectory sharing the topology).
    Returns (case for sasa_impl, [state of the system at every call step])."""
    n = rng.randint(2, 6)
    kind = rng.choice(["isolated", "chain", "cluster"])
    pos = gen_positions(rng, kind, n)
    n = len(pos)
    nres = rng.randint(1, max(1, min(n, 3)))
    resid = sorted(list(range(nres)) + [rng.randrange(nres) for _ in range(n - nres)])
    elems = [rng.choice(COMMON) for _ in range(n)]
    nfr = rng.choice([1, 1, 2])
    xyz = [[[_grid(p[k] + (0.01 * f if k == 0 else 0.0)) for k in range(3)] for p in pos] for f in range(nfr)]
    state = {"elems": list(elems), "resid": list(resid), "nres": nres, "xyz": [[list(a) for a in fr] for fr in xyz]}
    case = {"kind": "history", "elems": list(elems), "resid": list(resid), "nres": nres, "xyz": xyz, "grid": GRID, "steps": []}
    states = []

    def call():
        m = len(state["elems"])
        sel = None if rng.random() < 0.6 else sorted(rng.sample(range(m), rng.randint(1, m)))
        change = None
        if rng.random() < 0.4:
            change = {rng.choice(sorted(set(state["elems"]))): round(rng.uniform(0.05, 0.3), 3)}
        st = {"op": "call", "probe": rng.choice([0.14, 0.14, 0.0, 0.2]), "nsp": rng.choice([7, 60, 96]), "mode": rng.choice(["atom", "residue"]),
              "change": change, "sel": sel, "view": rng.choice(["traj", "traj", "slice_shared", "new_traj"])}
        case["steps"].append(st)
        states.append({"elems": list(state["elems"]), "resid": list(state["resid"]), "nres": state["nres"],
                       "xyz": [[list(a) for a in fr] for fr in state["xyz"]], "grid": GRID,
                       "probe": st["probe"], "nsp": st["nsp"], "change": change, "sel": sel, "mode": st["mode"], "kind": "history-call"})

    call()
    for _ in range(rng.randint(2, 4)):
        m = len(state["elems"])
        op = rng.choice(["set_element", "set_element", "move_atom", "rename", "add_atom", "delete_atom", "none"])
        if op == "set_element":
            i = rng.randrange(m)
            sym = rng.choice([e for e in COMMON + ["Cl", "Na", "Fe"] if e != state["elems"][i]])
            case["steps"].append({"op": op, "atom": i, "sym": sym})
            state["elems"][i] = sym
        elif op == "move_atom" and state["nres"] >= 2:
            i = rng.randrange(m)
            r = rng.choice([q for q in range(state["nres"]) if q != state["resid"][i]])
            case["steps"].append({"op": op, "atom": i, "res": r})
            state["resid"][i] = r
        elif op == "rename":
            case["steps"].append({"op": op, "atom": rng.randrange(m), "name": "ZZ%d" % rng.randrange(100)})
        elif op == "add_atom" and m < 8:
            sym = rng.choice(COMMON)
            r = rng.randrange(state["nres"])
            far = [[_grid(3.0 + 0.4 * m), _grid(-3.0 + 0.01 * f), _grid(3.0)] for f in range(len(state["xyz"]))]
            if rng.random() < 0.5:                       # next to atom 0 instead of far away
                far = [[state["xyz"][f][0][0] + _grid(0.17), state["xyz"][f][0][1] + _grid(0.11), state["xyz"][f][0][2] + _grid(0.07)]
                       for f in range(len(state["xyz"]))]
            # never on top of (or within 0.02 nm of) an atom that is already there -- two additions "next to atom 0", or
            # one after a deletion, would coincide, and sasa.cpp calls exit(1) on coincident atoms (outside the quantifier)
            lim2 = _grid(0.02) ** 2
            for _k in range(12):
                if all(sum((far[f][d] - a[d]) ** 2 for d in range(3)) >= lim2
                       for f, fr in enumerate(state["xyz"]) for a in fr):
                    break
                far = [[q[0] + _grid(0.05), q[1] + _grid(0.03), q[2]] for q in far]
            case["steps"].append({"op": op, "sym": sym, "res": r, "xyz": far})
            state["elems"].append(sym)
            state["resid"].append(r)
            for f, fr in enumerate(state["xyz"]):
                fr.append(list(far[f]))
        elif op == "delete_atom" and m >= 3:
            i = rng.randrange(m)
            case["steps"].append({"op": op, "atom": i})
            del state["elems"][i]
            del state["resid"][i]
            for fr in state["xyz"]:
                del fr[i]
        call()
        if rng.random() < 0.4:
            call()
    return case, states


def run_histories(ctx, hist):
    """hist: [(case, states)].  Every call of a history must equal (a) the same call on freshly built objects in another
    process, bit for bit, and (b) the independent float64 evaluation on the documented point set."""
    pts = sphere_points(ctx)
    out = ctx.run_impl("sasa_impl.py", {"cases": [c for c, _s in hist]}, env={"OMP_NUM_THREADS": "1"})["out"]
    fresh_cases = []
    for _c, states in hist:
        for st in states:
            fresh_cases.append({k: st[k] for k in ("elems", "resid", "nres", "xyz", "grid", "probe", "nsp", "change", "sel", "mode")})
    fresh = ctx.run_impl("sasa_impl.py", {"cases": fresh_cases}, env={"OMP_NUM_THREADS": "1"})["out"]
    k = 0
    n_calls = n_edits = 0
    for (case, states), o in zip(hist, out):
        n_edits += sum(1 for st in case["steps"] if st["op"] != "call")
        for ci, (st, got) in enumerate(zip(states, o["calls"])):
            fr = fresh[k]
            k += 1
            n_calls += 1
            ctx.count(dict(case, call_index=ci, threads="1"), nontrivial=ci > 0, bucket="history/call%d" % min(ci, 3))
            bad = None
            if ("rows" in got) != ("rows" in fr) or got.get("rows") != fr.get("rows") or got.get("err") != fr.get("err"):
                bad = ("differs from the same call on freshly built objects", fr)
            elif "rows" in got and not min_dist_ok(st["xyz"]):
                pass
            elif "rows" in got:
                g = dict(st)
                an = analyse(g, pts[st["nsp"]][0])
                v = oracle_one(g, st["mode"], got, an)
                if v is not None:
                    bad = (v[0], v[1])
            if bad:
                ctx.fail(DESC_HISTORY, dict(case, call_index=ci, threads="1"), observed=got,
                         expected={"what": bad[0], "value": bad[1], "state_at_call": {"elems": st["elems"], "resid": st["resid"]}},
                         tags={"kind": "history", "call_index": ci})
                break
    ce = ctx.notes.setdefault("coverage_extra", {})
    ce["history_calls_on_shared_topology"] = ce.get("history_calls_on_shared_topology", 0) + n_calls
    ce["history_inplace_edits"] = ce.get("history_inplace_edits", 0) + n_edits


def history_checks(ctx):
    rng = ctx.rng
    hist = []
    # the documented case first: an element corrected in place between two calls on the same trajectory
    base = {"kind": "history", "elems": ["N", "Ca", "O"], "resid": [0, 1, 2], "nres": 3, "grid": GRID,
            "xyz": [[[0, 0, 0], [_grid(3.0), 0, 0], [0, _grid(3.0), 0]]],
            "steps": [{"op": "call", "probe": 0.14, "nsp": 96, "mode": "atom", "change": None, "sel": None, "view": "traj"},
                      {"op": "set_element", "atom": 1, "sym": "C"},
                      {"op": "call", "probe": 0.14, "nsp": 96, "mode": "atom", "change": None, "sel": None, "view": "traj"},
                      {"op": "call", "probe": 0.14, "nsp": 96, "mode": "residue", "change": {"C": 0.2}, "sel": [1], "view": "slice_shared"}]}
    sts = []
    el = ["N", "Ca", "O"]
    for st in base["steps"]:
        if st["op"] == "set_element":
            el = ["N", "C", "O"]
        if st["op"] == "call":
            sts.append({"elems": list(el), "resid": [0, 1, 2], "nres": 3, "xyz": base["xyz"], "grid": GRID, "probe": st["probe"],
                        "nsp": st["nsp"], "change": st["change"], "sel": st["sel"], "mode": st["mode"], "kind": "history-call"})
    hist.append((base, sts))
    for _ in range(10 if ctx.tier == "quick" else 120):
        hist.append(gen_history(rng))
    run_histories(ctx, hist)


# ------------------------------------------------------------------------------------------ relations on the implementation
def sentinel(ctx, groups, res, analyses):
    """The statements of the property checked directly on md.shrake_rupley's output (no model)."""
    pts = sphere_points(ctx)
    viol = 0
    for gi, g in enumerate(groups):
        if is_interleaved(g):
            continue              # the relations below are written with index-order radii; the model comparison covers these
        n = len(g["elems"])
        rf = radii_float(g)
        const = 4.0 * math.pi / g["nsp"]
        sel = list(range(n)) if g["sel"] is None else sorted(i for i in set(g["sel"]) if 0 <= i < n)
        for thr in THREADS:
            a = res.get((gi, "atom", thr))
            r = res.get((gi, "residue", thr))
            if not a or not r or "rows" not in a or "rows" not in r:
                continue
            # isolated atoms: 4 pi (r+probe)^2
            for f, row in enumerate(a["rows"]):
                for j in sel:
                    if not analyses[gi][f]["has_nb"][j] and analyses[gi][f]["amb"][j] == 0 and (f == 0 or thr != "1"):
                        full = 4 * math.pi * rf[j] ** 2
                        if abs(row[j] - full) > 4 * EPS * full:
                            ctx.fail("shrake_rupley: isolated atom does not get 4*pi*(r+probe)^2", case_of(g, "atom", thr),
                                     observed=row[j], expected=full, tags={"kind": "isolated", "threads": thr})
            # residue mode = sum of atom mode over the selected atoms of the residue (same frames, same thread count)
            for f, (ra, rr) in enumerate(zip(a["rows"], r["rows"])):
                for gidx in range(g["nres"]):
                    mem = [j for j in sel if g["resid"][j] == gidx]
                    want = sum(ra[j] for j in mem) if mem or g["sel"] is None else -1.0
                    if abs(rr[gidx] - want) > 4 * EPS * abs(want) + 1e-9:
                        ctx.fail("shrake_rupley: residue mode is not the sum of atom mode over the residue's selected atoms",
                                 case_of(g, "residue", thr), observed=rr[gidx], expected=want,
                                 tags={"kind": "residue_sum", "threads": thr})
                        viol += 1
                for j in range(n):
                    if j not in sel and ra[j] != -1.0:
                        ctx.fail("shrake_rupley: unselected atom is not reported as -1", case_of(g, "atom", thr),
                                 observed=ra[j], expected=-1.0, tags={"kind": "minus1", "threads": thr})
    return viol


def two_sphere_checks(ctx):
    """Analytic cap-removed area of two overlapping spheres, through the public API, one frame."""
    rng = ctx.rng
    pts = sphere_points(ctx)
    tbl = get_table()
    groups = []
    for t in range(12 if ctx.tier == "quick" else 120):
        e1, e2 = rng.choice(COMMON), rng.choice(COMMON)
        probe = rng.choice([0.0, 0.14, 0.2])
        r1, r2 = float(tbl[e1]) + probe, float(tbl[e2]) + probe
        d = rng.uniform(abs(r1 - r2) + 0.02, r1 + r2 - 0.01)
        axis_y = t % 2 == 0
        u = [0.0, 1.0, 0.0] if axis_y else _rand_dir(rng)
        c = [rng.uniform(-1, 1) for _ in range(3)]
        nsp = 960 if t % 3 else 96
        groups.append({"kind": "cap_y" if axis_y else "cap", "elems": [e1, e2], "resid": [0, 0], "nres": 1, "grid": GRID,
                       "xyz": [[[_grid(c[k]) for k in range(3)], [_grid(c[k] + d * u[k]) for k in range(3)]]],
                       "probe": probe, "nsp": nsp, "change": None, "sel": None})
    payload = []
    for g in groups:
        c = {k: g[k] for k in ("elems", "resid", "nres", "xyz", "grid", "probe", "nsp", "change", "sel")}
        c["mode"] = "atom"
        payload.append(c)
    out = ctx.run_impl("sasa_impl.py", {"cases": payload}, env={"OMP_NUM_THREADS": "1"})["out"]
    worst = {"cap_y": 0.0, "cap": 0.0}
    for g, o in zip(groups, out):
        x = np.array(g["xyz"][0], dtype=np.float64) / 2 ** GRID
        d = float(np.linalg.norm(x[1] - x[0]))
        rf = radii_float(g)
        n = g["nsp"]
        for i, j in ((0, 1), (1, 0)):
            # fraction of sphere i outside sphere j: cap of sphere i with cos(theta) > t is buried
            t = (d * d + rf[i] ** 2 - rf[j] ** 2) / (2 * d * rf[i])
            frac = min(1.0, max(0.0, (1 + t) / 2))
            exact = 4 * math.pi * rf[i] ** 2 * frac
            err_pts = abs(o["rows"][0][i] - exact) / (4 * math.pi * rf[i] ** 2 / n)
            # quadrature bound in points: the spiral's y coordinates are equally spaced, so along the y axis the
            # count is off by at most one point (+1 for float rounding at the rim); in a general direction the
            # discrepancy of the golden spiral is bounded here by 0.4*sqrt(n)+2 (measured <= 0.2*sqrt(n))
            bound = 2.0 if g["kind"] == "cap_y" else 0.4 * math.sqrt(n) + 2
            worst[g["kind"]] = max(worst[g["kind"]], err_pts / (1.0 if g["kind"] == "cap_y" else math.sqrt(n)))
            ctx.count(case_of(g, "atom", "1"), nontrivial=True, bucket="two-sphere/%s" % g["kind"])
            if err_pts > bound:
                ctx.fail("shrake_rupley: two overlapping spheres deviate from the analytic cap-removed area by more than "
                         "the quadrature bound", case_of(g, "atom", "1"), observed=o["rows"][0][i], expected=exact,
                         tags={"kind": "two_sphere", "points_off": round(err_pts, 2)})
    ctx.notes.setdefault("coverage_extra", {})["two_sphere_worst_error_points(y-axis; other/sqrt(n))"] = \
        [round(worst["cap_y"], 3), round(worst["cap"], 3)]


def subset_and_frame_checks(ctx, groups, res):
    """Subset independence and frame locality on the implementation: re-run each group with all atoms selected /
    each frame alone and compare the kept values (float32 against float32 of the same computation: exact)."""
    payload, keys = [], []
    for gi, g in enumerate(groups):
        if is_interleaved(g):
            continue
        base = {k: g[k] for k in ("elems", "resid", "nres", "grid", "probe", "nsp", "change")}
        if g["sel"] is not None:
            c = dict(base, xyz=g["xyz"], sel=None, mode="atom")
            payload.append(c)
            keys.append((gi, "all", None))
        if len(g["xyz"]) > 1:
            for f, fr in enumerate(g["xyz"]):
                c = dict(base, xyz=[fr], sel=g["sel"], mode="atom")
                payload.append(c)
                keys.append((gi, "alone", f))
    if not payload:
        return
    out = {}
    for thr in THREADS:
        o = ctx.run_impl("sasa_impl.py", {"cases": payload}, env={"OMP_NUM_THREADS": thr})["out"]
        for k, v in zip(keys, o):
            out[k + (thr,)] = v
    for (gi, what, f, thr), v in out.items():
        g = groups[gi]
        a = res.get((gi, "atom", thr))
        if not a or "rows" not in a or "rows" not in v:
            continue
        n = len(g["elems"])
        sel = list(range(n)) if g["sel"] is None else sorted(i for i in set(g["sel"]) if 0 <= i < n)
        if what == "all":
            for fi, (r_sel, r_all) in enumerate(zip(a["rows"], v["rows"])):
                bad = [j for j in sel if r_sel[j] != r_all[j]]
                if bad:
                    ctx.fail("shrake_rupley: restricting atom_indices changes the value of an atom that is kept",
                             case_of(g, "atom", thr), observed=[r_sel[j] for j in bad], expected=[r_all[j] for j in bad],
                             tags={"kind": "subset", "threads": thr})
                    break
        else:
            bad = [j for j in sel if a["rows"][f][j] != v["rows"][0][j]]
            if bad:
                carried = thr == "1" and f >= 1
                ctx.fail(DESC_CARRY if carried else "shrake_rupley: a frame computed alone differs from the same frame in a trajectory",
                         case_of(g, "atom", thr), observed=[a["rows"][f][j] for j in bad], expected=[v["rows"][0][j] for j in bad],
                         tags={"explained_by": "sasa_cur" if carried and a["rows"][f - 1] and
                               all(a["rows"][f - 1][j] > 0 for j in bad) else None,
                               "threads": thr, "frames_gt_1": True, "kind": "frame_alone"})


def clash_probe(ctx):
    """Two atoms 4*2^-20 nm apart (< 1e-5 nm): the kernel prints an error and calls exit(1); the model says Exit1.
    Outside the property's quantifier (no coincident atoms) - checked only so that the modelled guard is the real one."""
    pts = sphere_points(ctx)
    g = {"kind": "clash", "elems": ["C", "C"], "resid": [0, 0], "nres": 1, "grid": GRID, "xyz": [[[0, 0, 0], [4, 0, 0]]],
         "probe": 0.14, "nsp": 7, "change": None, "sel": None}
    c = {k: g[k] for k in ("elems", "resid", "nres", "xyz", "grid", "probe", "nsp", "change", "sel")}
    c["mode"] = "atom"
    try:
        ctx.run_impl("sasa_impl.py", {"cases": [c]}, env={"OMP_NUM_THREADS": "1"})
        died = False
    except RuntimeError as e:
        died = "rc=1" in str(e)
    bad, errs = coq_check(ctx, pts, [(0.3, 7, coq_call(g, "atom"), [(0, "atom", "(inr 4%nat)" if died else "(inr 0%nat)")])], procs=1)
    ctx.count(case_of(g, "atom", "1"), nontrivial=False, bucket="clash-guard")
    if errs or bad:
        ctx.break_("correspondence:sasa-model[clash guard]", "implementation %s on atoms 4e-6 nm apart, model disagrees %s"
                   % ("exits with status 1" if died else "does not exit", errs[:1]))


def correspond(ctx):
    clash_probe(ctx)
    groups = gen_calls(ctx)
    ctx.log("groups:", len(groups))
    r = run_groups(ctx, groups)
    if r is None:
        return
    res, analyses = r
    sentinel(ctx, groups, res, analyses)
    subset_and_frame_checks(ctx, groups, res)
    two_sphere_checks(ctx)
    spiral_api_checks(ctx)
    python_layer_checks(ctx)
    history_checks(ctx)


def search(ctx, broken):
    # correspond already runs the float64 evaluation on every disagreement and the relations of the property on
    # every call; when the proofs broke but no failure was found there is nothing more to aim at.
    pass


def replay(ctx, rec):
    c = rec["case"]
    if c.get("kind") == "history":
        case = {k: c[k] for k in ("kind", "elems", "resid", "nres", "xyz", "grid", "steps")}
        # rebuild the state at every call from the recorded steps
        state = {"elems": list(c["elems"]), "resid": list(c["resid"]), "nres": c["nres"], "xyz": [[list(a) for a in fr] for fr in c["xyz"]]}
        states = []
        for st in c["steps"]:
            if st["op"] == "call":
                states.append({"elems": list(state["elems"]), "resid": list(state["resid"]), "nres": state["nres"],
                               "xyz": [[list(a) for a in fr] for fr in state["xyz"]], "grid": GRID, "probe": st["probe"], "nsp": st["nsp"],
                               "change": st["change"], "sel": st["sel"], "mode": st["mode"], "kind": "history-call"})
            elif st["op"] == "set_element":
                state["elems"][st["atom"]] = st["sym"]
            elif st["op"] == "move_atom":
                state["resid"][st["atom"]] = st["res"]
            elif st["op"] == "add_atom":
                state["elems"].append(st["sym"])
                state["resid"].append(st["res"])
                for f, fr in enumerate(state["xyz"]):
                    fr.append(list(st["xyz"][f]))
            elif st["op"] == "delete_atom":
                del state["elems"][st["atom"]]
                del state["resid"][st["atom"]]
                for fr in state["xyz"]:
                    del fr[st["atom"]]
        run_histories(ctx, [(case, states)])
        return
    g = {k: c[k] for k in ("kind", "elems", "resid", "nres", "xyz", "grid", "probe", "nsp", "change", "sel")}
    r = run_groups(ctx, [g])
    if r is None:
        return
    res, analyses = r
    sentinel(ctx, [g], res, analyses)
    subset_and_frame_checks(ctx, [g], res)
