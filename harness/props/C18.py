"""C18 — an open trajectory file behaves as a cursor over its frames.

Model: coq/Cursor/Model.v (reader families), theorems coq/Props/C18.v.
Tie: every op history is run on real files of every seekable format and (a) compared inside
coqc with the abstract cursor (the property) and (b) with the reader-family model assigned to that
format (the correspondence).  A deviation from the abstract cursor that the recorded defective
variant (nc_cur / trr_cur) predicts exactly is the known finding; anything else is a violation.
"""
import itertools

from common import cz, clist, cnat

LEVEL = "proof"
THEOREMS = "Props/C18.v"
EXTS = ["xtc", "trr", "dcd", "dtr"]
RULE = ("op histories over {read(n), read(), seek(k), seek(d,1), tell, len} on two handles; in-range stream is "
        "generated against the abstract position, over-read stream adds reads past the end; a case is "
        "non-trivial when it contains a read and a seek or tell; distinct by hash of (format,T,ops,atom_indices)")
TRUSTED = ["harness/impl/cursor_impl.py (writes the files, maps frames to identifiers)",
           "generator harness/props/C18.py; comparison is done by vm_compute inside coqc"]
ASSUMPTIONS = ["frames are identified by xyz[i,0,0]; files have T<100 frames so TRR/XTC read() uses one read-ahead chunk",
               "two handles on one file are modelled as a product state; OS-level sharing is covered only by the runs"]

SPEC = 6
# format -> (acceptable model variants: repaired first, then as-found), has_len, seekable
FORMATS = {
    "dcd0.dcd": ([1], True, True),
    "xyznonl.xyz": ([1], True, True),   # .xyz whose last line has no final newline
    "dcdfix.dcd": ([1], True, True),    # CHARMM DCD with fixed atoms (hand-written; mdtraj cannot write one)   # DCD with NSET = 0 in its header (length from the file size)
    "h5": ([0], True, True), "xtc": ([2], True, True), "trr": ([6, 5], True, True), "dcd": ([1], True, True),
    "nc": ([4, 3], True, True), "mdcrd": ([1], False, True), "xyz": ([1], True, True),
    "lammpstrj": ([1], False, True), "dtr": ([1], True, True), "arc": ([1], False, False),
}
VNAME = {0: "arr(h5)", 1: "seq", 2: "xdr(xtc)", 3: "nc_cur", 4: "nc_fix", 5: "trr_cur", 6: "spec"}


def gen_history(rng, T, length, fmt, overread):
    has_len, seekable = FORMATS[fmt][1], FORMATS[fmt][2]
    pos = [0, 0]
    ops = []
    for _ in range(length):
        h = 0 if rng.random() < 0.7 else 1
        p = pos[h]
        choices = ["read", "read", "readall"]
        if seekable:
            choices += ["seek", "seekrel", "tell", "tell"]
            if has_len:
                choices.append("len")
        k = rng.choice(choices)
        if k == "read":
            if overread and rng.random() < 0.4:
                n = rng.randint(max(1, T - p + 1), T + 3)
                ops.append([h, "read", n])
                pos[h] = min(p + n, T)
            elif p < T:
                n = rng.randint(1, T - p) if rng.random() < 0.6 else 1
                ops.append([h, "read", n])
                pos[h] = p + n
            else:
                continue
        elif k == "readall":
            ops.append([h, "readall", None])
            pos[h] = T
        elif k == "seek":
            kk = rng.randrange(T)
            ops.append([h, "seek", kk])
            pos[h] = kk
        elif k == "seekrel":
            q = rng.randrange(T)
            ops.append([h, "seekrel", q - p])
            pos[h] = q
        else:
            ops.append([h, k, None])
    return ops


def exhaustive_histories(T, length, fmt):
    has_len = FORMATS[fmt][1]
    alphabet = [("read", 1), ("read", 2), ("readall", None), ("seek", 0), ("seek", T - 1), ("seekrel", -1),
                ("seekrel", 1), ("tell", None)] + ([("len", None)] if has_len else [])
    for seq in itertools.product(alphabet, repeat=length):
        p, ok, ops = 0, True, []
        for op, arg in seq:
            if op == "read":
                if p + arg > T:
                    ok = False
                    break
                p += arg
            elif op == "readall":
                p = T
            elif op == "seek":
                if not (0 <= arg < T):
                    ok = False
                    break
                p = arg
            elif op == "seekrel":
                if not (0 <= p + arg < T):
                    ok = False
                    break
                p += arg
            ops.append([0, op, arg])
        if ok:
            yield ops


def coq_op(o):
    h, op, arg = o
    t = {"read": "Read %s" % cnat(arg or 0), "readall": "ReadAll", "seek": "Seek %s" % cnat(arg or 0),
         "seekrel": "SeekRel %s" % cz(arg or 0), "tell": "Tell", "len": "Len"}[op]
    return "(%s, %s)" % ("true" if h else "false", t)


def coq_out(x):
    if "frames" in x:
        return "Frames " + clist([cnat(i if i >= 0 else 424242) for i in x["frames"]])
    if "pos" in x:
        return "Pos %s" % cnat(x["pos"])
    if "ok" in x:
        return "Done"
    return "Err"


def nontrivial(ops):
    kinds = {o[1] for o in ops}
    return bool(kinds & {"read", "readall"}) and bool(kinds & {"seek", "seekrel", "tell"})


def build_cases(ctx):
    rng = ctx.rng
    quick = ctx.tier == "quick"
    cases = []
    for fmt in FORMATS:
        for T in ([1, 5, 9] if quick else [1, 2, 5, 9, 17]):
            nrand = 14 if quick else 120
            for i in range(nrand):
                L = rng.randint(2, 12)
                over = (i % 3 == 2)
                ai = None
                if i % 4 == 3:
                    ai = sorted(rng.sample(range(4), rng.randint(1, 3)))
                if ai is not None and fmt == "dcdfix.dcd" and 0 not in ai:
                    ai = [0] + ai   # frames are identified through a free atom (atom 0); atoms 2, 3 are fixed
                ops = gen_history(rng, T, L, fmt, over)
                if ops:
                    cases.append({"fmt": fmt, "T": T, "ops": ops, "handles": 2, "atom_indices": ai,
                                  "stream": "overread" if over else "inrange", "cell": (i % 2 == 0)})
        if FORMATS[fmt][2]:
            for T in ([5] if quick else [1, 5]):
                for L in ([1, 2] if quick else [1, 2, 3, 4]):
                    for ops in exhaustive_histories(T, L, fmt):
                        cases.append({"fmt": fmt, "T": T, "ops": ops, "handles": 2, "atom_indices": None,
                                      "stream": "inrange"})
    # fixed probes: the historical witnesses always run first
    for fmt in FORMATS:
        if FORMATS[fmt][2]:
            cases.insert(0, {"fmt": fmt, "T": 10, "ops": [[0, "seek", 3], [0, "readall", None], [0, "tell", None]],
                             "handles": 2, "atom_indices": None, "stream": "inrange"})
            cases.insert(0, {"fmt": fmt, "T": 10, "ops": [[0, "readall", None], [0, "tell", None], [0, "seekrel", -2],
                                                          [0, "read", 1], [0, "tell", None]],
                             "handles": 2, "atom_indices": None, "stream": "inrange"})
    return cases


def run_cases(ctx, cases, tie=True):
    res = ctx.run_impl("cursor_impl.py", {"n_atoms": 4, "formats": sorted({c["fmt"] for c in cases}),
                                          "cursor": cases, "load": []})
    outs = res["cursor"]
    # atom subset check (plain equality, no model needed)
    for c, o in zip(cases, outs):
        want = c["atom_indices"] if c["atom_indices"] is not None else [0, 1, 2, 3]
        for op, x in zip(c["ops"], o):
            if "frames" in x and x["frames"] and x["atoms"] != want:
                ctx.fail("%s: read(atom_indices=%s) returned atoms %s" % (c["fmt"], c["atom_indices"], x["atoms"]),
                         c, observed=x["atoms"], expected=want, tags={"fmt": c["fmt"], "kind": "atoms_wrong"})
    # model / spec comparison inside coqc
    jobs = []   # (case index, variant)
    coqcases = []
    for ci, (c, o) in enumerate(zip(cases, outs)):
        ops_t = clist([coq_op(x) for x in c["ops"]])
        exp_t = clist([coq_out(x) for x in o])
        for v in sorted(set(FORMATS[c["fmt"]][0] + [SPEC])):
            jobs.append((ci, v))
            coqcases.append(("(%s, %s, %s)" % (cnat(v), cnat(c["T"]), ops_t), exp_t))
    bad, errs = ctx.coq_mismatches(["MD.Cursor.Model"], ("nat * nat * list (bool * op)", "list out"),
                                   "outs_eqb", "run_case", coqcases)
    if errs:
        ctx.break_("correspondence:coqc-evaluation", "\n".join(errs))
        return
    badset = {jobs[i] for i in bad}
    # in-range double check of the generator by the Coq definition
    inr = [i for i, c in enumerate(cases) if c["stream"] == "inrange"]
    chk = [("(%s, %s, %s)" % (cnat(SPEC), cnat(cases[i]["T"]), clist([coq_op(x) for x in cases[i]["ops"]])), "true")
           for i in inr]
    bad2, errs2 = ctx.coq_mismatches(["MD.Cursor.Model"], ("nat * nat * list (bool * op)", "bool"), "Bool.eqb",
                                     "case_in_range", chk)
    if errs2 or bad2:
        ctx.break_("correspondence:generator-in-range", "cases not in range by Coq's definition: %s %s" % (bad2[:5], errs2))
    # 1. the tie: some acceptable variant of each format reproduces the implementation on ALL cases
    explained = {}
    for fmt, (variants, _hl, _sk) in FORMATS.items():
        idx = [i for i, c in enumerate(cases) if c["fmt"] == fmt]
        if not idx:
            continue
        agree = None
        for v in variants:
            if all((i, v) not in badset for i in idx):
                agree = v
                break
        explained[fmt] = agree
        if agree is None and tie:
            worst = min(variants, key=lambda v: sum((i, v) in badset for i in idx))
            ex = [i for i in idx if (i, worst) in badset]
            ex.sort(key=lambda i: len(cases[i]["ops"]))
            ctx.break_("correspondence:cursor-model[%s]" % fmt,
                       "no model variant %s reproduces the implementation; e.g. %s -> %s" % (
                           [VNAME[v] for v in variants], cases[ex[0]], outs[ex[0]]))
            ctx.notes.setdefault("tie_examples", []).append({"case": cases[ex[0]], "impl": outs[ex[0]]})
    ctx.notes.setdefault("coverage_extra", {})["model_variant_matching_impl"] = {
        f: (VNAME[v] if v is not None else None) for f, v in explained.items()}
    # 2. the property: implementation vs abstract cursor on the in-range stream
    for i, (c, o) in enumerate(zip(cases, outs)):
        ctx.count({"fmt": c["fmt"], "T": c["T"], "ops": c["ops"], "ai": c["atom_indices"], "cell": c.get("cell", True)},
                  nontrivial=nontrivial(c["ops"]), bucket="%s/%s/%s" % (c["fmt"], c["stream"], "cell" if c.get("cell", True) else "nocell"))
        if c["stream"] != "inrange":
            continue
        if (i, SPEC) in badset:
            fmt = c["fmt"]
            if not FORMATS[fmt][2]:
                continue
            v = explained.get(fmt)
            tags = {"fmt": fmt, "explained_by": VNAME[v] if v not in (None, SPEC) else None}
            ctx.fail("%s: file object deviates from the cursor contract (explained by %s)" % (fmt, tags["explained_by"]),
                     c, observed=o, expected="abstract cursor (Coq spec_run)", tags=tags)
    if not tie:
        return
    # 3. arc: listed as seekable by the property but seek/tell/len are not implemented
    probe = {"fmt": "arc", "T": 5, "ops": [[0, "read", 2], [0, "tell", None], [0, "seek", 0]], "handles": 1,
             "atom_indices": None}
    r = ctx.run_impl("cursor_impl.py", {"n_atoms": 4, "formats": ["arc"], "cursor": [probe], "load": []})["cursor"][0]
    if any("err" in x for x in r[1:]):
        ctx.fail("arc: seek/tell refuse (%s)" % [x.get("err") for x in r[1:]], probe, observed=r,
                 expected="position 2, then seek to 0", tags={"fmt": "arc", "kind": "refuses"})


def correspond(ctx):
    cases = build_cases(ctx)
    ctx.log("cases:", len(cases))
    run_cases(ctx, cases)


def search(ctx, broken):
    """A correspondence broke without an in-range counterexample in the main stream: aim a larger in-range
    stream (random histories + exhaustive length 3) at the formats whose model no longer matches and compare
    the implementation with the abstract cursor (the property itself)."""
    fmts = []
    for b in broken:
        if b["name"].startswith("correspondence:cursor-model["):
            fmts.append(b["name"].split("[")[1].rstrip("]"))
    if not fmts:
        fmts = [f for f in FORMATS if FORMATS[f][2]]
    cases = []
    for fmt in fmts:
        if not FORMATS[fmt][2]:
            continue
        for T in (5, 9, 12):
            for _ in range(150):
                ops = gen_history(ctx.rng, T, ctx.rng.randint(2, 10), fmt, False)
                if ops:
                    cases.append({"fmt": fmt, "T": T, "ops": ops, "handles": 2, "atom_indices": None,
                                  "stream": "inrange", "cell": bool(_ % 2)})
        for ops in exhaustive_histories(5, 3, fmt):
            cases.append({"fmt": fmt, "T": 5, "ops": ops, "handles": 2, "atom_indices": None, "stream": "inrange"})
    ctx.log("search: %d extra in-range histories on %s" % (len(cases), fmts))
    run_cases(ctx, cases, tie=False)


def replay(ctx, rec):
    c = rec["case"]
    c.setdefault("stream", "inrange")
    c.setdefault("atom_indices", None)
    run_cases(ctx, [c])
