"""C18 — an open trajectory file behaves as a cursor over its frames.

Model: coq/Cursor/Model.v (reader families), theorems coq/Props/C18.v.
Tie: every op history is run on real files of every seekable format and (a) compared inside
coqc with the abstract cursor (the property) and (b) with the reader-family model assigned to that
format (the correspondence).  A deviation from the abstract cursor that the recorded defective
variant (nc_cur / trr_cur) predicts exactly is the known finding; anything else is a violation.
"""
import itertools

from common import cz, clist, cnat

LEVEL = "proof"
THEOREMS = "Props/C18.v"
EXTRA_TARGETS = ("Gen/LoadReaders.vo", "Gen/CursorReaders.vo")
EXTS = ["xtc", "trr", "dcd", "dtr"]
RULE = ("op histories over {read(n), read(), seek(k), seek(d,1), tell, len} on two handles; in-range stream is "
        "generated against the abstract position, over-read stream adds reads past the end (both are compared with the "
        "abstract cursor: theorems cursor_refines_* / cursor_refines_ext_*); handles stream: one handle closed and re-opened "
        "mid-history, one handle read to EOF while the other seeks backwards, handles opened with different atom_indices "
        "(every handle / re-open epoch is compared with a fresh single-handle run of the model); big-file stream: a > 1 MiB trr (40 frames) and xtc (99 frames) of 3000 atoms "
        "of float noise, both handles open at once with interleaved reads and seeks (1 probe + 2 / 10 random histories each); "
        "three hand-written TRR variants whose frames carry velocity / force / both blocks run through every stream; "
        "path-reuse stream (every format): the path the handles are opened on held a different trajectory "
        "(other frame count, 7 instead of 4 atoms) that was opened and read in the same process (old handle closed and the file rewritten in place / closed and replaced by a new "
        "inode / still open while the file is replaced by a new inode: overwriting the bytes under an open handle is not done, what "
        "the old handle or the HDF5 library then sees is not mdtraj's business) before the path was written again; read-ahead stream: xtc and trr "
        "handles opened with min_chunk_size in {1,2,3,4} and chunk_size_multiplier at its minimum, so that read() loops over "
        "several chunks on 1..12-frame files (every history contains a read-to-end), compared with ChunkModel.run_case_ch "
        "(theorems xtc_read_ahead_loop_is_one_read, trr_current_characterised_any_file_any_chunk); a case is "
        "non-trivial when it contains a read and a seek or tell; distinct by hash of (format,T,ops,atom_indices)")
TRUSTED = ["harness/impl/cursor_impl.py (writes the files, maps frames to identifiers)",
           "generator harness/props/C18.py; comparison is done by vm_compute inside coqc"]
ASSUMPTIONS = ["frames are identified by xyz[i,0,0]; files have T<100 frames: with the default min_chunk_size (100) TRR/XTC read() uses one "
               "read-ahead chunk; the several-chunk loops are exercised through the min_chunk_size keyword of the file objects and "
               "are covered for every chunk function and file length by the ChunkProofs theorems; the dynamic chunk formula "
               "(approx_n_frames from the file size) is modelled as an arbitrary function of the reported counter, >= 1",
               "two handles on one file are modelled as a product state (theorem handles_independent is about that product "
               "only); what two OS-level handles on one file really share (buffers, offsets tables, re-opening) is "
               "exploration by the handles stream of the correspondence, not proof"]

SPEC = 6
# format -> (acceptable model variants: repaired first, then as-found), has_len, seekable
FORMATS = {
    "dcd4.dcd": ([1], True, True),     # CHARMM DCD with a 4th-dimension record in every frame (hand-made; mdtraj cannot write one)
    "dcd0.dcd": ([1], True, True),
    "xyznonl.xyz": ([1], True, True),   # .xyz whose last line has no final newline
    "dcdfix.dcd": ([1], True, True),    # CHARMM DCD with fixed atoms (hand-written; mdtraj cannot write one)   # DCD with NSET = 0 in its header (length from the file size)
    "h5": ([0], True, True), "xtc": ([2], True, True), "trr": ([6, 5], True, True), "dcd": ([1], True, True),
    # single-precision TRR files written by hand whose frames also carry velocity and / or force blocks (mdtraj's own
    # writer stores positions only); a reader that is not asked for them has to step over them
    "trrv.trr": ([6, 5], True, True), "trrf.trr": ([6, 5], True, True), "trrvf.trr": ([6, 5], True, True),
    "nc": ([4, 3], True, True), "mdcrd": ([1], False, True), "xyz": ([1], True, True),
    "lammpstrj": ([1], False, True), "dtr": ([1], True, True), "arc": ([1], False, False),
}
VNAME = {0: "arr(h5)", 1: "seq", 2: "xdr(xtc)", 3: "nc_cur", 4: "nc_fix", 5: "trr_cur", 6: "spec"}


# reader of coq/Gen/LoadReaders.v (translated from the Python source by harness/props/C02.py) behind each pure-Python format
READER_OF = {"h5": "hdf5", "nc": "netcdf", "mdcrd": "mdcrd", "xyz": "xyz", "xyznonl.xyz": "xyz", "lammpstrj": "lammpstrj",
             "arc": "arc"}


def translate(ctx):
    """per-run tie by translation: the reader terms extracted from hdf5.py / netcdf.py / mdcrd.py / xyzfile.py /
    lammpstrj.py / arc.py (read with stride 1, seek kind and arithmetic, tell) must be classified into the cursor
    family that FORMATS assigns to the format (Gen/CursorReaders.v, checked by computation; soundness of the
    classification: Props/C18.v reflected_reader_refines_cursor)."""
    import props.C02 as c02
    text, info = c02.build_gen()
    ctx.write_gen("Gen/LoadReaders.v", text)
    lines = ["(* GENERATED by harness/props/C18.py on every run. Do not edit. *)",
             "From Coq Require Import List Bool.", "Import ListNotations.",
             "Require Import MD.Load.Model MD.Load.Reflect MD.Load.CursorLink MD.Gen.LoadReaders.", ""]
    seen = set()
    for fmt, key in READER_OF.items():
        if key in seen:
            continue
        seen.add(key)
        variants, _hl, seekable = FORMATS[fmt]
        fam = variants[0] if seekable else 7
        lines.append("(* %s: FORMATS assigns %s *)" % (fmt, VNAME.get(fam, "sequential reads, seek/tell refuse")))
        lines.append("Lemma %s_cursor_family : cursor_family %s_reader = Some %d.\nProof. vm_compute. reflexivity. Qed." % (key, key, fam))
    ctx.write_gen("Gen/CursorReaders.v", "\n".join(lines) + "\n")
    ctx.notes.setdefault("coverage_extra", {})["translator"] = {
        "readers": sorted(seen), "degraded": info["degraded"], "reflection_lemmas_in_Gen": len(seen)}
    if info["degraded"]:
        ctx.notes["translator"] = "degraded: %s" % info["degraded"]
        ctx.log("translator degraded for", info["degraded"])


def gen_history(rng, T, length, fmt, overread):
    has_len, seekable = FORMATS[fmt][1], FORMATS[fmt][2]
    pos = [0, 0]
    ops = []
    for _ in range(length):
        h = 0 if rng.random() < 0.7 else 1
        p = pos[h]
        choices = ["read", "read", "readall"]
        if seekable:
            choices += ["seek", "seekrel", "tell", "tell"]
            if has_len:
                choices.append("len")
        k = rng.choice(choices)
        if k == "read":
            if overread and rng.random() < 0.4:
                n = rng.randint(max(1, T - p + 1), T + 3)
                ops.append([h, "read", n])
                pos[h] = min(p + n, T)
            elif p < T:
                n = rng.randint(1, T - p) if rng.random() < 0.6 else 1
                ops.append([h, "read", n])
                pos[h] = p + n
            else:
                continue
        elif k == "readall":
            ops.append([h, "readall", None])
            pos[h] = T
        elif k == "seek":
            kk = rng.randrange(T)
            ops.append([h, "seek", kk])
            pos[h] = kk
        elif k == "seekrel":
            q = rng.randrange(T)
            ops.append([h, "seekrel", q - p])
            pos[h] = q
        else:
            ops.append([h, k, None])
    return ops


def regen_positions(ops, T):
    """after inserting a read-to-end, drop the operations that are no longer inside the extended range"""
    pos = [0, 0]
    out = []
    for h, op, arg in ops:
        p = pos[h]
        if op == "read":
            pos[h] = min(p + arg, T)
        elif op == "readall":
            pos[h] = T
        elif op == "seek":
            pos[h] = arg
        elif op == "seekrel":
            if not (0 <= p + arg < T):
                continue
            pos[h] = p + arg
        out.append([h, op, arg])
    return out


def exhaustive_histories(T, length, fmt):
    has_len = FORMATS[fmt][1]
    alphabet = [("read", 1), ("read", 2), ("readall", None), ("seek", 0), ("seek", T - 1), ("seekrel", -1),
                ("seekrel", 1), ("tell", None)] + ([("len", None)] if has_len else [])
    for seq in itertools.product(alphabet, repeat=length):
        p, ok, ops = 0, True, []
        for op, arg in seq:
            if op == "read":
                if p + arg > T:
                    ok = False
                    break
                p += arg
            elif op == "readall":
                p = T
            elif op == "seek":
                if not (0 <= arg < T):
                    ok = False
                    break
                p = arg
            elif op == "seekrel":
                if not (0 <= p + arg < T):
                    ok = False
                    break
                p += arg
            ops.append([0, op, arg])
        if ok:
            yield ops


def coq_op(o):
    h, op, arg = o
    t = {"read": "Read %s" % cnat(arg or 0), "readall": "ReadAll", "seek": "Seek %s" % cnat(arg or 0),
         "seekrel": "SeekRel %s" % cz(arg or 0), "tell": "Tell", "len": "Len"}[op]
    return "(%s, %s)" % ("true" if h else "false", t)


def coq_out(x):
    if "frames" in x:
        return "Frames " + clist([cnat(i if i >= 0 else 424242) for i in x["frames"]])
    if "pos" in x:
        return "Pos %s" % cnat(x["pos"])
    if "ok" in x:
        return "Done"
    return "Err"


def nontrivial(ops):
    kinds = {o[1] for o in ops}
    return bool(kinds & {"read", "readall"}) and bool(kinds & {"seek", "seekrel", "tell"})


def build_cases(ctx):
    rng = ctx.rng
    quick = ctx.tier == "quick"
    cases = []
    for fmt in FORMATS:
        for T in ([1, 5, 9] if quick else [1, 2, 5, 9, 17]):
            nrand = 14 if quick else 120
            for i in range(nrand):
                L = rng.randint(2, 12)
                over = (i % 3 == 2)
                ai = None
                if i % 4 == 3:
                    ai = sorted(rng.sample(range(4), rng.randint(1, 3)))
                if ai is not None and i % 8 == 7:
                    # non-ascending selections, incl. permutations of a contiguous range ([0, 2, 1, 3], [2, 1], [3, 1, 2]):
                    # the atoms must come back in the order asked for
                    ai = rng.sample(range(4), rng.randint(2, 4))
                    if ai == sorted(ai):
                        ai = ai[::-1]
                if ai is not None and fmt == "dcdfix.dcd":
                    ai = [0] + [a for a in ai if a != 0]   # frames are identified through a free atom (atom 0), which must come first; atoms 2, 3 are fixed
                ops = gen_history(rng, T, L, fmt, over)
                if ops:
                    cases.append({"fmt": fmt, "T": T, "ops": ops, "handles": 2, "atom_indices": ai,
                                  "stream": "overread" if over else "inrange", "cell": (i % 2 == 0)})
        if FORMATS[fmt][2]:
            for T in ([5] if quick else [1, 5]):
                for L in ([1, 2] if quick else [1, 2, 3, 4]):
                    for ops in exhaustive_histories(T, L, fmt):
                        cases.append({"fmt": fmt, "T": T, "ops": ops, "handles": 2, "atom_indices": None,
                                      "stream": "inrange"})
        for T in ([6] if quick else [3, 6, 9]):
            cases += handle_cases(rng, fmt, T, quick)
    # read-ahead stream: xtc / trr handles opened with min_chunk_size = c (chunk_size_multiplier at its minimum), so that
    # read() loops over several chunks on small files; compared with ChunkModel.run_case_ch and the abstract cursor
    for fmt in ("xtc", "trr"):
        for T in ([5, 6] if quick else [1, 4, 5, 6, 9, 12]):
            for c in (1, 2, 3, 4):
                for i in range(5 if quick else 25):
                    ops = gen_history(rng, T, rng.randint(2, 10), fmt, i % 3 == 2)
                    if ops and not any(o[1] == "readall" for o in ops):
                        ops.insert(rng.randrange(len(ops) + 1), [0, "readall", None])
                        ops = regen_positions(ops, T)
                    if ops:
                        cases.append({"fmt": fmt, "T": T, "ops": ops, "handles": 2, "atom_indices": None, "chunk": c,
                                      "stream": "readahead", "cell": (i % 2 == 0)})
                cases.append({"fmt": fmt, "T": T, "ops": [[0, "readall", None], [0, "tell", None], [1, "seek", T // 2], [1, "readall", None],
                                                          [1, "tell", None], [0, "seek", 0], [0, "read", 1], [0, "tell", None]],
                              "handles": 2, "atom_indices": None, "chunk": c, "stream": "readahead", "cell": True})
    # path-reuse stream: the path the handles are opened on held a DIFFERENT trajectory before (other frame and atom counts),
    # which was opened and read in this process (handle closed, or still open, or the file replaced by a new inode)
    modes = ["closed", "closed-replace", "open-replace"]
    for fi, fmt in enumerate(FORMATS):
        seekable = FORMATS[fmt][2]
        for j in range(3 if quick else 12):
            T = [5, 6, 9][j % 3]
            ru = {"T0": [8, 3, 5][(j + fi) % 3], "n_atoms0": 7, "mode": modes[(j + fi) % 3]}
            if j % 3 == 0 and seekable:
                ops = [[0, "read", 4], [0, "seek", 1], [0, "read", 2], [0, "seekrel", -2], [0, "read", 1], [0, "tell", None],
                       [1, "read", 2], [1, "seek", 0], [1, "read", 1], [0, "seek", T - 1], [0, "read", 1], [1, "tell", None]]
            else:
                ops = gen_history(rng, T, rng.randint(4, 12), fmt, j % 2 == 1)
            if ops:
                cases.append({"fmt": fmt, "T": T, "ops": ops, "handles": 2, "atom_indices": None if j % 4 else [0, 2],
                              "stream": "pathreuse", "reuse": ru, "cell": True})
    # big-file stream: a file of more than 1 MiB (3000 atoms of float noise), both handles open at once, interleaved reads
    # and seeks (anything the handles of large files share below the file objects shows up here)
    for fmt, T in (("trr", 40), ("xtc", 99)):
        probe = [[0, "read", 3], [1, "seek", T // 2], [1, "read", 2], [0, "read", 2], [0, "tell", None], [1, "tell", None],
                 [1, "seek", 1], [1, "read", 2], [0, "read", 1], [1, "seekrel", -2], [0, "seek", T - 3], [1, "read", 1], [0, "readall", None],
                 [1, "read", 2], [0, "tell", None]]
        cases.append({"fmt": fmt, "T": T, "ops": probe, "handles": 2, "atom_indices": None, "stream": "bigfile", "big": 3000, "cell": True})
        for i in range(2 if quick else 10):
            ops = [o for o in gen_history(rng, T, rng.randint(6, 14), fmt, i % 2 == 1) if o[1] != "readall" or rng.random() < 0.3]
            ops = regen_positions(ops, T)      # dropping a read-to-end moves the positions: keep only what is still in range
            if ops:
                cases.append({"fmt": fmt, "T": T, "ops": ops, "handles": 2, "atom_indices": None if i % 2 == 0 else [0, 2, 2999],
                              "stream": "bigfile", "big": 3000, "cell": True})
    # atom_indices permutations: unsorted selections spanning a contiguous range, every format
    for fmt in FORMATS:
        for ai in ([0, 2, 1, 3], [0, 3, 2, 1], [0, 2, 1]):
            T = 5
            ops = [[0, "read", 2], [1, "readall", None], [0, "read", 1]] + ([[0, "tell", None], [0, "seek", 1], [0, "read", 3]] if FORMATS[fmt][2] else [])
            cases.append({"fmt": fmt, "T": T, "ops": ops, "handles": 2, "atom_indices": ai, "stream": "inrange", "cell": True})
    # fixed probes: the historical witnesses always run first
    for fmt in FORMATS:
        if FORMATS[fmt][2]:
            cases.insert(0, {"fmt": fmt, "T": 10, "ops": [[0, "seek", 3], [0, "readall", None], [0, "tell", None]],
                             "handles": 2, "atom_indices": None, "stream": "inrange"})
            cases.insert(0, {"fmt": fmt, "T": 10, "ops": [[0, "readall", None], [0, "tell", None], [0, "seekrel", -2],
                                                          [0, "read", 1], [0, "tell", None]],
                             "handles": 2, "atom_indices": None, "stream": "inrange"})
    return cases


def handle_cases(rng, fmt, T, quick):
    """what the product-state model cannot see: real handles on one file that are closed / re-opened mid-history,
    one handle read to EOF while the other seeks backwards, handles opened with different atom_indices"""
    seekable = FORMATS[fmt][2]
    out = []
    base = {"fmt": fmt, "T": T, "handles": 2, "atom_indices": None, "stream": "handles"}
    if seekable:
        out.append(dict(base, cell=True, ops=[[0, "read", 2], [0, "tell", None], [1, "read", 3], [0, "reopen", None], [0, "tell", None],
                                              [0, "read", 1], [1, "tell", None], [1, "readall", None], [0, "read", 2], [1, "reopen", None],
                                              [1, "read", 1], [0, "tell", None], [1, "tell", None]]))
        out.append(dict(base, cell=False, ops=[[0, "readall", None], [0, "tell", None], [1, "read", 3], [1, "seekrel", -2], [1, "read", 1],
                                               [1, "tell", None], [0, "read", 1], [0, "tell", None], [1, "seek", 0], [1, "read", 2],
                                               [0, "read", 2], [1, "seekrel", -1], [1, "read", 1], [1, "tell", None]]))
        ops = []
        pos = [0, 0]
        for _ in range(10 if quick else 16):
            h = rng.randrange(2)
            if rng.random() < 0.2:
                ops.append([h, "reopen", None])
                pos[h] = 0
            elif pos[h] < T and rng.random() < 0.6:
                n = rng.randint(1, T - pos[h])
                ops.append([h, "read", n])
                pos[h] += n
            else:
                q = rng.randrange(T)
                ops.append([h, "seek", q])
                pos[h] = q
            ops.append([h, "tell", None])
        out.append(dict(base, cell=True, ops=ops, atom_indices_h=[[0, 2], [0, 1, 3]]))
    else:
        out.append(dict(base, cell=True, ops=[[0, "read", 2], [1, "read", 1], [0, "reopen", None], [0, "read", 1], [1, "read", 2],
                                              [1, "reopen", None], [1, "readall", None], [0, "read", 2]]))
    return out


def segments(c, o):
    """(single- or two-handle history, outputs) pairs to compare with the model: an ordinary case is one two-handle
    history; a handles-stream case is one single-handle history per handle and re-open epoch, each started fresh"""
    if c.get("stream") != "handles":
        return [(c["ops"], o)]
    segs = {0: [([], [])], 1: [([], [])]}
    for (h, op, arg), x in zip(c["ops"], o):
        if op == "reopen":
            if "ok" not in x:
                segs[h][-1][0].append([0, "tell", None])      # make the failure visible as a mismatch
                segs[h][-1][1].append({"err": "reopen failed"})
            segs[h].append(([], []))
        else:
            segs[h][-1][0].append([0, op, arg])
            segs[h][-1][1].append(x)
    return [sg for h in (0, 1) for sg in segs[h] if sg[0]]


def run_cases(ctx, cases, tie=True):
    res = ctx.run_impl("cursor_impl.py", {"n_atoms": 4, "formats": sorted({c["fmt"] for c in cases}),
                                          "cursor": cases, "load": []})
    outs = res["cursor"]
    # atom subset check (plain equality, no model needed)
    for c, o in zip(cases, outs):
        nh = c.get("handles", 1)
        ais = c.get("atom_indices_h") or [c["atom_indices"]] * max(nh, 2)
        for op, x in zip(c["ops"], o):
            want = ais[op[0]] if ais[op[0]] is not None else [0, 1, 2, 3]       # (big files report their first four atoms)
            if "frames" in x and x["frames"] and x["atoms"] != want:
                ctx.fail("%s: read(atom_indices=%s) returned atoms %s" % (c["fmt"], ais[op[0]], x["atoms"]),
                         c, observed=x["atoms"], expected=want, tags={"fmt": c["fmt"], "kind": "atoms_wrong"})
    # model / spec comparison inside coqc
    jobs = []   # (case index, variant)
    coqcases = []
    rangechk = []
    cjobs, ccases = [], []          # read-ahead stream: evaluated with ChunkModel.run_case_ch
    for ci, (c, o) in enumerate(zip(cases, outs)):
        for ops, oo in segments(c, o):
            ops_t = clist([coq_op(x) for x in ops])
            exp_t = clist([coq_out(x) for x in oo])
            for v in sorted(set(FORMATS[c["fmt"]][0] + [SPEC])):
                if c.get("chunk") is not None:
                    cjobs.append((ci, v))
                    ccases.append(("(%s, %s, %s, %s)" % (cnat(v), cnat(c["chunk"]), cnat(c["T"]), ops_t), exp_t))
                else:
                    jobs.append((ci, v))
                    coqcases.append(("(%s, %s, %s)" % (cnat(v), cnat(c["T"]), ops_t), exp_t))
            rangechk.append((ci, "(%s, %s, %s)" % (cnat(SPEC), cnat(c["T"]), ops_t)))
    bad, errs = ctx.coq_mismatches(["MD.Cursor.Model"], ("nat * nat * list (bool * op)", "list out"),
                                   "outs_eqb", "run_case", coqcases)
    badc, errsc = ([], [])
    if ccases:
        badc, errsc = ctx.coq_mismatches(["MD.Cursor.Model", "MD.Cursor.ChunkModel"], ("nat * nat * nat * list (bool * op)", "list out"),
                                         "outs_eqb", "run_case_ch", ccases)
    if errs or errsc:
        ctx.break_("correspondence:coqc-evaluation", "\n".join(errs + errsc))
        return
    badset = {jobs[i] for i in bad} | {cjobs[i] for i in badc}
    # double check of the generator by the Coq definitions: in-range stream in range, every stream in the extended range
    inr = [(ci, t) for ci, t in rangechk if cases[ci]["stream"] == "inrange"]
    
    bad2, errs2 = ctx.coq_mismatches(["MD.Cursor.Model"], ("nat * nat * list (bool * op)", "bool"), "Bool.eqb",
                                     "case_in_range", [(t, "true") for _ci, t in inr])
    if errs2 or bad2:
        ctx.break_("correspondence:generator-in-range", "cases not in range by Coq's definition: %s %s" % (bad2[:5], errs2))
    seek_fmts = [(ci, t) for ci, t in rangechk if FORMATS[cases[ci]["fmt"]][2]]
    bad3, errs3 = ctx.coq_mismatches(["MD.Cursor.Model", "MD.Cursor.Extended"], ("nat * nat * list (bool * op)", "bool"),
                                     "Bool.eqb", "case_ext_range", [(t, "true") for _ci, t in seek_fmts])
    if errs3 or bad3:
        ctx.break_("correspondence:generator-ext-range", "cases not in the extended range by Coq's definition: %s %s"
                   % ([cases[seek_fmts[i][0]] for i in bad3[:2]], errs3))
    # 1. the tie: some acceptable variant of each format reproduces the implementation on ALL cases
    explained = {}
    for fmt, (variants, _hl, _sk) in FORMATS.items():
        idx = [i for i, c in enumerate(cases) if c["fmt"] == fmt]
        if not idx:
            continue
        agree = None
        for v in variants:
            if all((i, v) not in badset for i in idx):
                agree = v
                break
        explained[fmt] = agree
        if agree is None and tie:
            worst = min(variants, key=lambda v: sum((i, v) in badset for i in idx))
            ex = [i for i in idx if (i, worst) in badset]
            ex.sort(key=lambda i: len(cases[i]["ops"]))
            ctx.break_("correspondence:cursor-model[%s]" % fmt,
                       "no model variant %s reproduces the implementation; e.g. %s -> %s" % (
                           [VNAME[v] for v in variants], cases[ex[0]], outs[ex[0]]))
            ctx.notes.setdefault("tie_examples", []).append({"case": cases[ex[0]], "impl": outs[ex[0]]})
    ctx.notes.setdefault("coverage_extra", {})["model_variant_matching_impl"] = {
        f: (VNAME[v] if v is not None else None) for f, v in explained.items()}
    # 2. the property: implementation vs abstract cursor, on every stream (in-range: cursor_refines_*; over-reads and
    #    reads at the end of the file: cursor_refines_ext_*; handles: per handle and re-open epoch)
    for i, (c, o) in enumerate(zip(cases, outs)):
        ctx.count({"fmt": c["fmt"], "T": c["T"], "ops": c["ops"], "ai": c.get("atom_indices_h") or c["atom_indices"],
                   "cell": c.get("cell", True)},
                  nontrivial=nontrivial(c["ops"]), bucket="%s/%s/%s" % (c["fmt"], c["stream"], "cell" if c.get("cell", True) else "nocell"))
        if (i, SPEC) in badset:
            fmt = c["fmt"]
            if not FORMATS[fmt][2]:
                continue
            v = explained.get(fmt)
            who = VNAME[v] if v not in (None, SPEC) else None
            if who is None:
                # per case: the as-found variant that reproduces THIS case (so that a replay gives the same verdict)
                for v2 in FORMATS[fmt][0]:
                    if v2 != SPEC and (i, v2) not in badset:
                        who = VNAME[v2]
                        break
            # the hand-written TRR variants are read by the same reader as "trr": same defect, same finding
            tags = {"fmt": "trr" if fmt in ("trrv.trr", "trrf.trr", "trrvf.trr") else fmt, "file": fmt, "explained_by": who, "stream": c["stream"]}
            ctx.fail("%s: file object deviates from the cursor contract (%s stream, explained by %s)" % (fmt, c["stream"], who),
                     c, observed=o, expected="abstract cursor (Coq spec_run)", tags=tags)
    if not tie:
        return
    # 3. arc: listed as seekable by the property but seek/tell/len are not implemented
    probe = {"fmt": "arc", "T": 5, "ops": [[0, "read", 2], [0, "tell", None], [0, "seek", 0]], "handles": 1,
             "atom_indices": None}
    r = ctx.run_impl("cursor_impl.py", {"n_atoms": 4, "formats": ["arc"], "cursor": [probe], "load": []})["cursor"][0]
    if any("err" in x for x in r[1:]):
        ctx.fail("arc: seek/tell refuse (%s)" % [x.get("err") for x in r[1:]], probe, observed=r,
                 expected="position 2, then seek to 0", tags={"fmt": "arc", "kind": "refuses"})


def correspond(ctx):
    cases = build_cases(ctx)
    ctx.log("cases:", len(cases))
    run_cases(ctx, cases)


def search(ctx, broken):
    """A correspondence broke without an in-range counterexample in the main stream: aim a larger in-range
    stream (random histories + exhaustive length 3) at the formats whose model no longer matches and compare
    the implementation with the abstract cursor (the property itself)."""
    fmts = []
    for b in broken:
        if b["name"].startswith("correspondence:cursor-model["):
            fmts.append(b["name"].split("[")[1].rstrip("]"))
    if not fmts:
        fmts = [f for f in FORMATS if FORMATS[f][2]]
    cases = []
    for fmt in fmts:
        if not FORMATS[fmt][2]:
            continue
        for T in (5, 9, 12):
            for _ in range(150):
                ops = gen_history(ctx.rng, T, ctx.rng.randint(2, 10), fmt, False)
                if ops:
                    cases.append({"fmt": fmt, "T": T, "ops": ops, "handles": 2, "atom_indices": None,
                                  "stream": "inrange", "cell": bool(_ % 2)})
        for ops in exhaustive_histories(5, 3, fmt):
            cases.append({"fmt": fmt, "T": 5, "ops": ops, "handles": 2, "atom_indices": None, "stream": "inrange"})
    ctx.log("search: %d extra in-range histories on %s" % (len(cases), fmts))
    run_cases(ctx, cases, tie=False)


def replay(ctx, rec):
    c = rec["case"]
    c.setdefault("stream", "inrange")
    c.setdefault("atom_indices", None)
    run_cases(ctx, [c])
