"""C16 — derived descriptors equal their defining formulas; index bookkeeping matches the labels.

Model    : coq/Desc/*Model.v (contacts bookkeeping, centre/Rg/gyration algebra, RDF bins and shells,
           DRID partners and online moments, Karplus) + coq/Gen/DescTables.v, coq/Gen/DescFormulas.v
           (regenerated from /repo on every run by translate()).
Theorems : coq/Props/C16.v.
Tie      : (a) translator: tables (protein residue names, side-chain name set, Karplus coefficients) and
           straight-line formula blocks (moments.cpp:moments_push, _J3_function, RDF shell volume / norm /
           bin centres / n_bins, density, shape descriptors) are re-read from the source text and the theorems
           are re-proved about them; (b) correspondence: generated topologies/coordinates are run through the
           public functions and compared inside coqc with the model (exactly for discrete observables, with a
           stated rational tolerance for float64 magnitudes); (c) float64 oracle (closed forms) in Python for
           the transcendental reductions (soft-min, DRID reciprocal distances, Karplus cosine).
"""
import ast
import json
import math
import os
import re
from fractions import Fraction

from common import REPO, cz, cnat, cbool, clist, cstr, copt

LEVEL = "proof"
THEOREMS = "Props/C16.v"
EXTRA_TARGETS = ()
EXTS = ["_geometry", "drid"]


# =====================================================================================
# translator (T1 tables + T2 straight-line formulas)
# =====================================================================================
class Untranslatable(Exception):
    pass


def _src(rel):
    with open(os.path.join(REPO, rel)) as fh:
        return fh.read()


def qlit(fr):
    fr = Fraction(fr)
    return "(Qmake (%d) %d)" % (fr.numerator, fr.denominator)


def _const_fraction(node, text):
    """exact value of a numeric literal, from its source spelling (3.71 means 371/100)."""
    seg = ast.get_source_segment(text, node)
    if isinstance(node.value, bool) or not isinstance(node.value, (int, float)):
        raise Untranslatable("non-numeric constant %r" % (seg,))
    try:
        return Fraction(seg.replace("_", ""))
    except (ValueError, ZeroDivisionError):
        raise Untranslatable("constant %r" % seg)


def py_to_q(node, text, atoms):
    """Python arithmetic expression -> Coq term over Q.  `atoms` maps the unparsed text of a
    sub-expression to a Coq variable; anything else outside + - * / ** (small integer exponent),
    unary minus and numeric literals aborts the translation."""
    key = ast.unparse(node)
    if key in atoms:
        return atoms[key]
    if isinstance(node, ast.Constant):
        return qlit(_const_fraction(node, text))
    if isinstance(node, ast.UnaryOp) and isinstance(node.op, (ast.USub, ast.UAdd)):
        inner = py_to_q(node.operand, text, atoms)
        return "(- %s)" % inner if isinstance(node.op, ast.USub) else inner
    if isinstance(node, ast.BinOp):
        if isinstance(node.op, ast.Pow):
            if not isinstance(node.right, ast.Constant):
                raise Untranslatable("exponent " + key)
            e = _const_fraction(node.right, text)
            if e.denominator != 1 or not (0 <= e.numerator <= 4):
                raise Untranslatable("exponent " + key)
            return "(%s ^ %d)" % (py_to_q(node.left, text, atoms), e.numerator)
        ops = {ast.Add: "+", ast.Sub: "-", ast.Mult: "*", ast.Div: "/"}
        for k, sym in ops.items():
            if isinstance(node.op, k):
                return "(%s %s %s)" % (py_to_q(node.left, text, atoms), sym, py_to_q(node.right, text, atoms))
    raise Untranslatable("expression outside the grammar: " + key)


def _find_func(tree, name):
    for n in ast.walk(tree):
        if isinstance(n, ast.FunctionDef) and n.name == name:
            return n
    raise Untranslatable("function %s not found" % name)


def _find_assign(fn, target):
    """value node of the unique assignment `target = ...` in fn (by unparsed target text)."""
    hits = [n for n in ast.walk(fn) if isinstance(n, ast.Assign) and len(n.targets) == 1
            and ast.unparse(n.targets[0]) == target]
    if len(hits) != 1:
        raise Untranslatable("expected exactly one assignment to %s, found %d" % (target, len(hits)))
    return hits[0].value


# ---- tiny C expression parser for moments.cpp ---------------------------------------
_CTOK = re.compile(r"\s*(self->_\w+|[A-Za-z_]\w*|\d+\.\d*|\.\d+|\d+|[-+*/()])")


def _ctokens(s):
    pos, out = 0, []
    s = s.strip()
    while pos < len(s):
        m = _CTOK.match(s, pos)
        if not m:
            raise Untranslatable("C token at %r" % s[pos:pos + 20])
        out.append(m.group(1))
        pos = m.end()
    return out


def c_to_q(expr, env):
    toks = _ctokens(expr)
    i = [0]

    def peek():
        return toks[i[0]] if i[0] < len(toks) else None

    def eat():
        t = toks[i[0]]
        i[0] += 1
        return t

    def atom():
        t = eat()
        if t == "(":
            r = add()
            if eat() != ")":
                raise Untranslatable("paren in %r" % expr)
            return r
        if t == "-":
            return "(- %s)" % atom()
        if re.match(r"^(\d+\.\d*|\.\d+|\d+)$", t):
            return qlit(Fraction(t))
        if t in env:
            return env[t]
        raise Untranslatable("unknown C identifier %r in %r" % (t, expr))

    def mul():
        r = atom()
        while peek() in ("*", "/"):
            o = eat()
            r = "(%s %s %s)" % (r, o, atom())
        return r

    def add():
        r = mul()
        while peek() in ("+", "-"):
            o = eat()
            r = "(%s %s %s)" % (r, o, mul())
        return r

    r = add()
    if i[0] != len(toks):
        raise Untranslatable("trailing tokens in %r" % expr)
    return r


def translate_moments(text):
    """moments.cpp: moments_push as a let-chain over Q (field versions follow program order),
    and the three accessors."""
    text = re.sub(r"/\*.*?\*/", "", text, flags=re.S)
    text = re.sub(r"//[^\n]*", "", text)
    m = re.search(r"void\s+moments_push\s*\(\s*moments_t\s*\*\s*self\s*,\s*double\s+x\s*\)\s*\{(.*?)\n\}", text, re.S)
    if not m:
        raise Untranslatable("moments_push not found")
    stmts = [s.strip() for s in m.group(1).split(";") if s.strip()]
    env = {"x": "x", "self->_n": "n", "self->_u": "u", "self->_M2": "m2", "self->_M3": "m3"}
    ver = {}
    lets = []
    for s in stmts:
        if re.match(r"^(int|double)\s+[\w\s,]+$", s):
            continue
        mm = re.match(r"^(self->_\w+|[A-Za-z_]\w*)\s*(\+=|-=|=)\s*(.+)$", s, re.S)
        if not mm:
            raise Untranslatable("statement %r" % s)
        lhs, op, rhs = mm.group(1), mm.group(2), " ".join(mm.group(3).split())
        val = c_to_q(rhs, env)
        if op in ("+=", "-="):
            if lhs not in env:
                raise Untranslatable("update of unknown %s" % lhs)
            val = "(%s %s %s)" % (env[lhs], op[0], val)
        base = lhs.replace("self->_", "f_").lower()
        ver[base] = ver.get(base, 0) + 1
        name = "%s_%d" % (base, ver[base])
        lets.append("  let %s := %s in" % (name, val))
        env[lhs] = name
    out = ["(* mdtraj/geometry/src/moments.cpp: moments_push; state (n, u, M2, M3), n as a rational *)",
           "Definition moments_push (s : Q * Q * Q * Q) (x : Q) : Q * Q * Q * Q :=",
           "  let '(n, u, m2, m3) := s in"] + lets + [
        "  (%s, %s, %s, %s)." % (env["self->_n"], env["self->_u"], env["self->_M2"], env["self->_M3"])]
    # accessors
    for fn, nm in (("moments_mean", "moments_mean"), ("moments_second", "moments_second"),
                   ("moments_third", "moments_third")):
        mm = re.search(r"double\s+%s\s*\(\s*moments_t\s*\*\s*self\s*\)\s*\{\s*return\s+(.*?);\s*\}" % fn, text, re.S)
        if not mm:
            raise Untranslatable(fn)
        e = c_to_q(mm.group(1), {"self->_n": "n", "self->_u": "u", "self->_M2": "m2", "self->_M3": "m3"})
        out.append("Definition %s (s : Q * Q * Q * Q) : Q := let '(n, u, m2, m3) := s in %s." % (nm, e))
    mm = re.search(r"void\s+moments_clear\s*\(\s*moments_t\s*\*\s*self\s*\)\s*\{(.*?)\n\}", text, re.S)
    if not mm:
        raise Untranslatable("moments_clear")
    init = {}
    for s in [s.strip() for s in mm.group(1).split(";") if s.strip()]:
        m2 = re.match(r"^self->_(\w+)\s*=\s*([\d.]+)$", s)
        if not m2:
            raise Untranslatable("moments_clear statement %r" % s)
        init[m2.group(1)] = Fraction(m2.group(2))
    out.append("Definition moments_init : Q * Q * Q * Q := (%s, %s, %s, %s)." % tuple(
        qlit(init[k]) for k in ("n", "u", "M2", "M3")))
    return "\n".join(out)


def _rdf_nbins(text, fn):
    hits = [n for n in ast.walk(fn) if isinstance(n, ast.Assign) and len(n.targets) == 1
            and ast.unparse(n.targets[0]) == "n_bins"]
    for h in hits:
        v = h.value
        if isinstance(v, ast.Call) and ast.unparse(v.func) == "int" and len(v.args) == 1 and \
                not isinstance(v.args[0], ast.Name):
            return py_to_q(v.args[0], text, {"r_range[1]": "r1", "r_range[0]": "r0", "bin_width": "bw"})
    raise Untranslatable("n_bins = int(<expr>) not found")


def build_formulas():
    parts = ["(* GENERATED by harness/props/C16.py:translate from /repo -- do not edit. *)",
             "From Coq Require Import QArith.", "Open Scope Q_scope.", ""]
    # --- Karplus
    text = _src("mdtraj/nmr/scalar_couplings.py")
    tree = ast.parse(text)
    fn = _find_func(tree, "_J3_function")
    rets = [n for n in fn.body if isinstance(n, ast.Return)]
    if len(rets) != 1:
        raise Untranslatable("_J3_function body")
    e = py_to_q(rets[0].value, text, {"A": "A", "B": "B", "C": "C", "np.cos(phi + phi0)": "c"})
    parts += ["(* mdtraj/nmr/scalar_couplings.py:_J3_function with c := cos(phi + phi0) *)",
              "Definition j3_function (A B C c : Q) : Q := %s." % e, ""]
    # --- RDF
    text = _src("mdtraj/geometry/rdf.py")
    tree = ast.parse(text)
    for fname, pre in (("compute_rdf", "rdf"),):
        fn = _find_func(tree, fname)
        at = {"np.pi": "pi", "np.power(edges[1:], 3)": "(hi ^ 3)", "np.power(edges[:-1], 3)": "(lo ^ 3)",
              "edges[1:]": "hi", "edges[:-1]": "lo"}
        v = py_to_q(_find_assign(fn, "V"), text, at)
        r = py_to_q(_find_assign(fn, "r"), text, at)
        norm = py_to_q(_find_assign(fn, "norm"), text,
                       {"len(pairs)": "npairs", "np.sum(1.0 / traj.unitcell_volumes)": "sum_inv_vol", "V": "V"})
        nb = _rdf_nbins(text, fn)
        parts += ["(* mdtraj/geometry/rdf.py:%s *)" % fname,
                  "Definition %s_shell_volume (pi lo hi : Q) : Q := %s." % (pre, v),
                  "Definition %s_bin_centre (lo hi : Q) : Q := %s." % (pre, r),
                  "Definition %s_norm (npairs sum_inv_vol V : Q) : Q := %s." % (pre, norm),
                  "(* n_bins = int(<this>) when n_bins is not given *)",
                  "Definition %s_nbins_quotient (r0 r1 bw : Q) : Q := %s." % (pre, nb), ""]
    # --- density
    text = _src("mdtraj/geometry/thermodynamic_properties.py")
    tree = ast.parse(text)
    fn = _find_func(tree, "density")
    conv = _find_assign(fn, "conversion")
    if not isinstance(conv, ast.Constant):
        raise Untranslatable("density conversion")
    hits = [n for n in ast.walk(fn) if isinstance(n, ast.Assign) and ast.unparse(n.targets[0]) == "densities"]
    if len(hits) != 2:
        raise Untranslatable("density: expected two assignments to densities")
    d1 = py_to_q(hits[0].value, text, {"mass": "mass", "volume_trace": "volume"})
    d2 = py_to_q(hits[1].value, text, {"densities": "(%s)" % d1, "conversion": "density_conversion"})
    parts += ["(* mdtraj/geometry/thermodynamic_properties.py:density *)",
              "Definition density_conversion : Q := %s." % qlit(_const_fraction(conv, text)),
              "Definition density_formula (mass volume : Q) : Q := %s." % d2, ""]
    # --- shape descriptors as functions of the principal moments pm[:,0] <= pm[:,1] <= pm[:,2]
    text = _src("mdtraj/geometry/shape.py")
    tree = ast.parse(text)
    at = {"pm[:, 0]": "l0", "pm[:, 1]": "l1", "pm[:, 2]": "l2",
          "np.square(pm).sum(axis=1)": "(l0 ^ 2 + l1 ^ 2 + l2 ^ 2)",
          "np.square(pm.sum(axis=1))": "((l0 + l1 + l2) ^ 2)"}
    b = py_to_q(_find_assign(_find_func(tree, "asphericity"), "b"), text, at)
    c = py_to_q(_find_assign(_find_func(tree, "acylindricity"), "c"), text, at)
    k = py_to_q(_find_assign(_find_func(tree, "relative_shape_anisotropy"), "kappa2"), text, at)
    gt = _find_func(tree, "compute_gyration_tensor")
    rets = [n for n in gt.body if isinstance(n, ast.Return)]
    if len(rets) != 1 or ast.unparse(rets[0].value) != "np.einsum('...ji,...jk->...ik', xyz, xyz) / traj.n_atoms":
        raise Untranslatable("compute_gyration_tensor return expression changed")
    parts += ["(* mdtraj/geometry/shape.py: descriptors as functions of the ascending principal moments *)",
              "Definition shape_asphericity (l0 l1 l2 : Q) : Q := %s." % b,
              "Definition shape_acylindricity (l0 l1 l2 : Q) : Q := %s." % c,
              "Definition shape_kappa2 (l0 l1 l2 : Q) : Q := %s." % k, ""]
    # --- moments.cpp
    parts += [translate_moments(_src("mdtraj/geometry/src/moments.cpp")), ""]
    return "\n".join(parts) + "\n"


def _karplus_tables(text):
    tree = ast.parse(text)
    out = []
    for tbl in ("J3_HN_HA_coefficients", "J3_HN_C_coefficients", "J3_HN_CB_coefficients"):
        val = None
        for n in tree.body:
            if isinstance(n, ast.Assign) and ast.unparse(n.targets[0]) == tbl:
                val = n.value
        if not isinstance(val, ast.Dict):
            raise Untranslatable(tbl)
        rows = []
        for k, v in zip(val.keys, val.values):
            if not (isinstance(v, ast.Call) and ast.unparse(v.func) == "dict"):
                raise Untranslatable("%s[%s]" % (tbl, ast.unparse(k)))
            kw = {a.arg: a.value for a in v.keywords}
            if set(kw) != {"phi0", "A", "B", "C"}:
                raise Untranslatable("%s keys %s" % (tbl, sorted(kw)))
            # phi0 = <deg> * np.pi / 180.0
            deg = py_to_q(kw["phi0"], text, {"np.pi": "(Qmake 1 1)"})
            fr = {}
            for nm in "ABC":
                fr[nm] = py_to_q(kw[nm], text, {})
            rows.append("(%s, (%s * (180 # 1), %s, %s, %s))" % (cstr(k.value), deg, fr["A"], fr["B"], fr["C"]))
        out.append("(* (model name, (phi0 in degrees, A, B, C)) *)\nDefinition %s : list (string * (Q * Q * Q * Q)) :=\n  [%s]." % (
            tbl, ";\n   ".join(rows)))
    return out


def build_tables():
    parts = ["(* GENERATED by harness/props/C16.py:translate from /repo -- do not edit. *)",
             "From Coq Require Import QArith String List.", "Import ListNotations.", "Open Scope string_scope.", ""]
    # protein residue names
    text = _src("mdtraj/core/residue_names.py")
    tree = ast.parse(text)
    codes = None
    prot_ok = False
    for n in tree.body:
        if isinstance(n, ast.Assign) and ast.unparse(n.targets[0]) == "_AMINO_ACID_CODES":
            codes = n.value
        if isinstance(n, ast.Assign) and ast.unparse(n.targets[0]) == "_PROTEIN_RESIDUES" and \
                ast.unparse(n.value) == "frozenset(_AMINO_ACID_CODES.keys())":
            prot_ok = True
    if not isinstance(codes, ast.Dict) or not prot_ok:
        raise Untranslatable("_PROTEIN_RESIDUES")
    names = []
    for k in codes.keys:
        if not (isinstance(k, ast.Constant) and isinstance(k.value, str) and k.value.isascii()):
            raise Untranslatable("_AMINO_ACID_CODES key")
        names.append(k.value)
    names = sorted(set(names))
    lines = []
    for i in range(0, len(names), 12):
        lines.append("; ".join('"%s"' % s for s in names[i:i + 12]))
    parts += ["(* mdtraj/core/residue_names.py:_PROTEIN_RESIDUES (%d names, sorted) *)" % len(names),
              "Definition protein_residues : list string :=\n  [" + ";\n   ".join(lines) + "].", ""]
    # Atom.is_sidechain
    text = _src("mdtraj/core/topology.py")
    tree = ast.parse(text)
    fn = None
    for n in ast.walk(tree):
        if isinstance(n, ast.ClassDef) and n.name == "Atom":
            for f in n.body:
                if isinstance(f, ast.FunctionDef) and f.name == "is_sidechain":
                    fn = f
    rets = [n for n in (fn.body if fn else []) if isinstance(n, ast.Return)]
    if len(rets) != 1:
        raise Untranslatable("Atom.is_sidechain")
    v = rets[0].value
    ok = (isinstance(v, ast.BoolOp) and isinstance(v.op, ast.And) and len(v.values) == 2
          and ast.unparse(v.values[1]) == "self.residue.is_protein"
          and isinstance(v.values[0], ast.Compare) and ast.unparse(v.values[0].left) == "self.name"
          and len(v.values[0].ops) == 1 and isinstance(v.values[0].ops[0], ast.NotIn)
          and isinstance(v.values[0].comparators[0], ast.Set))
    if not ok:
        raise Untranslatable("Atom.is_sidechain: expression shape changed: " + ast.unparse(v))
    ns = sorted(e.value for e in v.values[0].comparators[0].elts)
    parts += ["(* mdtraj/core/topology.py:Atom.is_sidechain = name not in this set and residue.is_protein *)",
              "Definition not_sidechain_names : list string := [%s]." % "; ".join('"%s"' % s for s in ns), ""]
    parts += ["Open Scope Q_scope."] + _karplus_tables(_src("mdtraj/nmr/scalar_couplings.py"))
    return "\n".join(parts) + "\n"


def translate(ctx):
    t = build_tables()
    f = build_formulas()
    ctx.write_gen("Gen/DescTables.v", t)
    ctx.write_gen("Gen/DescFormulas.v", f)
    ctx.notes.setdefault("coverage_extra", {})["translator"] = "ok: Gen/DescTables.v, Gen/DescFormulas.v regenerated"
