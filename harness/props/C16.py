"""C16 — derived descriptors equal their defining formulas; index bookkeeping matches the labels.

Model    : coq/Desc/*Model.v (contacts bookkeeping, centre/Rg/gyration algebra, RDF bins and shells,
           DRID partners and online moments, Karplus) + coq/Gen/DescTables.v, coq/Gen/DescFormulas.v
           (regenerated from /repo on every run by translate()).
Theorems : coq/Props/C16.v.
Tie      : (a) translator: tables (protein residue names, side-chain name set, Karplus coefficients) and
           straight-line formula blocks (moments.cpp:moments_push, _J3_function, RDF shell volume / norm /
           bin centres / n_bins, density, shape descriptors) are re-read from the source text and the theorems
           are re-proved about them; (b) correspondence: generated topologies/coordinates are run through the
           public functions and compared inside coqc with the model (exactly for discrete observables, with a
           stated rational tolerance for float64 magnitudes); (c) float64 oracle (closed forms) in Python for
           the transcendental reductions (soft-min, DRID reciprocal distances, Karplus cosine).
"""
import ast
import json
import math
import os
import re
from fractions import Fraction

from common import REPO, cz, cnat, cbool, clist, cstr, copt

LEVEL = "proof"
THEOREMS = "Props/C16.v"
EXTRA_TARGETS = ()
EXTS = ["_geometry", "drid"]


# =====================================================================================
# translator (T1 tables + T2 straight-line formulas)
# =====================================================================================
class Untranslatable(Exception):
    pass


def _src(rel):
    with open(os.path.join(REPO, rel)) as fh:
        return fh.read()


def qlit(fr):
    fr = Fraction(fr)
    return "(Qmake (%d) %d)" % (fr.numerator, fr.denominator)


def _const_fraction(node, text):
    """exact value of a numeric literal, from its source spelling (3.71 means 371/100)."""
    seg = ast.get_source_segment(text, node)
    if isinstance(node.value, bool) or not isinstance(node.value, (int, float)):
        raise Untranslatable("non-numeric constant %r" % (seg,))
    try:
        return Fraction(seg.replace("_", ""))
    except (ValueError, ZeroDivisionError):
        raise Untranslatable("constant %r" % seg)


def rlit(fr):
    fr = Fraction(fr)
    return "(IZR (%d) / IZR %d)" % (fr.numerator, fr.denominator)


def py_to_q(node, text, atoms, lit=None):
    """Python arithmetic expression -> Coq term over Q.  `atoms` maps the unparsed text of a
    sub-expression to a Coq variable; anything else outside + - * / ** (small integer exponent),
    unary minus and numeric literals aborts the translation."""
    key = ast.unparse(node)
    if key in atoms:
        return atoms[key]
    lit = lit or qlit
    if isinstance(node, ast.Constant):
        return lit(_const_fraction(node, text))
    if isinstance(node, ast.UnaryOp) and isinstance(node.op, (ast.USub, ast.UAdd)):
        inner = py_to_q(node.operand, text, atoms, lit)
        return "(- %s)" % inner if isinstance(node.op, ast.USub) else inner
    if isinstance(node, ast.BinOp):
        if isinstance(node.op, ast.Pow):
            if not isinstance(node.right, ast.Constant):
                raise Untranslatable("exponent " + key)
            e = _const_fraction(node.right, text)
            if e.denominator != 1 or not (0 <= e.numerator <= 4):
                raise Untranslatable("exponent " + key)
            return "(%s ^ %d)" % (py_to_q(node.left, text, atoms, lit), e.numerator)
        ops = {ast.Add: "+", ast.Sub: "-", ast.Mult: "*", ast.Div: "/"}
        for k, sym in ops.items():
            if isinstance(node.op, k):
                return "(%s %s %s)" % (py_to_q(node.left, text, atoms, lit), sym, py_to_q(node.right, text, atoms, lit))
    raise Untranslatable("expression outside the grammar: " + key)


def _find_func(tree, name):
    for n in ast.walk(tree):
        if isinstance(n, ast.FunctionDef) and n.name == name:
            return n
    raise Untranslatable("function %s not found" % name)


def _find_assign(fn, target):
    """value node of the unique assignment `target = ...` in fn (by unparsed target text)."""
    hits = [n for n in ast.walk(fn) if isinstance(n, ast.Assign) and len(n.targets) == 1
            and ast.unparse(n.targets[0]) == target]
    if len(hits) != 1:
        raise Untranslatable("expected exactly one assignment to %s, found %d" % (target, len(hits)))
    return hits[0].value


# ---- tiny C expression parser for moments.cpp ---------------------------------------
_CTOK = re.compile(r"\s*(self->_\w+|[A-Za-z_]\w*|\d+\.\d*|\.\d+|\d+|[-+*/()])")


def _ctokens(s):
    pos, out = 0, []
    s = s.strip()
    while pos < len(s):
        m = _CTOK.match(s, pos)
        if not m:
            raise Untranslatable("C token at %r" % s[pos:pos + 20])
        out.append(m.group(1))
        pos = m.end()
    return out


def c_to_q(expr, env):
    toks = _ctokens(expr)
    i = [0]

    def peek():
        return toks[i[0]] if i[0] < len(toks) else None

    def eat():
        t = toks[i[0]]
        i[0] += 1
        return t

    def atom():
        t = eat()
        if t == "(":
            r = add()
            if eat() != ")":
                raise Untranslatable("paren in %r" % expr)
            return r
        if t == "-":
            return "(- %s)" % atom()
        if re.match(r"^(\d+\.\d*|\.\d+|\d+)$", t):
            return qlit(Fraction(t))
        if t in env:
            return env[t]
        raise Untranslatable("unknown C identifier %r in %r" % (t, expr))

    def mul():
        r = atom()
        while peek() in ("*", "/"):
            o = eat()
            r = "(%s %s %s)" % (r, o, atom())
        return r

    def add():
        r = mul()
        while peek() in ("+", "-"):
            o = eat()
            r = "(%s %s %s)" % (r, o, mul())
        return r

    r = add()
    if i[0] != len(toks):
        raise Untranslatable("trailing tokens in %r" % expr)
    return r


def translate_moments(text):
    """moments.cpp: moments_push as a let-chain over Q (field versions follow program order),
    and the three accessors."""
    text = re.sub(r"/\*.*?\*/", "", text, flags=re.S)
    text = re.sub(r"//[^\n]*", "", text)
    m = re.search(r"void\s+moments_push\s*\(\s*moments_t\s*\*\s*self\s*,\s*double\s+x\s*\)\s*\{(.*?)\n\}", text, re.S)
    if not m:
        raise Untranslatable("moments_push not found")
    stmts = [s.strip() for s in m.group(1).split(";") if s.strip()]
    env = {"x": "x", "self->_n": "n", "self->_u": "u", "self->_M2": "m2", "self->_M3": "m3"}
    ver = {}
    lets = []
    for s in stmts:
        if re.match(r"^(int|double)\s+[\w\s,]+$", s):
            continue
        mm = re.match(r"^(self->_\w+|[A-Za-z_]\w*)\s*(\+=|-=|=)\s*(.+)$", s, re.S)
        if not mm:
            raise Untranslatable("statement %r" % s)
        lhs, op, rhs = mm.group(1), mm.group(2), " ".join(mm.group(3).split())
        val = c_to_q(rhs, env)
        if op in ("+=", "-="):
            if lhs not in env:
                raise Untranslatable("update of unknown %s" % lhs)
            val = "(%s %s %s)" % (env[lhs], op[0], val)
        base = lhs.replace("self->_", "f_").lower()
        ver[base] = ver.get(base, 0) + 1
        name = "%s_%d" % (base, ver[base])
        lets.append("  let %s := %s in" % (name, val))
        env[lhs] = name
    out = ["(* mdtraj/geometry/src/moments.cpp: moments_push; state (n, u, M2, M3), n as a rational *)",
           "Definition moments_push (s : Q * Q * Q * Q) (x : Q) : Q * Q * Q * Q :=",
           "  let '(n, u, m2, m3) := s in"] + lets + [
        "  (%s, %s, %s, %s)." % (env["self->_n"], env["self->_u"], env["self->_M2"], env["self->_M3"])]
    # accessors
    for fn, nm in (("moments_mean", "moments_mean"), ("moments_second", "moments_second"),
                   ("moments_third", "moments_third")):
        mm = re.search(r"double\s+%s\s*\(\s*moments_t\s*\*\s*self\s*\)\s*\{\s*return\s+(.*?);\s*\}" % fn, text, re.S)
        if not mm:
            raise Untranslatable(fn)
        e = c_to_q(mm.group(1), {"self->_n": "n", "self->_u": "u", "self->_M2": "m2", "self->_M3": "m3"})
        out.append("Definition %s (s : Q * Q * Q * Q) : Q := let '(n, u, m2, m3) := s in %s." % (nm, e))
    mm = re.search(r"void\s+moments_clear\s*\(\s*moments_t\s*\*\s*self\s*\)\s*\{(.*?)\n\}", text, re.S)
    if not mm:
        raise Untranslatable("moments_clear")
    init = {}
    for s in [s.strip() for s in mm.group(1).split(";") if s.strip()]:
        m2 = re.match(r"^self->_(\w+)\s*=\s*([\d.]+)$", s)
        if not m2:
            raise Untranslatable("moments_clear statement %r" % s)
        init[m2.group(1)] = Fraction(m2.group(2))
    out.append("Definition moments_init : Q * Q * Q * Q := (%s, %s, %s, %s)." % tuple(
        qlit(init[k]) for k in ("n", "u", "M2", "M3")))
    return "\n".join(out)


def _rdf_nbins(text, fn):
    hits = [n for n in ast.walk(fn) if isinstance(n, ast.Assign) and len(n.targets) == 1
            and ast.unparse(n.targets[0]) == "n_bins"]
    for h in hits:
        v = h.value
        if isinstance(v, ast.Call) and ast.unparse(v.func) == "int" and len(v.args) == 1 and \
                not isinstance(v.args[0], ast.Name):
            return py_to_q(v.args[0], text, {"r_range[1]": "r1", "r_range[0]": "r0", "bin_width": "bw"})
    raise Untranslatable("n_bins = int(<expr>) not found")


def blk_karplus():
    text = _src("mdtraj/nmr/scalar_couplings.py")
    tree = ast.parse(text)
    fn = _find_func(tree, "_J3_function")
    rets = [n for n in fn.body if isinstance(n, ast.Return)]
    if len(rets) != 1:
        raise Untranslatable("_J3_function body")
    e = py_to_q(rets[0].value, text, {"A": "A", "B": "B", "C": "C", "np.cos(phi + phi0)": "c"})
    return ["(* mdtraj/nmr/scalar_couplings.py:_J3_function with c := cos(phi + phi0) *)",
            "Definition j3_function (A B C c : Q) : Q := %s." % e]


def blk_rdf():
    text = _src("mdtraj/geometry/rdf.py")
    tree = ast.parse(text)
    fn = _find_func(tree, "compute_rdf")
    at = {"np.pi": "pi", "np.power(edges[1:], 3)": "(hi ^ 3)", "np.power(edges[:-1], 3)": "(lo ^ 3)",
          "edges[1:]": "hi", "edges[:-1]": "lo"}
    v = py_to_q(_find_assign(fn, "V"), text, at)
    r = py_to_q(_find_assign(fn, "r"), text, at)
    norm = py_to_q(_find_assign(fn, "norm"), text,
                   {"len(pairs)": "npairs", "np.sum(1.0 / traj.unitcell_volumes)": "sum_inv_vol", "V": "V"})
    nb = _rdf_nbins(text, fn)
    return ["(* mdtraj/geometry/rdf.py:compute_rdf *)",
            "Definition rdf_shell_volume (pi lo hi : Q) : Q := %s." % v,
            "Definition rdf_bin_centre (lo hi : Q) : Q := %s." % r,
            "Definition rdf_norm (npairs sum_inv_vol V : Q) : Q := %s." % norm,
            "(* n_bins = int(<this>) when n_bins is not given *)",
            "Definition rdf_nbins_quotient (r0 r1 bw : Q) : Q := %s." % nb]


def blk_density():
    text = _src("mdtraj/geometry/thermodynamic_properties.py")
    tree = ast.parse(text)
    fn = _find_func(tree, "density")
    conv = _find_assign(fn, "conversion")
    if not isinstance(conv, ast.Constant):
        raise Untranslatable("density conversion")
    hits = [n for n in ast.walk(fn) if isinstance(n, ast.Assign) and ast.unparse(n.targets[0]) == "densities"]
    if len(hits) != 2:
        raise Untranslatable("density: expected two assignments to densities")
    # the volume must be the determinant of the cell vectors (Trajectory.unitcell_volumes), not e.g. a product of lengths
    if ast.unparse(_find_assign(fn, "volume_trace")) != "traj.unitcell_volumes":
        raise Untranslatable("density: volume_trace = %s" % ast.unparse(_find_assign(fn, "volume_trace")))
    d1 = py_to_q(hits[0].value, text, {"mass": "mass", "volume_trace": "volume"})
    d2 = py_to_q(hits[1].value, text, {"densities": "(%s)" % d1, "conversion": "density_conversion"})
    return ["(* mdtraj/geometry/thermodynamic_properties.py:density *)",
            "Definition density_conversion : Q := %s." % qlit(_const_fraction(conv, text)),
            "Definition density_formula (mass volume : Q) : Q := %s." % d2]


def blk_shape():
    text = _src("mdtraj/geometry/shape.py")
    tree = ast.parse(text)
    at = {"pm[:, 0]": "l0", "pm[:, 1]": "l1", "pm[:, 2]": "l2",
          "np.square(pm).sum(axis=1)": "(l0 ^ 2 + l1 ^ 2 + l2 ^ 2)",
          "np.square(pm.sum(axis=1))": "((l0 + l1 + l2) ^ 2)"}
    b = py_to_q(_find_assign(_find_func(tree, "asphericity"), "b"), text, at)
    c = py_to_q(_find_assign(_find_func(tree, "acylindricity"), "c"), text, at)
    k = py_to_q(_find_assign(_find_func(tree, "relative_shape_anisotropy"), "kappa2"), text, at)
    return ["(* mdtraj/geometry/shape.py: descriptors as functions of the ascending principal moments *)",
            "Definition shape_asphericity (l0 l1 l2 : Q) : Q := %s." % b,
            "Definition shape_acylindricity (l0 l1 l2 : Q) : Q := %s." % c,
            "Definition shape_kappa2 (l0 l1 l2 : Q) : Q := %s." % k]


def blk_moments():
    return translate_moments(_src("mdtraj/geometry/src/moments.cpp")).split("\n")


# Hand-maintained reference copy of every block (the text the translator produced for the pinned tree).  When a
# block of the current source is outside the translator's grammar, the reference stands in for it (the run is
# recorded as `translator: degraded` and the tie for that block is the correspondence alone).
REFERENCE = {
    "karplus": ["(* reference copy: _J3_function *)",
                "Definition j3_function (A B C c : Q) : Q := (((A * (c ^ 2)) + (B * c)) + C)."],
    "rdf": ["(* reference copy: compute_rdf blocks *)",
            "Definition rdf_shell_volume (pi lo hi : Q) : Q := ((((Qmake (4) 1) / (Qmake (3) 1)) * pi) * ((hi ^ 3) - (lo ^ 3))).",
            "Definition rdf_bin_centre (lo hi : Q) : Q := ((Qmake (1) 2) * (hi + lo)).",
            "Definition rdf_norm (npairs sum_inv_vol V : Q) : Q := ((npairs * sum_inv_vol) * V).",
            "Definition rdf_nbins_quotient (r0 r1 bw : Q) : Q := ((r1 - r0) / bw)."],
    "density": ["(* reference copy: density *)",
                "Definition density_conversion : Q := (Qmake (16605387823355087) 10000000000000000).",
                "Definition density_formula (mass volume : Q) : Q := (((mass / volume)) * density_conversion)."],
    "shape": ["(* reference copy: shape descriptors *)",
              "Definition shape_asphericity (l0 l1 l2 : Q) : Q := (l2 - ((l0 + l1) / (Qmake (2) 1))).",
              "Definition shape_acylindricity (l0 l1 l2 : Q) : Q := (l1 - l0).",
              "Definition shape_kappa2 (l0 l1 l2 : Q) : Q := ((((Qmake (3) 2) * (l0 ^ 2 + l1 ^ 2 + l2 ^ 2)) / ((l0 + l1 + l2) ^ 2)) - (Qmake (1) 2))."],
    "moments": ["(* reference copy: moments.cpp *)",
                "Definition moments_push (s : Q * Q * Q * Q) (x : Q) : Q * Q * Q * Q :=",
                "  let '(n, u, m2, m3) := s in",
                "  let n1_1 := n in",
                "  let f_n_1 := (n + (Qmake (1) 1)) in",
                "  let delta_1 := (x - u) in",
                "  let delta_n_1 := (delta_1 / f_n_1) in",
                "  let term1_1 := ((delta_1 * delta_n_1) * n1_1) in",
                "  let f_u_1 := (u + delta_n_1) in",
                "  let f_m3_1 := (m3 + (((term1_1 * delta_n_1) * (f_n_1 - (Qmake (2) 1))) - (((Qmake (3) 1) * delta_n_1) * m2))) in",
                "  let f_m2_1 := (m2 + term1_1) in",
                "  (f_n_1, f_u_1, f_m2_1, f_m3_1).",
                "Definition moments_mean (s : Q * Q * Q * Q) : Q := let '(n, u, m2, m3) := s in u.",
                "Definition moments_second (s : Q * Q * Q * Q) : Q := let '(n, u, m2, m3) := s in (m2 / n).",
                "Definition moments_third (s : Q * Q * Q * Q) : Q := let '(n, u, m2, m3) := s in (m3 / n).",
                "Definition moments_init : Q * Q * Q * Q := ((Qmake (0) 1), (Qmake (0) 1), (Qmake (0) 1), (Qmake (0) 1))."],
}
BLOCKS = [("karplus", blk_karplus), ("rdf", blk_rdf), ("density", blk_density), ("shape", blk_shape),
          ("moments", blk_moments)]


def build_formulas(degraded=None):
    parts = ["(* GENERATED by harness/props/C16.py:translate from /repo -- do not edit. *)",
             "From Coq Require Import QArith.", "Local Open Scope Q_scope.", ""]
    for name, fn in BLOCKS:
        try:
            parts += fn() + [""]
        except (Untranslatable, OSError, SyntaxError, AttributeError, KeyError) as e:
            if degraded is None:
                raise
            degraded.append("%s: %s" % (name, e))
            parts += REFERENCE[name] + [""]
    return "\n".join(parts) + "\n"


def _karplus_tables(text):
    tree = ast.parse(text)
    out = []
    for tbl in ("J3_HN_HA_coefficients", "J3_HN_C_coefficients", "J3_HN_CB_coefficients"):
        val = None
        for n in tree.body:
            if isinstance(n, ast.Assign) and ast.unparse(n.targets[0]) == tbl:
                val = n.value
        if not isinstance(val, ast.Dict):
            raise Untranslatable(tbl)
        rows = []
        for k, v in zip(val.keys, val.values):
            if not (isinstance(v, ast.Call) and ast.unparse(v.func) == "dict"):
                raise Untranslatable("%s[%s]" % (tbl, ast.unparse(k)))
            kw = {a.arg: a.value for a in v.keywords}
            if set(kw) != {"phi0", "A", "B", "C"}:
                raise Untranslatable("%s keys %s" % (tbl, sorted(kw)))
            # phi0 = <deg> * np.pi / 180.0
            deg = py_to_q(kw["phi0"], text, {"np.pi": "(Qmake 1 1)"})
            fr = {}
            for nm in "ABC":
                fr[nm] = py_to_q(kw[nm], text, {})
            rows.append("(%s, (%s * (180 # 1), %s, %s, %s))" % (cstr(k.value), deg, fr["A"], fr["B"], fr["C"]))
        out.append("(* (model name, (phi0 in degrees, A, B, C)) *)\nDefinition %s : list (string * (Q * Q * Q * Q)) :=\n  [%s]." % (
            tbl, ";\n   ".join(rows)))
    return out


def build_tables():
    parts = ["(* GENERATED by harness/props/C16.py:translate from /repo -- do not edit. *)",
             "From Coq Require Import QArith String List.", "Import ListNotations.", "Local Open Scope string_scope.", ""]
    # protein residue names
    text = _src("mdtraj/core/residue_names.py")
    tree = ast.parse(text)
    codes = None
    prot_ok = False
    for n in tree.body:
        if isinstance(n, ast.Assign) and ast.unparse(n.targets[0]) == "_AMINO_ACID_CODES":
            codes = n.value
        if isinstance(n, ast.Assign) and ast.unparse(n.targets[0]) == "_PROTEIN_RESIDUES" and \
                ast.unparse(n.value) == "frozenset(_AMINO_ACID_CODES.keys())":
            prot_ok = True
    if not isinstance(codes, ast.Dict) or not prot_ok:
        raise Untranslatable("_PROTEIN_RESIDUES")
    names = []
    for k in codes.keys:
        if not (isinstance(k, ast.Constant) and isinstance(k.value, str) and k.value.isascii()):
            raise Untranslatable("_AMINO_ACID_CODES key")
        names.append(k.value)
    names = sorted(set(names))
    lines = []
    for i in range(0, len(names), 12):
        lines.append("; ".join('"%s"' % s for s in names[i:i + 12]))
    parts += ["(* mdtraj/core/residue_names.py:_PROTEIN_RESIDUES (%d names, sorted) *)" % len(names),
              "Definition protein_residues : list string :=\n  [" + ";\n   ".join(lines) + "].", ""]
    # Atom.is_sidechain
    text = _src("mdtraj/core/topology.py")
    tree = ast.parse(text)
    fn = None
    for n in ast.walk(tree):
        if isinstance(n, ast.ClassDef) and n.name == "Atom":
            for f in n.body:
                if isinstance(f, ast.FunctionDef) and f.name == "is_sidechain":
                    fn = f
    rets = [n for n in (fn.body if fn else []) if isinstance(n, ast.Return)]
    if len(rets) != 1:
        raise Untranslatable("Atom.is_sidechain")
    v = rets[0].value
    ok = (isinstance(v, ast.BoolOp) and isinstance(v.op, ast.And) and len(v.values) == 2
          and ast.unparse(v.values[1]) == "self.residue.is_protein"
          and isinstance(v.values[0], ast.Compare) and ast.unparse(v.values[0].left) == "self.name"
          and len(v.values[0].ops) == 1 and isinstance(v.values[0].ops[0], ast.NotIn)
          and isinstance(v.values[0].comparators[0], ast.Set))
    if not ok:
        raise Untranslatable("Atom.is_sidechain: expression shape changed: " + ast.unparse(v))
    ns = sorted(e.value for e in v.values[0].comparators[0].elts)
    parts += ["(* mdtraj/core/topology.py:Atom.is_sidechain = name not in this set and residue.is_protein *)",
              "Definition not_sidechain_names : list string := [%s]." % "; ".join('"%s"' % s for s in ns), ""]
    # element masses
    text = _src("mdtraj/core/element.py")
    rows = []
    for n in ast.parse(text).body:
        if isinstance(n, ast.Assign) and isinstance(n.value, ast.Call) and ast.unparse(n.value.func) == "Element":
            a = n.value.args
            if len(a) != 5 or not isinstance(a[2], ast.Constant) or not isinstance(a[3], ast.Constant):
                raise Untranslatable("Element(...) call shape")
            rows.append((a[2].value, _const_fraction(a[3], text)))
    if len(rows) < 100:
        raise Untranslatable("element table")
    lines = ["(%s, %s)" % (cstr(sym), qlit(m)) for sym, m in rows]
    parts += ["(* mdtraj/core/element.py: (symbol, mass) *)",
              "Definition element_masses : list (string * Q) :=\n  [" + ";\n   ".join(lines) + "].", ""]
    parts += ["Local Open Scope Q_scope."] + _karplus_tables(_src("mdtraj/nmr/scalar_couplings.py"))
    return "\n".join(parts) + "\n"


# ---- contact schemes: which atoms each scheme designates (T3-style: predicates -> DSL terms) -----------------
def _element_symbols():
    """python name of the module-level Element objects of element.py -> chemical symbol"""
    text = _src("mdtraj/core/element.py")
    out = {}
    for n in ast.parse(text).body:
        if isinstance(n, ast.Assign) and isinstance(n.value, ast.Call) and ast.unparse(n.value.func) == "Element" \
                and len(n.value.args) == 5 and isinstance(n.value.args[2], ast.Constant):
            out[ast.unparse(n.targets[0])] = n.value.args[2].value
    return out


def apred_to_coq(node, var, elems):
    """condition of a comprehension over atoms bound to `var` -> apred term"""
    u = ast.unparse(node)
    if isinstance(node, ast.UnaryOp) and isinstance(node.op, ast.Not):
        return "(PNot %s)" % apred_to_coq(node.operand, var, elems)
    if isinstance(node, ast.BoolOp):
        k = "PAnd" if isinstance(node.op, ast.And) else "POr"
        t = apred_to_coq(node.values[0], var, elems)
        for v in node.values[1:]:
            t = "(%s %s %s)" % (k, t, apred_to_coq(v, var, elems))
        return t
    if u == "%s.is_sidechain" % var:
        return "PSidechain"
    if u == "%s.is_backbone" % var:
        return "PBackbone"
    if isinstance(node, ast.Compare) and len(node.ops) == 1 and isinstance(node.ops[0], (ast.Eq, ast.NotEq)):
        l, r = ast.unparse(node.left), node.comparators[0]
        t = None
        if l == "%s.name.lower()" % var and isinstance(r, ast.Constant) and isinstance(r.value, str):
            t = "(PNameLowerEq %s)" % cstr(r.value)
        elif l == "%s.name" % var and isinstance(r, ast.Constant) and isinstance(r.value, str):
            t = "(PNameEq %s)" % cstr(r.value)
        elif l == "%s.element" % var and ast.unparse(r).startswith("element.") and ast.unparse(r)[8:] in elems:
            t = "(PElemIs %s)" % cstr(elems[ast.unparse(r)[8:]])
        if t is not None:
            return t if isinstance(node.ops[0], ast.Eq) else "(PNot %s)" % t
    raise Untranslatable("atom predicate outside the grammar: " + u)


def rpred_to_coq(node, var):
    u = ast.unparse(node)
    if isinstance(node, ast.UnaryOp) and isinstance(node.op, ast.Not):
        return "(RNot %s)" % rpred_to_coq(node.operand, var)
    if isinstance(node, ast.Compare) and len(node.ops) == 1 and isinstance(node.ops[0], (ast.Eq, ast.NotEq)) \
            and ast.unparse(node.left) == "%s.name" % var and isinstance(node.comparators[0], ast.Constant):
        t = "(RNameEq %s)" % cstr(node.comparators[0].value)
        return t if isinstance(node.ops[0], ast.Eq) else "(RNot %s)" % t
    raise Untranslatable("residue predicate outside the grammar: " + u)


def _atom_comp(node, elems, over=None):
    """[a.index for a in <residue>.atoms if cond...] or a generator with the same shape -> (apred, iter text)"""
    if not isinstance(node, (ast.ListComp, ast.GeneratorExp)) or len(node.generators) != 1:
        raise Untranslatable("expected a single comprehension: " + ast.unparse(node))
    g = node.generators[0]
    if not isinstance(g.target, ast.Name):
        raise Untranslatable("comprehension target")
    var = g.target.id
    if ast.unparse(node.elt) not in ("%s.index" % var, var):
        raise Untranslatable("comprehension element: " + ast.unparse(node.elt))
    it = ast.unparse(g.iter)
    if not it.endswith(".atoms"):
        raise Untranslatable("comprehension does not range over the atoms of a residue: " + it)
    if not g.ifs:
        return "PTrue", it
    t = apred_to_coq(g.ifs[0], var, elems)
    for c in g.ifs[1:]:
        t = "(PAnd %s %s)" % (t, apred_to_coq(c, var, elems))
    return t, it


def member_to_coq(node, resvar, elems):
    if isinstance(node, ast.IfExp):
        return "(MIfRes %s %s %s)" % (rpred_to_coq(node.test, resvar), member_to_coq(node.body, resvar, elems),
                                      member_to_coq(node.orelse, resvar, elems))
    p, it = _atom_comp(node, elems)
    if it != "%s.atoms" % resvar:
        raise Untranslatable("membership ranges over " + it)
    return "(MFilter %s)" % p


def build_schemes():
    text = _src("mdtraj/geometry/contact.py")
    fn = _find_func(ast.parse(text), "compute_contacts")
    elems = _element_symbols()
    table = {}
    ca_preds, keep_preds, seps, chain_ok = [], [], [], []
    for n in ast.walk(fn):
        # residue_membership = [<member> for residue in traj.topology.residues] under `if scheme == "<name>":`
        if isinstance(n, ast.If) and isinstance(n.test, ast.Compare) and ast.unparse(n.test.left) == "scheme" \
                and len(n.test.ops) == 1 and isinstance(n.test.ops[0], ast.Eq) \
                and isinstance(n.test.comparators[0], ast.Constant):
            name = n.test.comparators[0].value
            for st in n.body:
                if isinstance(st, ast.Assign) and ast.unparse(st.targets[0]) == "residue_membership":
                    v = st.value
                    if not (isinstance(v, ast.ListComp) and len(v.generators) == 1 and not v.generators[0].ifs
                            and isinstance(v.generators[0].target, ast.Name)
                            and ast.unparse(v.generators[0].iter) in ("traj.topology.residues", "traj.top.residues")):
                        raise Untranslatable("residue_membership of scheme %s" % name)
                    table[name] = member_to_coq(v.elt, v.generators[0].target.id, elems)
        if isinstance(n, ast.Assign) and ast.unparse(n.targets[0]) in ("ca_atoms_0", "ca_atoms_1"):
            ca_preds.append(_atom_comp(n.value, elems)[0])
        # contacts == 'all': `not any(a for a in residue_x.atoms if ...)`
        if isinstance(n, ast.Call) and ast.unparse(n.func) == "any" and len(n.args) == 1 \
                and isinstance(n.args[0], ast.GeneratorExp):
            keep_preds.append(_atom_comp(n.args[0], elems)[0])
        if isinstance(n, ast.For) and ast.unparse(n.target) == "j" and isinstance(n.iter, ast.Call) \
                and ast.unparse(n.iter.func) == "range" and len(n.iter.args) == 2:
            lo = n.iter.args[0]
            if not (isinstance(lo, ast.BinOp) and isinstance(lo.op, ast.Add) and ast.unparse(lo.left) == "i"
                    and isinstance(lo.right, ast.Constant) and ast.unparse(n.iter.args[1]) == "traj.n_residues"):
                raise Untranslatable("inner loop of contacts='all': " + ast.unparse(n.iter))
            seps.append(int(lo.right.value))
            for st in ast.walk(n):
                if isinstance(st, ast.If) and ast.unparse(st.test) in ("residue_i.chain == residue_j.chain",
                                                                       "residue_j.chain == residue_i.chain"):
                    chain_ok.append(True)
    want = ["closest", "closest-heavy", "sidechain", "sidechain-heavy"]
    if sorted(table) != sorted(want):
        raise Untranslatable("schemes found: %s" % sorted(table))
    if len(ca_preds) != 2 or ca_preds[0] != ca_preds[1]:
        raise Untranslatable("CA predicate of scheme 'ca': %s" % ca_preds)
    if len(keep_preds) != 2 or keep_preds[0] != keep_preds[1]:
        raise Untranslatable("CA test of contacts='all': %s" % keep_preds)
    if len(seps) != 1 or chain_ok != [True]:
        raise Untranslatable("loops of contacts='all' (separation %s, chain test %s)" % (seps, chain_ok))
    lines = ["(* GENERATED by harness/props/C16.py:translate from /repo -- do not edit. *)",
             "From Coq Require Import String List.", "Import ListNotations.", "Require Import MD.Desc.SchemeDsl.", "",
             "(* mdtraj/geometry/contact.py:compute_contacts: residue_membership per scheme *)",
             "Definition scheme_members : list (string * member) :=",
             "  [" + ";\n   ".join("(%s, %s)" % (cstr(k), table[k]) for k in want) + "].", "",
             "(* scheme 'ca': the atoms taken as alpha carbons *)",
             "Definition ca_pred : apred := %s." % ca_preds[0], "",
             "(* contacts='all': a residue is kept under ignore_nonprotein iff some atom satisfies this; j starts at",
             "   i + all_min_separation; pairs are restricted to one chain *)",
             "Definition all_keep_pred : apred := %s." % keep_preds[0],
             "Definition all_min_separation : nat := %d." % seps[0],
             "Definition all_same_chain : bool := true.", ""]
    return "\n".join(lines)


REFERENCE_SCHEMES = """(* reference copy (contact.py of the pinned tree) *)
From Coq Require Import String List.
Import ListNotations.
Require Import MD.Desc.SchemeDsl.

Definition scheme_members : list (string * member) :=
  [("closest"%string, (MFilter PTrue));
   ("closest-heavy"%string, (MFilter (PNot (PElemIs "H"%string))));
   ("sidechain"%string, (MFilter PSidechain));
   ("sidechain-heavy"%string, (MIfRes (RNot (RNameEq "GLY"%string)) (MFilter (PAnd PSidechain (PNot (PElemIs "H"%string)))) (MFilter PSidechain)))].

Definition ca_pred : apred := (PNameLowerEq "ca"%string).

Definition all_keep_pred : apred := (PNameLowerEq "ca"%string).
Definition all_min_separation : nat := 3.
Definition all_same_chain : bool := true.
"""


# ---- option handling: keywords, accepted scheme names, signature defaults (contact.py, rdf.py, order.py) --------
def _defaults(fn, text):
    """{argument name: default value node} of a FunctionDef"""
    a = fn.args
    names = [x.arg for x in a.args]
    out = {}
    for nm, d in zip(names[len(names) - len(a.defaults):], a.defaults):
        out[nm] = d
    return out


def _const_of(node, kind):
    if not isinstance(node, ast.Constant) or not isinstance(node.value, kind) or (kind is not bool and isinstance(node.value, bool)):
        raise Untranslatable("default %s is not a %s constant" % (ast.unparse(node), kind.__name__))
    return node.value


def _keyword_tests(fn, var):
    """constants a string argument is compared with: `var.lower() ==/!= "k"` or `var ==/!= "k"` -> ([k...], lowered?)"""
    ks, low = [], set()
    for n in ast.walk(fn):
        if isinstance(n, ast.Compare) and len(n.ops) == 1 and isinstance(n.ops[0], (ast.Eq, ast.NotEq)) \
                and isinstance(n.comparators[0], ast.Constant) and isinstance(n.comparators[0].value, str):
            l = ast.unparse(n.left)
            if l == "%s.lower()" % var:
                ks.append(n.comparators[0].value)
                low.add(True)
            elif l == var:
                ks.append(n.comparators[0].value)
                low.add(False)
    return ks, low


def build_options():
    text = _src("mdtraj/geometry/contact.py")
    fn = _find_func(ast.parse(text), "compute_contacts")
    d = _defaults(fn, text)
    # contacts keyword
    ks, low = _keyword_tests(fn, "contacts")
    if len(set(ks)) != 1:
        raise Untranslatable("contacts keyword tests: %s" % ks)
    if low != {True}:
        raise Untranslatable("contacts keyword is not compared case-insensitively")
    # scheme = scheme.lower(); if scheme not in [...]
    lowered = any(isinstance(n, ast.Assign) and ast.unparse(n.targets[0]) == "scheme" and ast.unparse(n.value) == "scheme.lower()"
                  for n in fn.body)
    names = None
    for n in fn.body:
        if isinstance(n, ast.If) and isinstance(n.test, ast.Compare) and ast.unparse(n.test.left) == "scheme" \
                and len(n.test.ops) == 1 and isinstance(n.test.ops[0], ast.NotIn) \
                and isinstance(n.test.comparators[0], (ast.List, ast.Tuple, ast.Set)) \
                and any(isinstance(x, ast.Raise) for x in n.body):
            names = [_const_of(e, str) for e in n.test.comparators[0].elts]
    if names is None:
        raise Untranslatable("`if scheme not in [...]: raise` not found")
    # the statement order topology -> contacts -> scheme (error precedence) is tied by the correspondence
    lines = ["(* GENERATED by harness/props/C16.py:translate from /repo -- do not edit. *)",
             "From Coq Require Import String List ZArith QArith.", "Import ListNotations.",
             "Require Import MD.Desc.DipoleModel.", "",
             "(* mdtraj/geometry/contact.py:compute_contacts *)",
             "Definition src_scheme_names : list string := %s." % clist([cstr(x) for x in names]),
             "Definition src_scheme_lowered : bool := %s." % cbool(lowered),
             "Definition src_contacts_keyword : string := %s." % cstr(ks[0]),
             "Definition dflt_contacts : string := %s." % cstr(_const_of(d["contacts"], str)),
             "Definition dflt_scheme : string := %s." % cstr(_const_of(d["scheme"], str)),
             "Definition dflt_ignore_nonprotein : bool := %s." % cbool(_const_of(d["ignore_nonprotein"], bool)),
             "Definition dflt_periodic : bool := %s." % cbool(_const_of(d["periodic"], bool)),
             "Definition dflt_soft_min : bool := %s." % cbool(_const_of(d["soft_min"], bool)), ""]
    # rdf.py: both functions must agree on the shared defaults
    text = _src("mdtraj/geometry/rdf.py")
    tree = ast.parse(text)
    vals = []
    for name in ("compute_rdf", "compute_rdf_t"):
        fn = _find_func(tree, name)
        d = _defaults(fn, text)
        if _const_of(d["r_range"], type(None)) is not None or _const_of(d["n_bins"], type(None)) is not None:
            raise Untranslatable("%s: r_range/n_bins defaults" % name)
        rr = None
        for n in ast.walk(fn):
            if isinstance(n, ast.If) and ast.unparse(n.test) == "r_range is None" and len(n.body) == 1 \
                    and isinstance(n.body[0], ast.Assign) and ast.unparse(n.body[0].targets[0]) == "r_range":
                v = n.body[0].value
                if isinstance(v, ast.Call) and ast.unparse(v.func) == "np.array" and isinstance(v.args[0], (ast.List, ast.Tuple)) \
                        and len(v.args[0].elts) == 2:
                    rr = tuple(_const_fraction(e, text) for e in v.args[0].elts)
        if rr is None:
            raise Untranslatable("%s: default r_range" % name)
        thr = [ast.unparse(n.test) for n in ast.walk(fn) if isinstance(n, ast.If) and "n_bins" in ast.unparse(n.test)
               and any(isinstance(x, ast.Raise) for x in n.body)]
        if thr != ["n_bins <= 0"]:
            raise Untranslatable("%s: n_bins refusal test %s" % (name, thr))
        bw = Fraction(float(_const_of(d["bin_width"], float)))      # the double Python uses
        vals.append((rr, bw, _const_of(d["periodic"], bool)))
    if vals[0] != vals[1]:
        raise Untranslatable("compute_rdf and compute_rdf_t disagree on defaults")
    fn = _find_func(tree, "compute_rdf_t")
    d = _defaults(fn, text)
    lines += ["(* mdtraj/geometry/rdf.py:compute_rdf, compute_rdf_t (n_bins <= 0 is refused) *)",
              "Definition dflt_r_range : Q * Q := (%s, %s)." % (qlit(vals[0][0][0]), qlit(vals[0][0][1])),
              "(* the default bin_width as the double Python uses *)",
              "Definition dflt_bin_width : Q := %s." % qlit(vals[0][1]),
              "Definition dflt_self_correlation : bool := %s." % cbool(_const_of(d["self_correlation"], bool)),
              "Definition dflt_n_concurrent_pairs : Z := (%d)%%Z." % _const_of(d["n_concurrent_pairs"], int), ""]
    # order.py
    text = _src("mdtraj/geometry/order.py")
    tree = ast.parse(text)
    ks, low = _keyword_tests(_find_func(tree, "_get_indices"), "indices")
    if len(ks) != 2 or low != {True}:
        raise Untranslatable("_get_indices keywords %s lowered %s" % (ks, sorted(low)))
    fn = _find_func(tree, "_get_indices")
    grp = {}
    for n in ast.walk(fn):
        if isinstance(n, ast.If) and isinstance(n.test, ast.Compare) and ast.unparse(n.test.left) == "indices.lower()":
            for st in n.body:
                if isinstance(st, ast.Assign) and ast.unparse(st.targets[0]) == "group":
                    grp[n.test.comparators[0].value] = ast.unparse(st.value)
    inv = {v: k for k, v in grp.items()}
    if sorted(inv) != ["list(traj.top.chains)", "list(traj.top.residues)"] or sorted(grp) != sorted(ks):
        raise Untranslatable("_get_indices groups %s" % grp)
    dd = [_const_of(_defaults(_find_func(tree, f), text)["indices"], str) for f in ("compute_nematic_order", "compute_directors")]
    if dd[0] != dd[1]:
        raise Untranslatable("order.py: default indices differ")
    lines += ["(* mdtraj/geometry/order.py:_get_indices (keywords compared after .lower()) *)",
              "Definition src_order_chains : string := %s." % cstr(inv["list(traj.top.chains)"]),
              "Definition src_order_residues : string := %s." % cstr(inv["list(traj.top.residues)"]),
              "Definition dflt_order_indices : string := %s." % cstr(dd[0]), ""]
    # thermodynamic_properties.py:dipole_moments: index-pair tables
    text = _src("mdtraj/geometry/thermodynamic_properties.py")
    fn = _find_func(ast.parse(text), "dipole_moments")
    terms = {"0": "DZero", "a.residue.atom(0).index": "DAnchor", "a.index": "DSelf"}
    tabs = {}
    for nm in ("local_indices", "molecule_indices"):
        v = _find_assign(fn, nm)
        if not (isinstance(v, ast.Call) and ast.unparse(v.func) == "np.array" and isinstance(v.args[0], ast.ListComp)):
            raise Untranslatable("dipole_moments: %s" % nm)
        lc = v.args[0]
        if len(lc.generators) != 1 or lc.generators[0].ifs or ast.unparse(lc.generators[0].target) != "a" \
                or ast.unparse(lc.generators[0].iter) not in ("traj.top.atoms", "traj.topology.atoms") \
                or not isinstance(lc.elt, ast.Tuple) or len(lc.elt.elts) != 2:
            raise Untranslatable("dipole_moments: comprehension of %s" % nm)
        try:
            tabs[nm] = tuple(terms[ast.unparse(e)] for e in lc.elt.elts)
        except KeyError as e:
            raise Untranslatable("dipole_moments: index expression %s" % e)
    per = {}
    for nm, tab in (("local_displacements", "local_indices"), ("molecule_displacements", "molecule_indices")):
        v = _find_assign(fn, nm)
        if not (isinstance(v, ast.Call) and ast.unparse(v.func) in ("md.compute_displacements", "compute_displacements")
                and [ast.unparse(a) for a in v.args] == ["traj", tab]):
            raise Untranslatable("dipole_moments: %s" % nm)
        kw = {k.arg: k.value for k in v.keywords}
        if set(kw) - {"periodic"}:
            raise Untranslatable("dipole_moments: unexpected keyword in %s" % nm)
        per[nm] = _const_of(kw["periodic"], bool) if "periodic" in kw else True
    if ast.unparse(_find_assign(fn, "xyz")) != "local_displacements + molecule_displacements" or \
            ast.unparse(_find_assign(fn, "moments")) != "xyz.transpose(0, 2, 1).dot(charges)":
        raise Untranslatable("dipole_moments: combination of the displacements")
    lines += ["(* mdtraj/geometry/thermodynamic_properties.py:dipole_moments: the two index-pair tables and their periodic flags *)",
              "Definition src_dipole_local : dip_idx * dip_idx := (%s, %s)." % tabs["local_indices"],
              "Definition src_dipole_molecule : dip_idx * dip_idx := (%s, %s)." % tabs["molecule_indices"],
              "Definition src_dipole_periodic : bool * bool := (%s, %s)." % (cbool(per["local_displacements"]),
                                                                           cbool(per["molecule_displacements"])), ""]
    return "\n".join(lines)


REFERENCE_OPTIONS = """(* reference copy (contact.py, rdf.py, order.py of the pinned tree) *)
From Coq Require Import String List ZArith QArith.
Import ListNotations.
Require Import MD.Desc.DipoleModel.

Definition src_scheme_names : list string := ["ca"%string; "closest"%string; "closest-heavy"%string; "sidechain"%string; "sidechain-heavy"%string].
Definition src_scheme_lowered : bool := true.
Definition src_contacts_keyword : string := "all"%string.
Definition dflt_contacts : string := "all"%string.
Definition dflt_scheme : string := "closest-heavy"%string.
Definition dflt_ignore_nonprotein : bool := true.
Definition dflt_periodic : bool := true.
Definition dflt_soft_min : bool := false.

Definition dflt_r_range : Q * Q := ((Qmake (0) 1), (Qmake (1) 1)).
Definition dflt_bin_width : Q := (Qmake (5764607523034235) 1152921504606846976).
Definition dflt_self_correlation : bool := true.
Definition dflt_n_concurrent_pairs : Z := (100000)%Z.

Definition src_order_chains : string := "chains"%string.
Definition src_order_residues : string := "residues"%string.
Definition dflt_order_indices : string := "chains"%string.

Definition src_dipole_local : dip_idx * dip_idx := (DAnchor, DSelf).
Definition src_dipole_molecule : dip_idx * dip_idx := (DZero, DAnchor).
Definition src_dipole_periodic : bool * bool := (true, true).
"""


def build_formulas_r():
    """the Karplus relation once more over R (for the trigonometric form of the theorem)"""
    text = _src("mdtraj/nmr/scalar_couplings.py")
    fn = _find_func(ast.parse(text), "_J3_function")
    rets = [n for n in fn.body if isinstance(n, ast.Return)]
    if len(rets) != 1:
        raise Untranslatable("_J3_function body")
    e = py_to_q(rets[0].value, text, {"A": "A", "B": "B", "C": "C", "np.cos(phi + phi0)": "(cos (phi + phi0))"}, rlit)
    return "\n".join(["(* GENERATED by harness/props/C16.py:translate from /repo -- do not edit. *)",
                      "From Coq Require Import Reals.", "Local Open Scope R_scope.", "",
                      "(* mdtraj/nmr/scalar_couplings.py:_J3_function *)",
                      "Definition j3_function_R (phi A B C phi0 : R) : R := %s." % e, ""])


def translate(ctx):
    degraded = []
    f = build_formulas(degraded)
    ctx.write_gen("Gen/DescFormulas.v", f)
    try:
        ctx.write_gen("Gen/DescFormulasR.v", build_formulas_r())
    except (Untranslatable, OSError, SyntaxError) as e:
        degraded.append("karplus(R): %s" % e)
        ctx.write_gen("Gen/DescFormulasR.v", "\n".join([
            "(* reference copy *)", "From Coq Require Import Reals.", "Local Open Scope R_scope.",
            "Definition j3_function_R (phi A B C phi0 : R) : R := "
            "(((A * ((cos (phi + phi0)) ^ 2)) + (B * (cos (phi + phi0)))) + C).", ""]))
    try:
        ctx.write_gen("Gen/DescSchemes.v", build_schemes())
    except (Untranslatable, OSError, SyntaxError, AttributeError) as e:
        degraded.append("contact schemes: %s" % e)
        ctx.write_gen("Gen/DescSchemes.v", REFERENCE_SCHEMES)
    try:
        ctx.write_gen("Gen/DescOptions.v", build_options())
    except (Untranslatable, OSError, SyntaxError, AttributeError, KeyError) as e:
        degraded.append("option keywords/defaults: %s" % e)
        ctx.write_gen("Gen/DescOptions.v", REFERENCE_OPTIONS)
    try:
        ctx.write_gen("Gen/DescTables.v", build_tables())
    except (Untranslatable, OSError, SyntaxError, AttributeError) as e:
        degraded.append("tables (previous Gen/DescTables.v kept): %s" % e)
    ctx.notes.setdefault("coverage_extra", {})["translator"] = (
        "ok: Gen/DescTables.v, Gen/DescSchemes.v, Gen/DescOptions.v, Gen/DescFormulas.v, Gen/DescFormulasR.v regenerated" if not degraded
        else "degraded, reference copy used for: " + "; ".join(degraded))
    if degraded:
        raise Untranslatable("; ".join(degraded))


# =====================================================================================
# generic helpers
# =====================================================================================
RULE = ("topologies are assembled from residue templates (full/heavy-only/truncated amino acids, GLY with and "
        "without hydrogens, caps, water, ions, a ligand, Ca2+ named CA, lower-case and duplicate CA, deuterium) with "
        "random atom deletions and chain breaks; coordinates are integers/64 nm (float32-exact), cells orthorhombic on "
        "the same grid; a case is non-trivial when the compared observable depends on more than one atom/pair/bin; "
        "distinct by hash of the full case")
TRUSTED = ["harness/impl/desc_impl.py (builds the Topology/Trajectory from the case, converts float results to exact "
           "integers/rationals)",
           "generator and float64 closed-form oracles in harness/props/C16.py; discrete comparisons are done by vm_compute "
           "inside coqc",
           "translator harness/props/C16.py:build_tables/build_formulas (Python ast / regex -> Gallina)"]
ASSUMPTIONS = ["coordinates and cell lengths are multiples of 1/64 nm below 8 nm, so float32 differences and squared "
               "distances are exact and sqrt is correctly rounded: squared distances are recovered exactly",
               "periodic cases use orthorhombic cells (triclinic minimum image is C05's subject)",
               "atom and residue names are ASCII",
               "float64 results are compared with exact rationals under the relative bounds listed in coverage.bounds"]

UNIT = 64
SCHEMES = ["ca", "closest", "closest-heavy", "sidechain", "sidechain-heavy"]


def coq_values(ctx, requires, in_ty, fn, inputs, shard=None, prelude=""):
    """vm_compute `fn input` for every input inside coqc; fn must return nested lists of Z only.
    Returns (list of parsed python lists, errors)."""
    from common import COQ
    import subprocess
    out = [None] * len(inputs)
    errors = []
    jobs = []
    if shard is None:
        shard = shard_for(len(inputs), lo=2)
    for si in range(0, len(inputs), shard):
        sh = inputs[si:si + shard]
        lines = ["From Coq Require Import ZArith List String Bool Ascii QArith.", "Import ListNotations.",
                 "Open Scope nat_scope."]
        lines += ["Require Import %s." % r for r in requires]
        lines.append(prelude)
        lines.append("Definition inputs : list (%s) := [" % in_ty)
        lines.append(";\n".join(sh))
        lines.append("].")
        lines.append("Open Scope Z_scope.")
        lines.append('Definition tag := "VALUES"%string.')
        lines.append("Eval vm_compute in (tag, map (%s) inputs)." % fn)
        p = os.path.join(ctx.tmp, "values_%d_%d.v" % (id(inputs) % 100000, si))
        with open(p, "w") as fh:
            fh.write("\n".join(lines) + "\n")
        jobs.append((si, len(sh), p))
    running = []
    todo = list(jobs)

    def reap(pr, si, n):
        o = pr.communicate()[0]
        if pr.returncode != 0:
            errors.append(o[-3000:])
            return
        m = re.search(r'\("VALUES"(?:%string)?,\s*(.*)\)\s*:\s', o, re.S)
        if not m:
            errors.append("unparsed coqc output: " + o[-1500:])
            return
        txt = m.group(1).replace("%Z", "").replace(";", ",").replace("nil", "[]")
        try:
            vals = json.loads(txt)
        except ValueError:
            errors.append("unparsed values: " + txt[:500])
            return
        if len(vals) != n:
            errors.append("value count mismatch")
            return
        out[si:si + n] = vals

    while todo or running:
        while todo and len(running) < 8:
            si, n, p = todo.pop(0)
            pr = subprocess.Popen(["timeout", "900", "coqc", "-Q", COQ, "MD", p], cwd=ctx.tmp,
                                  stdout=subprocess.PIPE, stderr=subprocess.STDOUT, text=True)
            running.append((pr, si, n))
        pr, si, n = running.pop(0)
        reap(pr, si, n)
    return out, errors


def run_impl(ctx, cases):
    res = ctx.run_impl("desc_impl.py", {"cases": cases})["results"]
    for c, r in zip(cases, res):
        if "harness_err" in r:
            raise RuntimeError("impl runner problem on %s: %s" % (c.get("kind"), r))
    return res


# ---- Coq printers
def c_raw_top(top):
    return clist(["(%s, %s, %s)" % (cstr(rn), cnat(ch), clist(["(%s, %s)" % (cstr(a), cstr(e)) for a, e in atoms]))
                  for rn, ch, atoms in top])


def c_vec(v):
    return "(%s, %s, %s)" % (cz(v[0]), cz(v[1]), cz(v[2]))


def c_frames(xyz):
    return clist([clist([c_vec(v) for v in f]) for f in xyz])


def c_cell(box):
    if box is None:
        return "None"
    if isinstance(box, dict):
        return "(Some (CTri %s %s %s))" % tuple(c_vec(v) for v in box["tri"])
    return "(Some (COrth %s))" % c_vec(box)


def gen_tri_box(rng, lo=200, hi=330):
    """reduced triclinic cell on the grid: a = (ax,0,0), b = (bx,by,0), c = (cx,cy,cz), |bx|,|cx| <= ax/2, |cy| <= by/2"""
    ax, by, cz = rng.randrange(lo, hi), rng.randrange(lo, hi), rng.randrange(lo, hi)
    bx = rng.randint(-(ax // 2), ax // 2)
    cx = rng.randint(-(ax // 2), ax // 2)
    cy = rng.randint(-(by // 2), by // 2)
    if rng.random() < 0.3:
        bx = rng.choice([0, bx])
        cx = rng.choice([0, cx])
    if bx == 0 and cx == 0 and cy == 0:
        cy = by // 3
    return {"tri": [[ax, 0, 0], [bx, by, 0], [cx, cy, cz]]}


def c_pairs_nat(ps):
    return clist(["(%s, %s)" % (cnat(a), cnat(b)) for a, b in ps])


# =====================================================================================
# topology generator
# =====================================================================================
def _t(name, atoms):
    return (name, [(a, e) for a, e in atoms])


TEMPLATES = {
    "ALA": _t("ALA", [("N", "N"), ("H", "H"), ("CA", "C"), ("HA", "H"), ("CB", "C"), ("HB1", "H"), ("HB2", "H"),
                      ("C", "C"), ("O", "O")]),
    "GLYH": _t("GLY", [("N", "N"), ("H", "H"), ("CA", "C"), ("HA2", "H"), ("HA3", "H"), ("C", "C"), ("O", "O")]),
    "GLY": _t("GLY", [("N", "N"), ("CA", "C"), ("C", "C"), ("O", "O")]),
    "SER": _t("SER", [("N", "N"), ("CA", "C"), ("CB", "C"), ("OG", "O"), ("HG", "H"), ("C", "C"), ("O", "O")]),
    "LYS": _t("LYS", [("N", "N"), ("CA", "C"), ("CB", "C"), ("CG", "C"), ("CD", "C"), ("CE", "C"), ("NZ", "N"),
                      ("HZ1", "H"), ("HZ2", "H"), ("C", "C"), ("O", "O")]),
    "VALD": _t("VAL", [("N", "N"), ("CA", "C"), ("CB", "C"), ("DG1", "D"), ("CG2", "C"), ("C", "C")]),
    "ACE": _t("ACE", [("CH3", "C"), ("C", "C"), ("O", "O"), ("H1", "H")]),
    "NME": _t("NME", [("N", "N"), ("C", "C"), ("H", "H")]),
    "NOCA": _t("THR", [("N", "N"), ("CB", "C"), ("OG1", "O"), ("HG1", "H"), ("C", "C")]),
    "HOH": _t("HOH", [("O", "O"), ("H1", "H"), ("H2", "H")]),
    "NA": _t("NA", [("NA", "Na")]),
    "CL": _t("CL", [("CL", "Cl")]),
    "CAION": _t("CA", [("CA", "Ca")]),
    "LIG": _t("LIG", [("C1", "C"), ("O1", "O"), ("H1", "H"), ("N1", "N")]),
    "LOWCA": _t("ALA", [("N", "N"), ("ca", "C"), ("CB", "C"), ("C", "C")]),
    "TWOCA": _t("ALA", [("N", "N"), ("CA", "C"), ("ca", "C"), ("CB", "C")]),
    "UNKCA": _t("XYZ", [("N", "N"), ("CA", "C"), ("CB", "C"), ("HB", "H")]),
}
COMMON = ["ALA", "GLYH", "GLY", "SER", "LYS", "ALA", "SER", "LYS", "VALD"]
ODD = ["ACE", "NME", "NOCA", "HOH", "HOH", "NA", "CL", "CAION", "LIG", "LOWCA", "UNKCA"]


def gen_topology(rng, n_res, p_odd=0.3, p_twoca=0.0, p_drop=0.25, max_chains=3):
    top = []
    chain = 0
    for i in range(n_res):
        if i and rng.random() < 0.15 and chain < max_chains - 1:
            chain += 1
        if rng.random() < p_twoca:
            key = "TWOCA"
        elif rng.random() < p_odd:
            key = rng.choice(ODD)
        else:
            key = rng.choice(COMMON)
        name, atoms = TEMPLATES[key]
        atoms = list(atoms)
        if len(atoms) > 2 and rng.random() < p_drop:
            for _ in range(rng.randint(1, max(1, len(atoms) // 3))):
                atoms.pop(rng.randrange(len(atoms)))
        top.append([name, chain, [list(a) for a in atoms]])
    return top


def top_natoms(top):
    return sum(len(r[2]) for r in top)


def gen_xyz(rng, n_frames, n_atoms, span=256):
    return [[[rng.randrange(span), rng.randrange(span), rng.randrange(span)] for _ in range(n_atoms)]
            for _ in range(n_frames)]


def gen_box(rng, lo=160, hi=320):
    return [rng.randrange(lo, hi), rng.randrange(lo, hi), rng.randrange(lo, hi)]


# =====================================================================================
# contacts
# =====================================================================================
ERRCODES = [(r"No acceptable residue pairs", "ENoPairs"), (r"not in the permitted range", "ERange"),
            (r"More than 1 alpha carbon", "EManyCA"), (r"atom_pairs must be ndim 2", "EEmptyCA"),
            (r"zero-size array to reduction operation", "EZeroSize"),
            (r"truth value of an array", "EAmbiguous")]


def gen_contacts_case(rng, i):
    n_res = rng.randint(4, 9)
    scheme = SCHEMES[i % 5]
    top = gen_topology(rng, n_res, p_odd=rng.choice([0.0, 0.25, 0.5]),
                       p_twoca=0.12 if (scheme == "ca" and (i // 5) % 3 == 0) else (0.03 if i % 7 == 3 else 0.0))
    na = top_natoms(top)
    nf = rng.randint(1, 2)
    tri = (i // 5) % 6 == 1
    case = {"kind": "contacts", "top": top, "unit": UNIT, "xyz": gen_xyz(rng, nf, na, span=128 if tri else 256),
            "box": gen_tri_box(rng) if tri else (gen_box(rng) if rng.random() < 0.6 else None),
            "periodic": True if tri else rng.random() < 0.7,
            "scheme": scheme, "soft_min": (i // 5) % 3 == 2, "beta": None, "squareform": rng.random() < 0.4}
    if case["soft_min"] and rng.random() < 0.5:
        case["beta"] = rng.choice([5, 10, 20, 40])
    if (i // 15) % 2 == 0:
        case["contacts"] = "all"
        if (i // 30) % 3 != 0:      # axis: default / True / False
            case["ignore_nonprotein"] = (i // 30) % 3 == 1
    else:
        k = rng.randint(1, 6)
        prs = [[rng.randrange(n_res), rng.randrange(n_res)] for _ in range(k)]
        if rng.random() < 0.06:
            prs[rng.randrange(k)][rng.randrange(2)] = rng.choice([-1, n_res, n_res + 2])
        case["contacts"] = prs
        case["as_array"] = rng.random() < 0.5
    if scheme.upper() != scheme and rng.random() < 0.1:
        case["scheme"] = scheme.upper()
    return case


def contacts_coq_case(case, strict):
    c = case["contacts"]
    if c == "all":
        cs = "(CAll %s)" % cbool(case.get("ignore_nonprotein", True))
    else:
        cs = "(CExplicit %s)" % clist(["(%s, %s)" % (cz(a), cz(b)) for a, b in c])
    box = c_cell(case["box"])
    return "(%s, %s, %s, %s, %s, %s, %s)" % (cbool(strict), c_raw_top(case["top"]),
                                            cnat(SCHEMES.index(case["scheme"].lower())), cs, box,
                                            cbool(case["periodic"]), c_frames(case["xyz"]))


def contacts_expected(res):
    if "err" in res:
        for pat, name in ERRCODES:
            if re.search(pat, res["msg"]):
                return "(HErr %s)" % name
        return None
    return "(HOk %s %s)" % (c_pairs_nat(res["pairs"]), clist([clist([cz(v) for v in row]) for row in res["d2"]]))


def softmin_closed_form(d2s, beta):
    """beta / log(sum exp(beta/d_i)) in float64, evaluated stably (log-sum-exp)."""
    xs = [beta / (math.sqrt(m) / UNIT) for m in d2s]
    mx = max(xs)
    return beta / (mx + math.log(math.fsum(math.exp(x - mx) for x in xs)))


def is_hard(case):
    return (not case["soft_min"]) or case["scheme"].lower() == "ca"


def check_contacts(ctx, cases, results):
    # ---------- hard minimum / CA: exact comparison inside coqc
    hard = [i for i, c in enumerate(cases) if is_hard(c)]
    jobs, coqcases = [], []
    for i in hard:
        c, r = cases[i], results[i]
        tri = isinstance(c["box"], dict) and c["periodic"]
        if "err" not in r and ((r["resid"] > 1e-5) if not tri else (r["resid_abs"] > 0.25 or r["resid"] > 2e-4)):
            ctx.break_("correspondence:contacts-exactness", "squared distance not recovered exactly (residual %g) on %s"
                       % (r["resid"], json.dumps(c)[:300]))
            continue
        exp = contacts_expected(r)
        if exp is None:
            ctx.fail("compute_contacts raises an unexpected %s" % r["err"], c, observed=r, expected="model result",
                     tags={"kind": "contacts", "explained_by": None})
            continue
        variants = [False]
        if c["scheme"].lower() == "ca" and c.get("as_array") and c["contacts"] != "all":
            variants.append(True)
        for strict in variants:
            jobs.append((i, strict))
            coqcases.append((contacts_coq_case(c, strict), exp))
    bad, errs = ctx.coq_mismatches(["MD.Desc.ContactsModel"], ("ccase", "hres"), "hres_eqb", "run_contacts_min",
                                   coqcases, shard=shard_for(len(coqcases), lo=4))
    if errs:
        ctx.break_("correspondence:coqc-evaluation(contacts)", "\n".join(errs))
        return
    badset = {jobs[k] for k in bad}
    for i in hard:
        if (i, False) in badset:
            c, r = cases[i], results[i]
            if (i, True) in [j for j in jobs] and (i, True) not in badset:
                ctx.fail("compute_contacts(scheme='ca', contacts=<ndarray>) fails instead of skipping a pair without CA",
                         c, observed=r, expected="pair skipped (Coq contacts false ...)",
                         tags={"kind": "contacts", "explained_by": "ca_array_cur"})
            else:
                ctx.fail("compute_contacts: pairs/distances differ from the minimum over the designated atom pairs",
                         c, observed=r, expected="Coq run_contacts_min", tags={"kind": "contacts", "explained_by": None})
    # ---------- soft minimum: slices from the model, closed form in float64
    soft = [i for i, c in enumerate(cases) if not is_hard(c)]
    vals, errs = coq_values(ctx, ["MD.Desc.ContactsModel"], "ccase", "fun c => enc_cres (run_contacts_slices c)",
                            [contacts_coq_case(cases[i], False) for i in soft])
    if errs:
        ctx.break_("correspondence:coqc-evaluation(contact slices)", "\n".join(errs))
        return
    for i, v in zip(soft, vals):
        c, r = cases[i], results[i]
        beta = c["beta"] if c["beta"] is not None else 20
        if len(v) == 1 and len(v[0]) == 1 and len(v[0][0]) == 1 and v[0][0][0] < 0:
            code = -v[0][0][0]
            name = {1: "ENoPairs", 2: "ERange", 3: "EManyCA", 4: "EEmptyCA", 5: "EZeroSize", 6: "EAmbiguous"}.get(code)
            if "err" not in r or contacts_expected(r) != "(HErr %s)" % name:
                ctx.fail("compute_contacts(soft_min): error behaviour differs from the model", c, observed=r,
                         expected=name, tags={"kind": "contacts", "explained_by": None})
            continue
        if "err" in r and contacts_expected(r) == "(HErr EZeroSize)" and any(not sl for row in v[1:] for sl in row):
            continue   # repaired behaviour: an empty designated set is refused, as the hard minimum does
        if "err" in r:
            ctx.fail("compute_contacts(soft_min) raises %s where the model returns distances" % r["err"], c,
                     observed=r, expected="distances", tags={"kind": "contacts", "explained_by": None})
            continue
        mpairs, slices = v[0], v[1:]
        if r["pairs"] != mpairs:
            ctx.fail("compute_contacts(soft_min): residue_pairs differ from the model", c, observed=r["pairs"],
                     expected=mpairs, tags={"kind": "contacts", "explained_by": None})
            continue
        for fi, row in enumerate(slices):
            for k, sl in enumerate(row):
                num, den = r["values"][fi][k]
                got = None if isinstance(num, str) else num / den
                if not sl:
                    ctx.fail("compute_contacts(soft_min): no designated atom pair, yet a value is returned",
                             c, observed=r["values"][fi][k], expected="refusal (the minimum is refused: ValueError)",
                             tags={"kind": "contacts", "explained_by": "softmin_empty_cur"
                                   if got == 0.0 and r["signbit"][fi][k] else None})
                    continue
                if min(sl) == 0:
                    ctx.notes.setdefault("coverage_extra", {}).setdefault("excluded", {}).setdefault("softmin_d0", 0)
                    ctx.notes["coverage_extra"]["excluded"]["softmin_d0"] += 1
                    continue
                want = softmin_closed_form(sl, beta)
                if got is None or abs(got - want) > 2e-5 * want:
                    overflow = beta / (math.sqrt(min(sl)) / UNIT) > 88.0
                    ctx.fail("compute_contacts(soft_min): value differs from beta/log(sum(exp(beta/d))) in double precision",
                             c, observed=got, expected=want,
                             tags={"kind": "contacts", "pair": k, "frame": fi,
                                   "explained_by": "softmin_f32_overflow_cur" if (overflow and got == 0.0) else None})
    # ---------- squareform applied to the returned labels
    sq_in, sq_exp, sq_idx = [], [], []
    for i, (c, r) in enumerate(zip(cases, results)):
        if not c.get("squareform") or "err" in r or not is_hard(c):
            continue
        if "sq_err" in r:
            ctx.fail("squareform refuses the output of compute_contacts", c, observed=r["sq_err"], expected="maps",
                     tags={"kind": "squareform", "explained_by": None})
            continue
        for fi, row in enumerate(r["d2"]):
            sq_idx.append(i)
            sq_in.append(("(%s, %s)" % (clist([cz(x) for x in row]), c_pairs_nat(r["pairs"])),
                          clist([clist([cz(x) for x in mr]) for mr in r["sq"][fi]])))
    bad, errs = ctx.coq_mismatches(["MD.Desc.ContactsModel"], ("list Z * list (nat * nat)", "list (list Z)"),
                                   "list_eqb (list_eqb Z.eqb)", "(fun x => squareform (fst x) (snd x))", sq_in, shard=200)
    if errs:
        ctx.break_("correspondence:coqc-evaluation(squareform)", "\n".join(errs))
    for k in bad:
        ctx.fail("squareform(compute_contacts(...)): contact map differs from the labelled distances", cases[sq_idx[k]],
                 observed=results[sq_idx[k]].get("sq"), expected="Coq squareform", tags={"kind": "squareform", "explained_by": None})
    for c in cases:
        nt = c["contacts"] == "all" or len(c["contacts"]) > 1
        ctx.count(c, nontrivial=nt, bucket="contacts/%s/%s/%s%s" % (
            c["scheme"].lower(),
            ("all" + {None: "", True: "+ignore", False: "+keep-nonprotein"}[c.get("ignore_nonprotein")])
            if c["contacts"] == "all" else "explicit",
            "soft" if c["soft_min"] else "min",
            "/triclinic" if (c["periodic"] and isinstance(c["box"], dict)) else ("/pbc" if (c["periodic"] and c["box"]) else "")))


def gen_squareform_case(rng):
    n = rng.randint(2, 7)
    k = rng.randint(1, 8)
    seen, pairs = set(), []
    for _ in range(k):
        p = (rng.randrange(n), rng.randrange(n))
        if p in seen:
            continue
        if (p[1], p[0]) in seen and rng.random() < 0.8:
            continue
        seen.add(p)
        pairs.append(list(p))
    nf = rng.randint(1, 2)
    d = [[rng.randint(1, 999) for _ in pairs] for _ in range(nf)]
    return {"kind": "squareform", "d": d, "pairs": pairs}


def check_squareform(ctx, cases, results):
    inp, idx = [], []
    for i, (c, r) in enumerate(zip(cases, results)):
        ctx.count(c, nontrivial=len(c["pairs"]) > 1, bucket="squareform")
        if "err" in r:
            ctx.fail("squareform refuses valid input", c, observed=r, expected="maps", tags={"kind": "squareform", "explained_by": None})
            continue
        if not r["exact"]:
            ctx.break_("correspondence:squareform-exactness", "non-integer entries")
            continue
        for fi, row in enumerate(c["d"]):
            idx.append(i)
            inp.append(("(%s, %s)" % (clist([cz(x) for x in row]), c_pairs_nat(c["pairs"])),
                        clist([clist([cz(x) for x in mr]) for mr in r["m"][fi]])))
    bad, errs = ctx.coq_mismatches(["MD.Desc.ContactsModel"], ("list Z * list (nat * nat)", "list (list Z)"),
                                   "list_eqb (list_eqb Z.eqb)", "(fun x => squareform (fst x) (snd x))", inp, shard=200)
    if errs:
        ctx.break_("correspondence:coqc-evaluation(squareform)", "\n".join(errs))
    for k in sorted(set(idx[b] for b in bad)):
        ctx.fail("squareform: contact map differs from the labelled distances", cases[k], observed=results[k],
                 expected="Coq squareform", tags={"kind": "squareform", "explained_by": None})


# =====================================================================================
# float64 magnitudes compared with exact rationals inside coqc
# =====================================================================================
def cq(nd):
    n, d = nd
    return "(Qmake (%d) %d)" % (n, d)


def cqf(fr):
    fr = Fraction(fr)
    return "(Qmake (%d) %d)" % (fr.numerator, fr.denominator)


def finite(x):
    """nested [n, d] lists contain no nan/inf marker"""
    if isinstance(x, list) and len(x) == 2 and not isinstance(x[0], list):
        return not isinstance(x[0], str)
    return all(finite(y) for y in x)


def flat_q(x):
    if isinstance(x, list) and len(x) == 2 and not isinstance(x[0], list):
        return [x]
    out = []
    for y in x:
        out += flat_q(y)
    return out


def c_zframes(xyz):
    return clist([clist([c_vec(v) for v in f]) for f in xyz])


QPRE = "From Coq Require Import QArith.\nClose Scope Q_scope."
def shard_for(n, jobs=8, lo=1):
    """cases per coqc job so that about `jobs` jobs run in parallel"""
    return max(lo, -(-n // jobs))

BOUNDS = {
    "history (coordinates off the 1/64 nm grid: float32 kernels are inexact)": "drid 5e-6 rel, dipole 1e-5 abs",
    "centre_abs_nm": "1e-11", "gyration_abs_nm2": "1e-10", "principal_moment_coefficients_rel": "1e-9",
    "shape_descriptor_rel": "1e-9", "rg2_abs_nm2 (float32 kernel)": "2e-5", "density_rel (float32 cell volume)": "2e-6",
    "rdf_mixed (float32 cell volume)": "1e-5", "softmin_rel (float32)": "2e-5", "drid_rel": "1e-9",
    "karplus_abs_Hz (float32 phi)": "1e-4*(|A|+|B|+|C|)", "dipole_abs": "1e-9",
}


def gen_geom_case(rng, kind, n_res=None):
    top = gen_topology(rng, n_res or rng.randint(1, 6), p_odd=0.3)
    while top_natoms(top) < 3:
        top = gen_topology(rng, rng.randint(2, 6), p_odd=0.3)
    na = top_natoms(top)
    return {"kind": kind, "top": top, "unit": UNIT, "xyz": gen_xyz(rng, rng.randint(1, 3), na), "box": None}


def atom_syms(top):
    return [e for r in top for _a, e in r[2]]


def atom_names(top):
    return [a for r in top for a, _e in r[2]]


def dyadic(rng, lo=1, hi=32, den=8):
    return [rng.randint(lo, hi), den]


# ---- centres
def gen_centres_case(rng):
    c = gen_geom_case(rng, "centres")
    na = top_natoms(c["top"])
    r = rng.random()
    if r < 0.4:
        idx = sorted(rng.sample(range(na), rng.randint(1, na)))
        c["select"] = "index " + " ".join(str(i) for i in idx)
        c["sel_expected"] = idx
    elif r < 0.6:
        nm = rng.choice(sorted(set(atom_names(c["top"]))))
        c["select"] = "name %s" % nm if nm.isalnum() and not nm[0].isdigit() else None
        c["sel_expected"] = [i for i, x in enumerate(atom_names(c["top"])) if x == nm] if c["select"] else None
    else:
        c["select"] = None
    return c


def check_centres(ctx, cases, results):
    items = []  # (case index, what, model_fn, coq input, expected)
    for i, (c, r) in enumerate(zip(cases, results)):
        ctx.count(c, nontrivial=top_natoms(c["top"]) > 1, bucket="centres/%s" % ("select" if c.get("select") else "all"))
        syms = atom_syms(c["top"])
        for what in ("com", "cog", "com_sel"):
            if what not in r:
                continue
            v = r[what]
            if isinstance(v, dict) or not finite(v):
                ctx.fail("compute_center_of_%s fails or returns non-finite values" % ("mass" if what != "cog" else "geometry"),
                         c, observed=v, expected="finite centres", tags={"kind": "centres", "explained_by": None})
                continue
            exp = clist([cq(x) for x in flat_q(v)])
            if what == "com":
                items.append((i, what, "run_com_sym", "(%s, %s, %s, %s)" % (
                    cqf("1e-11"), cz(c["unit"]), clist([cstr(x) for x in syms]), c_zframes(c["xyz"])), exp))
            elif what == "cog":
                items.append((i, what, "run_cog", "(%s, %s, %s)" % (cqf("1e-11"), cz(c["unit"]), c_zframes(c["xyz"])), exp))
            else:
                idx = c["sel_expected"]
                if r.get("sel_idx") != idx:
                    ctx.break_("correspondence:selection", "select %r gave %s, generator expected %s" % (
                        c["select"], r.get("sel_idx"), idx))
                    continue
                items.append((i, what, "run_com_sym", "(%s, %s, %s, %s)" % (
                    cqf("1e-11"), cz(c["unit"]), clist([cstr(syms[k]) for k in idx]),
                    c_zframes([[f[k] for k in idx] for f in c["xyz"]])), exp))
    for fn, ty in (("run_com_sym", "Q * Z * list string * list (list zvec)"), ("run_cog", "Q * Z * list (list zvec)")):
        sub = [it for it in items if it[2] == fn]
        bad, errs = ctx.coq_mismatches(["MD.Desc.AlgebraModel"], (ty, "list Q"), "close_res", fn,
                                       [(it[3], it[4]) for it in sub], shard=shard_for(len(sub), lo=2), prelude=QPRE)
        if errs:
            ctx.break_("correspondence:coqc-evaluation(centres)", "\n".join(errs))
            continue
        for k in bad:
            i, what = sub[k][0], sub[k][1]
            ctx.fail("compute_center_of_%s differs from sum(m_i r_i)/sum(m_i)" % ("geometry" if what == "cog" else "mass"),
                     cases[i], observed=results[i][what], expected="Coq %s" % fn,
                     tags={"kind": "centres", "what": what, "explained_by": None})


# ---- radius of gyration
def gen_rg_case(rng):
    c = gen_geom_case(rng, "rg")
    if rng.random() < 0.6:
        na = top_natoms(c["top"])
        c["masses"] = [dyadic(rng, 1, 40, 8) for _ in range(na)]
        if rng.random() < 0.2:
            c["masses"] = [[8, 8]] * na
    else:
        c["masses"] = None
    return c


def check_rg(ctx, cases, results):
    jobs, coq = [], []
    for i, (c, r) in enumerate(zip(cases, results)):
        ctx.count(c, nontrivial=True, bucket="rg/%s" % ("masses" if c["masses"] else "default"))
        v = r["rg"]
        if isinstance(v, dict) or not finite(v):
            ctx.fail("compute_rg fails or returns non-finite values", c, observed=v, expected="finite",
                     tags={"kind": "rg", "explained_by": None})
            continue
        sq = [Fraction(n, d) ** 2 for n, d in v]
        exp = clist([cqf(x) for x in sq])
        na = top_natoms(c["top"])
        ms = c["masses"] if c["masses"] else [[1, 1]] * na
        for fix in (True, False):
            jobs.append((i, fix))
            coq.append(("(%s, %s, %s, %s, %s)" % (cqf("2e-5"), cbool(fix), cz(c["unit"]), clist([cq(m) for m in ms]),
                                                  c_zframes(c["xyz"])), exp))
    bad, errs = ctx.coq_mismatches(["MD.Desc.AlgebraModel"], ("Q * bool * Z * list Q * list (list zvec)", "list Q"),
                                   "close_res", "run_rg2", coq, shard=shard_for(len(coq), lo=2), prelude=QPRE)
    if errs:
        ctx.break_("correspondence:coqc-evaluation(rg)", "\n".join(errs))
        return
    badset = {jobs[k] for k in bad}
    for i, c in enumerate(cases):
        if (i, True) in badset:
            cur_ok = (i, False) not in badset and (i, False) in jobs
            ctx.fail("compute_rg(masses): value is not the mass-weighted radius of gyration about the centre of mass"
                     if c["masses"] else "compute_rg: value differs from sqrt(mean |r - centre|^2)",
                     c, observed=results[i]["rg"], expected="Coq rg2_fix",
                     tags={"kind": "rg", "explained_by": "rg_centre_cur" if (cur_ok and c["masses"]) else None})


# ---- gyration tensor and shape descriptors
def check_shape(ctx, cases, results):
    t_in, m_in, s_in, idx = [], [], [], []
    for i, (c, r) in enumerate(zip(cases, results)):
        ctx.count(c, nontrivial=True, bucket="shape")
        bad = [k for k in ("tensor", "pm", "b", "c", "k") if isinstance(r[k], dict) or not finite(r[k])]
        if bad or not r["alias"]:
            ctx.fail("shape descriptor functions fail or return non-finite values (%s)" % bad, c, observed=r,
                     expected="finite", tags={"kind": "shape", "explained_by": None})
            continue
        idx.append(i)
        t_in.append(("(%s, %s, %s)" % (cqf("1e-10"), cz(c["unit"]), c_zframes(c["xyz"])), clist([cq(x) for x in flat_q(r["tensor"])])))
        fl, fs = [], []
        for f, lam, b, cc, k in zip(c["xyz"], r["pm"], r["b"], r["c"], r["k"]):
            lamq = "(%s, %s, %s)" % (cq(lam[0]), cq(lam[1]), cq(lam[2]))
            fl.append("(%s, %s)" % (clist([c_vec(v) for v in f]), lamq))
            fs.append("(%s, %s, (%s, %s, %s))" % (clist([c_vec(v) for v in f]), lamq, cq(b), cq(cc), cq(k)))
        m_in.append(("(%s, %s, %s)" % (cqf("1e-9"), cz(c["unit"]), clist(fl)), clist(["(Qmake 0 1)"] * (5 * len(fl)))))
        s_in.append(("(%s, %s, %s)" % (cqf("1e-9"), cz(c["unit"]), clist(fs)), clist(["(Qmake 0 1)"] * (4 * len(fs)))))
    for what, fn, ty, inp, desc in (
            ("tensor", "run_gyration", "Q * Z * list (list zvec)", t_in,
             "compute_gyration_tensor differs from (1/N) sum (r-c)(r-c)^T about the centre of geometry"),
            ("pm", "run_moments", "Q * Z * list (list zvec * qvec)", m_in,
             "principal_moments are not the ascending roots of the characteristic polynomial of the gyration tensor"),
            ("shape", "run_shape", "Q * Z * list (list zvec * qvec * (Q * Q * Q))", s_in,
             "asphericity/acylindricity/relative_shape_antisotropy differ from their formulas in the principal moments")):
        bad, errs = ctx.coq_mismatches(["MD.Desc.AlgebraModel"], (ty, "list Q"), "close_res", fn, inp, shard=shard_for(len(inp)), prelude=QPRE)
        if errs:
            ctx.break_("correspondence:coqc-evaluation(%s)" % what, "\n".join(errs))
            continue
        for k in bad:
            ctx.fail(desc, cases[idx[k]], observed=results[idx[k]], expected="Coq %s" % fn,
                     tags={"kind": "shape", "what": what, "explained_by": None})


# ---- density
def gen_density_case(rng):
    c = gen_geom_case(rng, "density")
    nf = len(c["xyz"])
    r = rng.random()
    if r < 0.25:
        c["box"] = gen_box(rng, 64, 400)
    elif r < 0.5:
        c["box"] = [gen_box(rng, 64, 400) for _ in range(nf)]
    elif r < 0.7:       # one triclinic cell (standard orientation, on the grid) for all frames
        c["box"] = gen_tri_box(rng, lo=rng.choice([40, 200]), hi=400)
    else:               # a different triclinic cell in every frame
        c["box"] = {"tri_frames": [gen_tri_box(rng, lo=rng.choice([40, 200]), hi=400)["tri"] for _ in range(nf)]}
    c["masses"] = [dyadic(rng, 1, 400, 16) for _ in range(top_natoms(c["top"]))] if rng.random() < 0.5 else None
    return c


def box_per_frame(c):
    b = c["box"]
    return b if isinstance(b[0], list) else [b] * len(c["xyz"])


def cells_per_frame(c):
    """cell vectors (rows a, b, c in grid units) of every frame"""
    b = c["box"]
    if isinstance(b, dict):
        return b["tri_frames"] if "tri_frames" in b else [b["tri"]] * len(c["xyz"])
    return [[[l[0], 0, 0], [0, l[1], 0], [0, 0, l[2]]] for l in box_per_frame(c)]


def check_density(ctx, cases, results):
    sym_in, mass_in, si, mi = [], [], [], []
    for i, (c, r) in enumerate(zip(cases, results)):
        ctx.count(c, nontrivial=True, bucket="density/%s/%s" % ("masses" if c["masses"] else "elements",
                                                                  "triclinic" if isinstance(c["box"], dict) else "orthorhombic"))
        v = r["density"]
        if isinstance(v, dict) or not finite(v):
            ctx.fail("density fails or returns non-finite values", c, observed=v, expected="finite",
                     tags={"kind": "density", "explained_by": None})
            continue
        cells = clist(["(%s, %s, %s)" % tuple(c_vec(x) for x in cell) for cell in cells_per_frame(c)])
        exp = clist([cq(x) for x in v])
        if c["masses"]:
            mi.append(i)
            mass_in.append(("(%s, %s, %s, %s)" % (cqf("2e-6"), cz(c["unit"]), clist([cq(m) for m in c["masses"]]), cells), exp))
        else:
            si.append(i)
            sym_in.append(("(%s, %s, %s, %s)" % (cqf("2e-6"), cz(c["unit"]), clist([cstr(x) for x in atom_syms(c["top"])]), cells), exp))
    for fn, ty, inp, ix in (("run_density_cells", "Q * Z * list Q * list cellz", mass_in, mi),
                            ("run_density_cells_sym", "Q * Z * list string * list cellz", sym_in, si)):
        bad, errs = ctx.coq_mismatches(["MD.Desc.AlgebraModel", "MD.Desc.DensityModel"], (ty, "list Q"), "close_res_rel", fn, inp,
                                       shard=shard_for(len(inp), lo=4), prelude=QPRE)
        if errs:
            ctx.break_("correspondence:coqc-evaluation(density)", "\n".join(errs))
            continue
        for k in bad:
            ctx.fail("density differs from total mass / cell volume a.(b x c) * 1.66053878 (kg/m^3 per Da/nm^3)", cases[ix[k]],
                     observed=results[ix[k]], expected="Coq %s" % fn, tags={"kind": "density", "explained_by": None})


# ---- RDF
def gen_rdf_case(rng, i):
    c = gen_geom_case(rng, "rdf", n_res=rng.randint(2, 5))
    na = top_natoms(c["top"])
    c["box"] = gen_box(rng, 160, 330) if rng.random() < 0.5 else [gen_box(rng, 160, 330) for _ in c["xyz"]]
    c["periodic"] = rng.random() < 0.7
    npairs = rng.randint(1, 25)
    c["pairs"] = [rng.sample(range(na), 2) for _ in range(npairs)]
    c["opt"] = None if rng.random() < 0.7 else False
    mode = i % 4
    if mode == 0:      # n_bins given, edges on the 1/64 grid
        r0 = rng.randint(0, 64)
        w = rng.randint(4, 40)
        n = rng.randint(1, 12)
        c["r_range"], c["n_bins"], c["bin_width"] = [[r0, 64], [r0 + n * w, 64]], n, None
    elif mode == 1:    # bin_width dividing the range exactly (dyadic)
        r0 = rng.randint(0, 64)
        w = rng.randint(4, 40)
        n = rng.randint(1, 12)
        c["r_range"], c["n_bins"], c["bin_width"] = [[r0, 64], [r0 + n * w, 64]], None, [w, 64]
    elif mode == 2:    # bin_width not dividing the range: floor, bins stretched over the range
        r0 = rng.randint(0, 32)
        w = rng.randint(8, 40)
        n = rng.randint(1, 8)
        c["r_range"], c["n_bins"] = [[r0, 64], [r0 + n * w, 64]], None
        c["bin_width"] = [w * 8 - rng.randint(1, 7 if n > 1 else 3), 64 * 8] if n * 8 // 7 == n else [w, 64]
    else:              # decimal settings (not representable): default range and/or decimal widths
        c["r_range"] = None if rng.random() < 0.5 else [list(float(x).as_integer_ratio()) for x in
                                                        rng.choice([(0.0, 0.9), (0.1, 1.3), (0.25, 2.0), (0.0, 3.0), (0.0, 0.3), (0.0, 0.7)])]
        if rng.random() < 0.5:
            c["n_bins"], c["bin_width"] = rng.choice([3, 7, 10, 25]), None
        else:
            c["n_bins"] = None
            c["bin_width"] = list(float(rng.choice([0.05, 0.1, 0.2, 0.07, 0.125])).as_integer_ratio())
    return c


def rdf_coq_case(c, tol="1e-5"):
    rr = c["r_range"] or [[0, 1], [1, 1]]
    if c["n_bins"] is not None:
        b = "(inl %s)" % cnat(c["n_bins"])
    else:
        b = "(inr %s)" % cq(c["bin_width"] or list((0.005).as_integer_ratio()))
    frames = clist(["(%s, %s)" % (c_vec(bx), clist([c_vec(v) for v in f])) for bx, f in zip(box_per_frame(c), c["xyz"])])
    return "(%s, %s, %s, %s, %s, %s, %s, %s)" % (cqf(tol), cz(UNIT), cq(rr[0]), cq(rr[1]), b, c_pairs_nat(c["pairs"]),
                                                 cbool(c["periodic"]), frames)


def check_rdf(ctx, cases, results):
    guards, errs = coq_values(ctx, ["MD.Desc.RdfModel"], "rcase", "run_rdf_guard", [rdf_coq_case(c) for c in cases])
    if errs:
        ctx.break_("correspondence:coqc-evaluation(rdf guard)", "\n".join(errs))
        return
    inp, idx = [], []
    excl = 0
    for i, (c, r) in enumerate(zip(cases, results)):
        if guards[i] != [1]:
            excl += 1
            continue
        ctx.count(c, nontrivial=len(c["pairs"]) > 1, bucket="rdf/%s%s" % (
            "n_bins" if c["n_bins"] is not None else "bin_width", "/pbc" if c["periodic"] else ""))
        if "err" in r or not finite(r["r"]) or not finite(r["g"]) or not r["same_len"]:
            ctx.fail("compute_rdf fails or returns non-finite values", c, observed=r, expected="r, g(r)",
                     tags={"kind": "rdf", "explained_by": None})
            continue
        idx.append(i)
        inp.append((rdf_coq_case(c), clist([cqf(r["n"])] + [cq(x) for x in r["r"]] + [cq(x) for x in r["g"]])))
        # documented meaning of bin_width: width of the bins
        if c["n_bins"] is None:
            rr = c["r_range"] or [[0, 1], [1, 1]]
            bw = Fraction(*(c["bin_width"] or (0.005).as_integer_ratio()))
            q = (Fraction(*rr[1]) - Fraction(*rr[0])) / bw
            if abs(q - round(q)) < Fraction(1, 10 ** 9) and r["n"] != round(q):
                ctx.fail("compute_rdf: (r_max - r_min)/bin_width is an integer up to rounding but one bin fewer is used "
                         "(bins are wider than bin_width)", c, observed=r["n"], expected=int(round(q)),
                         tags={"kind": "rdf", "explained_by": "rdf_nbins_float_truncation_cur"})
    ctx.notes.setdefault("coverage_extra", {}).setdefault("excluded", {})["rdf_guard_band"] = excl
    bad, errs = ctx.coq_mismatches(["MD.Desc.RdfModel"], ("rcase", "list Q"), "close_res_mixed", "run_rdf", inp, shard=shard_for(len(inp)), prelude=QPRE)
    if errs:
        ctx.break_("correspondence:coqc-evaluation(rdf)", "\n".join(errs))
        return
    for k in bad:
        ctx.fail("compute_rdf: bin count, bin centres or g(r) differ from counts/(n_pairs*sum(1/V)*4/3 pi (r_hi^3-r_lo^3))",
                 cases[idx[k]], observed=results[idx[k]], expected="Coq run_rdf", tags={"kind": "rdf", "explained_by": None})


# ---- DRID
def gen_drid_case(rng):
    c = gen_geom_case(rng, "drid", n_res=rng.randint(1, 4))
    na = top_natoms(c["top"])
    nb = rng.randint(0, na)
    bonds = set()
    for _ in range(nb):
        a, b = rng.sample(range(na), 2)
        bonds.add((a, b))
    c["bonds"] = [list(b) for b in sorted(bonds)]
    if rng.random() < 0.5:
        k = rng.randint(2, na)
        ai = rng.sample(range(na), k)
        if rng.random() < 0.5:
            ai.sort()
        c["atom_indices"] = ai
    else:
        c["atom_indices"] = None
    return c


def cbrt(x):
    return math.copysign(abs(x) ** (1.0 / 3.0), x)


def check_drid(ctx, cases, results):
    inp = []
    for c in cases:
        ai = c["atom_indices"] if c["atom_indices"] is not None else list(range(top_natoms(c["top"])))
        inp.append("(%s, %s)" % (c_pairs_nat(c["bonds"]), clist([cnat(a) for a in ai])))
    tables, errs = coq_values(ctx, ["MD.Desc.MomentsModel"], "list (nat * nat) * list nat", "run_drid_partners", inp)
    if errs:
        ctx.break_("correspondence:coqc-evaluation(drid partners)", "\n".join(errs))
        return
    for c, r, tab in zip(cases, results, tables):
        ai = c["atom_indices"] if c["atom_indices"] is not None else list(range(top_natoms(c["top"])))
        ctx.count(c, nontrivial=len(ai) > 2, bucket="drid/%s" % ("subset" if c["atom_indices"] is not None else "all"))
        if any(len(row) == 0 for row in tab):
            ctx.notes.setdefault("coverage_extra", {}).setdefault("excluded", {}).setdefault("drid_no_partner", 0)
            ctx.notes["coverage_extra"]["excluded"]["drid_no_partner"] += 1
            continue
        if "err" in r or r["shape"] != [len(c["xyz"]), 3 * len(ai)] or not finite(r["x"]):
            ctx.fail("compute_drid fails, returns a wrong shape or non-finite values", c, observed=r,
                     expected=[len(c["xyz"]), 3 * len(ai)], tags={"kind": "drid", "explained_by": None})
            continue
        worst = None
        for fi, f in enumerate(c["xyz"]):
            for j, a in enumerate(ai):
                xs = []
                for b in tab[j]:
                    m = sum((f[a][k] - f[b][k]) ** 2 for k in range(3))
                    xs.append(c["unit"] / math.sqrt(m) if m else float("inf"))
                if any(math.isinf(x) for x in xs):
                    continue
                n = len(xs)
                mu = math.fsum(xs) / n
                m2 = math.fsum((x - mu) ** 2 for x in xs) / n
                m3 = math.fsum((x - mu) ** 3 for x in xs) / n
                got = [Fraction(*r["x"][fi][3 * j + k]) for k in range(3)]
                scale = max(xs)
                e0 = abs(float(got[0]) - mu) / scale
                e1 = abs(float(got[1]) ** 2 - m2) / scale ** 2
                e2 = abs(float(got[2]) ** 3 - m3) / scale ** 3
                e = max(e0, e1, e2)
                if e > (1e-9 if c["unit"] == UNIT else 5e-6) and (worst is None or e > worst[0]):
                    worst = (e, fi, j, [float(g) for g in got], [mu, math.sqrt(m2), cbrt(m3)])
        if worst:
            ctx.fail("compute_drid: moments differ from mean / sqrt(2nd central) / cbrt(3rd central) of the reciprocal "
                     "distances to the non-bonded selected atoms", c, observed=worst[3], expected=worst[4],
                     tags={"kind": "drid", "frame": worst[1], "atom_slot": worst[2], "explained_by": None})


# ---- Karplus
PUBLISHED = {  # (phi0 in degrees, A, B, C); pinned against the source by theorem karplus_coefficients_published
    "HA": {"Ruterjans1999": (-60, 7.90, -1.05, 0.65), "Bax2007": (-60, 8.4, -1.36, 0.33), "Bax1997": (-60, 7.09, -1.42, 1.55)},
    "C": {"Bax2007": (180, 4.36, -1.08, -0.01)},
    "CB": {"Bax2007": (60, 3.71, -0.59, 0.08)},
}


def gen_karplus_case(rng):
    n_res = rng.randint(2, 7)
    top = gen_topology(rng, n_res, p_odd=0.15, p_drop=0.1)
    which = rng.choice(["HA", "C", "CB"])
    model = rng.choice(sorted(PUBLISHED[which]) + [None])
    return {"kind": "karplus", "top": top, "unit": UNIT, "xyz": gen_xyz(rng, rng.randint(1, 2), top_natoms(top)),
            "box": None, "which": which, "model": model}


def dihedral64(p0, p1, p2, p3):
    import numpy as np
    b1, b2, b3 = p1 - p0, p2 - p1, p3 - p2
    c1, c2 = np.cross(b2, b3), np.cross(b1, b2)
    return math.atan2(float(np.dot(b1, c1) * np.linalg.norm(b2)), float(np.dot(c2, c1)))


def expected_phi_quads(top):
    """[C(i-1), N(i), CA(i), C(i)] for consecutive residues of one chain (first atom of each name)"""
    quads = []
    base = 0
    info = []
    for rn, ch, atoms in top:
        names = {}
        for k, (a, _e) in enumerate(atoms):
            names.setdefault(a, base + k)
        info.append((ch, names))
        base += len(atoms)
    return info


def check_karplus(ctx, cases, results):
    import numpy as np
    for c, r in zip(cases, results):
        ctx.count(c, nontrivial="err" not in r and len(r.get("indices", [])) > 1, bucket="karplus/%s" % c["which"])
        if "err" in r:
            # compute_phi on a topology without any phi: mdtraj raises; nothing to compare
            continue
        if r["indices"] != r["phi_indices"] or r["shape"] != [len(c["xyz"]), len(r["indices"])]:
            ctx.fail("compute_J3_HN_*: returned indices are not the phi quadruplets or the shape does not match them",
                     c, observed=r["indices"], expected=r["phi_indices"], tags={"kind": "karplus", "explained_by": None})
            continue
        names = atom_names(c["top"])
        resid = [ri for ri, rr in enumerate(c["top"]) for _ in rr[2]]
        chain = [rr[1] for rr in c["top"] for _ in rr[2]]
        for q in r["indices"]:
            ok = ([names[a] for a in q] == ["C", "N", "CA", "C"] and resid[q[1]] == resid[q[2]] == resid[q[3]]
                  and resid[q[0]] + 1 == resid[q[1]] and chain[q[0]] == chain[q[1]])
            if not ok:
                ctx.fail("compute_J3_HN_*: an index row is not (C of residue i-1, N, CA, C of residue i)", c,
                         observed=q, expected="C,N,CA,C", tags={"kind": "karplus", "explained_by": None})
        deg, A, B, C = PUBLISHED[c["which"]][c["model"] or "Bax2007"]
        phi0 = deg * math.pi / 180.0
        for fi, f in enumerate(c["xyz"]):
            pts = np.array(f, dtype=np.float64) / UNIT
            for k, q in enumerate(r["indices"]):
                phi = float(Fraction(*r["phi"][fi][k])) if finite(r["phi"][fi][k]) else float("nan")
                ref = dihedral64(*[pts[a] for a in q])
                dphi = abs((phi - ref + math.pi) % (2 * math.pi) - math.pi)
                if not (dphi < 2e-3):
                    # degenerate (collinear) quadruplets are ill-conditioned: only flag clear disagreements
                    b = [pts[q[1]] - pts[q[0]], pts[q[2]] - pts[q[1]], pts[q[3]] - pts[q[2]]]
                    if min(np.linalg.norm(np.cross(b[0], b[1])), np.linalg.norm(np.cross(b[1], b[2]))) > 1e-2:
                        ctx.fail("compute_phi: angle does not belong to the returned atom quadruplet", c,
                                 observed=phi, expected=ref, tags={"kind": "karplus", "explained_by": None})
                    continue
                cs = math.cos(phi + phi0)
                want = A * cs * cs + B * cs + C
                if not finite(r["J"][fi][k]) or abs(float(Fraction(*r["J"][fi][k])) - want) > 1e-4 * (abs(A) + abs(B) + abs(C)):
                    ctx.fail("compute_J3_HN_%s: J differs from A cos^2(phi+phi0) + B cos(phi+phi0) + C with the published "
                             "coefficients" % c["which"], c, observed=r["J"][fi][k], expected=want,
                             tags={"kind": "karplus", "explained_by": None})


# ---- dipole moments
def gen_dipole_case(rng):
    c = gen_geom_case(rng, "dipole", n_res=rng.randint(1, 4))
    na = top_natoms(c["top"])
    c["box"] = [1024 + 64 * rng.randint(0, 4)] * 3
    q = [rng.randint(-16, 16) for _ in range(na)]
    if rng.random() < 0.7:
        q[-1] -= sum(q)     # neutral
    c["charges"] = [[x, 16] for x in q]
    return c


def check_dipole(ctx, cases, results):
    for c, r in zip(cases, results):
        ctx.count(c, nontrivial=True, bucket="dipole")
        v = r["mu"]
        if isinstance(v, dict) or not finite(v):
            ctx.fail("dipole_moments fails", c, observed=v, expected="finite", tags={"kind": "dipole", "explained_by": None})
            continue
        q = [Fraction(*x) for x in c["charges"]]
        for fi, f in enumerate(c["xyz"]):
            want = [sum(q[a] * Fraction(f[a][k] - f[0][k], c["unit"]) for a in range(len(f))) for k in range(3)]
            got = [Fraction(*v[fi][k]) for k in range(3)]
            tol = Fraction(1, 10 ** 9) if c["unit"] == UNIT else Fraction(1, 10 ** 5)   # float32 displacements off the grid
            if all(abs(g - w) <= tol for g, w in zip(got, want)):
                continue
            neg = all(abs(g + w) <= tol for g, w in zip(got, want))
            ctx.fail("dipole_moments: result is not sum_i q_i (r_i - r_0)" + (" (it is its negative)" if neg else ""),
                     c, observed=[float(g) for g in got], expected=[float(w) for w in want],
                     tags={"kind": "dipole", "explained_by": "dipole_sign_cur" if neg else None})
            break


# ---- order.py: inertia tensor, directors, nematic order
def c_raw_rows(top):
    return clist(["(%s, %s, %s)" % (cstr(rn), cnat(ch), clist(["(%s, %s)" % (cstr(a), cstr(e)) for a, e in atoms]))
                  for rn, ch, atoms in top])


def _group_sizes(top, mode):
    if mode == "residues":
        return [len(r[2]) for r in top]
    sizes, cur = [], None
    for r in top:
        if r[1] != cur:
            sizes.append(0)
            cur = r[1]
        sizes[-1] += len(r[2])
    return sizes


def gen_order_case(rng, i):
    mode = ["chains", "residues", "explicit"][i % 3]
    while True:
        top = gen_topology(rng, rng.randint(2, 5), p_odd=0.2, p_drop=0.1)
        if mode == "residues":
            top = [r for r in top if len(r[2]) >= 3]
        if top and top_natoms(top) >= 4 and (mode == "explicit" or min(_group_sizes(top, mode)) >= 3):
            break
    na = top_natoms(top)
    c = {"kind": "order", "top": top, "unit": UNIT, "xyz": gen_xyz(rng, rng.randint(1, 2), na), "box": None}
    if mode == "explicit":
        ng = rng.randint(1, 4)
        c["indices"] = [sorted(rng.sample(range(na), rng.randint(3, min(na, 8)))) for _ in range(ng)]
    else:
        c["indices"] = mode if rng.random() < 0.8 else mode.upper()
    return c


def c_gspec(c):
    g = c["indices"]
    if isinstance(g, str):
        return "GChains" if g.lower() == "chains" else "GResidues"
    return "(GExplicit %s)" % clist([clist([cnat(a) for a in grp]) for grp in g])


def c_qvec(v):
    return "(%s, %s, %s)" % (cq(v[0]), cq(v[1]), cq(v[2]))


def check_inertia(ctx, cases, results):
    inp, idx = [], []
    for i, (c, r) in enumerate(zip(cases, results)):
        ctx.count(c, nontrivial=True, bucket="inertia")
        v = r["I"]
        if isinstance(v, dict) or not finite(v):
            ctx.fail("compute_inertia_tensor fails or returns non-finite values", c, observed=v, expected="finite",
                     tags={"kind": "inertia", "explained_by": None})
            continue
        idx.append(i)
        inp.append(("(%s, %s, %s, %s)" % (cqf("1e-10"), cz(c["unit"]), clist([cstr(x) for x in atom_syms(c["top"])]),
                                          c_zframes(c["xyz"])), clist([cq(x) for x in flat_q(v)])))
    bad, errs = ctx.coq_mismatches(["MD.Desc.AlgebraModel", "MD.Desc.RdfModel", "MD.Desc.OrderModel"],
                                   ("Q * Z * list string * list (list zvec)", "list Q"),
                                   "close_res_mixed", "run_inertia", inp, shard=shard_for(len(inp)), prelude=QPRE)
    if errs:
        ctx.break_("correspondence:coqc-evaluation(inertia)", "\n".join(errs))
        return
    for k in bad:
        ctx.fail("compute_inertia_tensor differs from sum m_i (|r_i-c|^2 delta_ab - (r_i-c)_a (r_i-c)_b) about the centre of mass",
                 cases[idx[k]], observed=results[idx[k]], expected="Coq run_inertia", tags={"kind": "inertia", "explained_by": None})


def check_order(ctx, cases, results):
    ng, errs = coq_values(ctx, ["MD.Desc.OrderModel"], "list rawres * gspec", "run_ngroups",
                          ["(%s, %s)" % (c_raw_rows(c["top"]), c_gspec(c)) for c in cases])
    if errs:
        ctx.break_("correspondence:coqc-evaluation(order groups)", "\n".join(errs))
        return
    d_in, n_in, didx, nidx = [], [], [], []
    for i, (c, r) in enumerate(zip(cases, results)):
        ctx.count(c, nontrivial=ng[i][0] > 1, bucket="order/%s" % (c["indices"].lower() if isinstance(c["indices"], str) else "explicit"))
        d = r["directors"]
        if isinstance(d, dict) or not finite(d) or isinstance(r["S2"], dict) or not finite(r["S2"]):
            ctx.fail("compute_directors / compute_nematic_order fail or return non-finite values", c, observed=r,
                     expected="directors, S2", tags={"kind": "order", "explained_by": None})
            continue
        if r["shape"] != [len(c["xyz"]), ng[i][0], 3]:
            ctx.fail("compute_directors: number of groups differs from the chains/residues/index lists", c,
                     observed=r["shape"], expected=[len(c["xyz"]), ng[i][0], 3], tags={"kind": "order", "explained_by": None})
            continue
        didx.append(i)
        fl = clist(["(%s, %s)" % (clist([c_vec(v) for v in f]), clist([c_qvec(v) for v in dv]))
                    for f, dv in zip(c["xyz"], d)])
        d_in.append(("(%s, %s, %s, %s, %s)" % (cqf("1e-9"), cz(UNIT), c_raw_rows(c["top"]), c_gspec(c), fl),
                     clist(["(Qmake 0 1)"] * (4 * ng[i][0] * len(c["xyz"])))))
        nidx.append(i)
        n_in.append(("(%s, %s)" % (cqf("1e-9"), clist(["(%s, %s)" % (clist([c_qvec(v) for v in dv]), cq(s2))
                                                      for dv, s2 in zip(d, r["S2"])])),
                     clist(["(Qmake 0 1)"] * (3 * len(c["xyz"])))))
    for what, fn, ty, inp, ix, desc in (
            ("directors", "run_directors", "Q * Z * list rawres * gspec * list (list zvec * list qvec)", d_in, didx,
             "compute_directors: a director is not a unit eigenvector of the least eigenvalue of its group's inertia tensor"),
            ("nematic", "run_nematic", "Q * list (list qvec * Q)", n_in, nidx,
             "compute_nematic_order: S2 is not the largest eigenvalue of Q = 1/(2N) sum (3 e e^T - 1) of the directors")):
        bad, errs = ctx.coq_mismatches(["MD.Desc.AlgebraModel", "MD.Desc.OrderModel"], (ty, "list Q"), "close_res", fn, inp,
                                       shard=shard_for(len(inp)), prelude=QPRE)
        if errs:
            ctx.break_("correspondence:coqc-evaluation(%s)" % what, "\n".join(errs))
            continue
        for k in bad:
            ctx.fail(desc, cases[ix[k]], observed=results[ix[k]], expected="Coq %s" % fn,
                     tags={"kind": "order", "what": what, "explained_by": None})


# ---- compute_rdf_t
def gen_rdf_t_case(rng, i):
    c = gen_rdf_case(rng, i if i % 4 != 3 else 0)
    c["kind"] = "rdf_t"
    nf = rng.randint(2, 4)
    na = top_natoms(c["top"])
    c["xyz"] = gen_xyz(rng, nf, na)
    if isinstance(c["box"][0], list):
        c["box"] = [gen_box(rng, 160, 330) for _ in range(nf)]
    c["times"] = [[rng.randrange(nf), rng.randrange(nf)] for _ in range(rng.randint(1, 4))]
    c["self_correlation"] = rng.random() < 0.6
    c["period_length"] = None if rng.random() < 0.6 else rng.randint(1, nf + 2)
    c["n_concurrent_pairs"] = None if rng.random() < 0.3 else rng.randint(1, 9)
    return c


def rdf_t_coq_case(c, tol="1e-5"):
    rr = c["r_range"] or [[0, 1], [1, 1]]
    if c["n_bins"] is not None:
        b = "(inl %s)" % cnat(c["n_bins"])
    else:
        b = "(inr %s)" % cq(c["bin_width"] or list((0.005).as_integer_ratio()))
    frames = clist(["(%s, %s)" % (c_vec(bx), clist([c_vec(v) for v in f])) for bx, f in zip(box_per_frame(c), c["xyz"])])
    return "(%s, %s, %s, %s, %s, %s, %s, %s, %s, %s, %s)" % (
        cqf(tol), cz(UNIT), cq(rr[0]), cq(rr[1]), b, c_pairs_nat(c["pairs"]), cbool(c["periodic"]), frames,
        c_pairs_nat(c["times"]), cbool(c["self_correlation"]), copt(c["period_length"], cnat))


def check_rdf_t(ctx, cases, results):
    guards, errs = coq_values(ctx, ["MD.Desc.RdfModel"], "rtcase", "run_rdf_t_guard", [rdf_t_coq_case(c) for c in cases])
    if errs:
        ctx.break_("correspondence:coqc-evaluation(rdf_t guard)", "\n".join(errs))
        return
    inp, idx, excl = [], [], 0
    for i, (c, r) in enumerate(zip(cases, results)):
        if guards[i] != [1]:
            excl += 1
            continue
        ctx.count(c, nontrivial=len(c["pairs"]) > 1, bucket="rdf_t/%s%s" % (
            "self" if c["self_correlation"] else "noself", "/chunks" if c["n_concurrent_pairs"] else ""))
        if "err" in r or not finite(r["r"]) or not finite(r["g"]) or r["shape"] != [len(c["times"]), r["n"]]:
            ctx.fail("compute_rdf_t fails, returns non-finite values or a wrong shape", c, observed=r, expected="r, g(r,t)",
                     tags={"kind": "rdf_t", "explained_by": None})
            continue
        idx.append(i)
        inp.append((rdf_t_coq_case(c), clist([cqf(r["n"])] + [cq(x) for x in r["r"]] + [cq(x) for x in flat_q(r["g"])])))
    ctx.notes.setdefault("coverage_extra", {}).setdefault("excluded", {})["rdf_t_guard_band"] = excl
    bad, errs = ctx.coq_mismatches(["MD.Desc.RdfModel"], ("rtcase", "list Q"), "close_res_mixed", "run_rdf_t", inp, shard=shard_for(len(inp)),
                                   prelude=QPRE)
    if errs:
        ctx.break_("correspondence:coqc-evaluation(rdf_t)", "\n".join(errs))
        return
    for k in bad:
        ctx.fail("compute_rdf_t: g(r,t) differs from counts/((n_pairs/period_length)*sum(1/V)*4/3 pi (r_hi^3-r_lo^3)) over the "
                 "(self +) given pairs between the two frames", cases[idx[k]], observed=results[idx[k]], expected="Coq run_rdf_t",
                 tags={"kind": "rdf_t", "explained_by": None})


# =====================================================================================
# option handling and index bookkeeping in front of the kernels (FrontModel.v, DipoleModel.v)
# =====================================================================================
FRONT_ERR = [(r"requires a topology", "FNoTop"), (r"not a valid contacts specifier", "FBadSpec"),
             (r"contacts must be ndim 2", "FNdim"), (r"contacts must be shape", "FShape"),
             (r"inhomogeneous", "FRagged"), (r"scheme must be one of", "FBadScheme")]


def _case_variant(rng, s):
    return rng.choice([s, s.upper(), s.capitalize(), "".join(ch.upper() if rng.random() < 0.5 else ch for ch in s)])


def gen_contacts_opt_case(rng, i):
    n_res = rng.randint(4, 8)
    top = gen_topology(rng, n_res, p_odd=rng.choice([0.0, 0.3]))
    na = top_natoms(top)
    case = {"kind": "contacts_opt", "top": top, "unit": UNIT, "xyz": gen_xyz(rng, rng.randint(1, 2), na),
            "box": gen_box(rng) if rng.random() < 0.5 else None, "has_top": rng.random() > 0.08}
    # contacts argument
    def good_pairs(k=None):
        return [[rng.randrange(n_res), rng.randrange(n_res)] for _ in range(k or rng.randint(1, 4))]
    r = rng.random()
    if r < 0.12:
        case["contacts"] = None                                   # omitted: 'all'
    elif r < 0.30:
        case["contacts"] = {"str": _case_variant(rng, "all")}
    elif r < 0.38:
        case["contacts"] = {"str": rng.choice(["any", "", "all ", "al", "ca", "none", "ALLL"])}
    elif r < 0.52:
        case["contacts"] = {"list": good_pairs()}
    elif r < 0.60:
        case["contacts"] = {"tuple": good_pairs()}
    elif r < 0.68:
        prs = good_pairs()
        case["contacts"] = {"array": prs, "shape": [len(prs), 2]}
    elif r < 0.74:
        case["contacts"] = {"list": [rng.randrange(n_res) for _ in range(rng.choice([0, 2, 3]))]}      # 1-D (also [])
    elif r < 0.80:
        m = rng.choice([1, 3, 4])
        case["contacts"] = {"list": [[rng.randrange(n_res) for _ in range(m)] for _ in range(rng.randint(1, 3))]}
    elif r < 0.85:
        prs = good_pairs(rng.randint(2, 3))
        prs[rng.randrange(1, len(prs))] = [rng.randrange(n_res) for _ in range(rng.choice([1, 3]))]  # ragged
        case["contacts"] = {"list": prs}
    elif r < 0.88:
        case["contacts"] = {"list": [[good_pairs(1)[0]]]}          # 3-D
    elif r < 0.92:
        case["contacts"] = {"array": [], "shape": [0, rng.choice([2, 2, 3])]}
    else:
        prs = good_pairs()
        prs[rng.randrange(len(prs))][rng.randrange(2)] = rng.choice([-1, n_res, n_res + 3])
        case["contacts"] = {"list": prs}
    # scheme argument
    r = rng.random()
    if r < 0.15:
        case["scheme"] = None
    elif r < 0.75:
        case["scheme"] = _case_variant(rng, rng.choice(SCHEMES))
    else:
        case["scheme"] = rng.choice(["bogus", "ca ", "closest_heavy", "", "heavy", "sidechain-", "CLOSEST HEAVY"])
    case["ignore_nonprotein"] = rng.choice([None, None, True, False])
    case["periodic"] = rng.choice([None, True, False])
    # soft_min only where it does not change the value (scheme 'ca'): passed to see that it is accepted
    case["soft_min"] = True if (case["scheme"] and case["scheme"].lower() == "ca" and rng.random() < 0.5) else None
    return case


def c_pyarr(spec):
    """the `contacts` / `residue_pairs` argument as FrontModel.pyarr"""
    if "array" in spec:
        rows = spec["array"]
        if len(spec["shape"]) != 2:
            return "A3" if len(spec["shape"]) > 2 else "(A1 %s)" % clist([cz(x) for x in rows])
        return "(A2 %s %s)" % (cnat(spec["shape"][1]), clist([clist([cz(x) for x in r]) for r in rows]))
    rows = spec.get("list", spec.get("tuple"))
    if not rows or not isinstance(rows[0], list):
        return "(A1 %s)" % clist([cz(x) for x in rows])
    if any(isinstance(x, list) for r in rows for x in r):
        return "A3"
    return "(A2 %s %s)" % (cnat(len(rows[0])), clist([clist([cz(x) for x in r]) for r in rows]))


def c_copts(case):
    c = case.get("contacts")
    if c is None:
        ci = "None"
    elif "str" in c:
        ci = "(Some (IStr %s))" % cstr(c["str"])
    else:
        ci = "(Some (IArr %s))" % c_pyarr(c)
    return "(mkCopts %s %s %s %s %s %s)" % (
        cbool(case.get("has_top", True)), ci, copt(case.get("scheme"), cstr), copt(case.get("ignore_nonprotein"), cbool),
        copt(case.get("periodic"), cbool), copt(case.get("soft_min"), cbool))


def front_expected(res):
    if "err" in res:
        for pat, name in FRONT_ERR:
            if re.search(pat, res["msg"]):
                return "(FErr %s)" % name
        for pat, name in ERRCODES:
            if re.search(pat, res["msg"]):
                return "(FErr (FCore %s))" % name
        return None
    return "(FOk %s %s)" % (c_pairs_nat(res["pairs"]), clist([clist([cz(v) for v in row]) for row in res["d2"]]))


def check_contacts_opt(ctx, cases, results):
    coq, idx = [], []
    for i, (c, r) in enumerate(zip(cases, results)):
        what = "omitted" if c.get("contacts") is None else ("keyword" if "str" in c["contacts"] else "array")
        ctx.count(c, nontrivial=True, bucket="contacts_opt/%s/%s" % (what, "scheme-omitted" if c.get("scheme") is None else "scheme"))
        if "err" not in r and r["resid"] > 1e-5:
            ctx.break_("correspondence:contacts-exactness", "squared distance not recovered exactly on %s" % json.dumps(c)[:300])
            continue
        exp = front_expected(r)
        if exp is None:
            ctx.fail("compute_contacts raises an unexpected %s for these arguments" % r["err"], c, observed=r,
                     expected="a result or one of the documented refusals", tags={"kind": "contacts_opt", "explained_by": None})
            continue
        idx.append(i)
        coq.append(("(false, %s, %s, %s, %s)" % (c_raw_top(c["top"]), c_copts(c), c_cell(c["box"]), c_frames(c["xyz"])), exp))
    bad, errs = ctx.coq_mismatches(["MD.Desc.ContactsModel", "MD.Desc.FrontModel"], ("fcase", "fres"), "fres_eqb",
                                   "run_contacts_api", coq, shard=shard_for(len(coq), lo=12))
    if errs:
        ctx.break_("correspondence:coqc-evaluation(contacts options)", "\n".join(errs))
        return
    for k in bad:
        c, r = cases[idx[k]], results[idx[k]]
        ctx.fail("compute_contacts: argument handling (keyword/array/scheme spelling, defaults, order of refusals) or the "
                 "result differs from the model", c, observed=r, expected="Coq run_contacts_api",
                 tags={"kind": "contacts_opt", "explained_by": None})


SQ_ERR = [(r"must be ndim 2", "SNdim"), (r"must be shape", "SShape"), (r"inhomogeneous", "SRagged"),
          (r"not in the permitted range", "SNegative"), (r"does not match the number of pairs", "SMismatch"),
          (r"zero-size array", "SEmpty")]


def gen_squareform_opt_case(rng, i):
    n = rng.randint(2, 6)
    k = rng.randint(1, 7)
    seen, pairs = set(), []
    for _ in range(k):
        p = (rng.randrange(n), rng.randrange(n))
        if p in seen:
            continue                      # numpy gives no order guarantee for a label repeated in one assignment
        if (p[1], p[0]) in seen and rng.random() < 0.3:
            continue
        seen.add(p)
        pairs.append(list(p))
        if rng.random() < 0.35 and (p[1], p[0]) not in seen:
            seen.add((p[1], p[0]))
            pairs.append([p[1], p[0]])    # the same pair reversed: the second assignment decides
    rng.shuffle(pairs)
    nf = rng.randint(1, 2)
    ncols = len(pairs)
    spec = {"list": pairs} if rng.random() < 0.5 else {"array": pairs, "shape": [len(pairs), 2]}
    r = rng.random()
    if r < 0.08:
        ncols = max(0, len(pairs) + rng.choice([-1, 1, 2]))
    elif r < 0.16:
        q = [list(x) for x in pairs]
        q[rng.randrange(len(q))][rng.randrange(2)] = -rng.randint(1, 3)
        spec = {"list": q}
        if rng.random() < 0.4:
            ncols += 1                    # two refusals at once: the sign test comes first
    elif r < 0.21:
        spec = {"list": [x + [0] for x in pairs]}
    elif r < 0.25:
        spec = {"list": [x[0] for x in pairs]}
    elif r < 0.29:
        spec = {"array": [], "shape": [0, 2]}
        ncols = rng.choice([0, 0, 1])
    d = [[rng.randint(1, 999) for _ in range(ncols)] for _ in range(nf)]
    if i % 20 == 7:      # distances that are not 2-D: documented refusal ValueError("distances must be a 2d array")
        return {"kind": "squareform_opt", "d": d[0], "d_shape": [ncols], "pairs": {"list": pairs}}
    return {"kind": "squareform_opt", "d": d, "d_shape": [nf, ncols], "pairs": spec}


def check_squareform_opt(ctx, cases, results):
    coq, idx = [], []
    for i, (c, r) in enumerate(zip(cases, results)):
        if len(c["d_shape"]) != 2:
            ctx.count(c, nontrivial=True, bucket="squareform_opt/distances-not-2d")
            if "err" in r and r["err"] == "ValueError" and re.search(r"2d array", r["msg"]):
                continue
            ctx.fail("squareform: distances that are not a 2-D array are not refused with ValueError('distances must be a 2d array')",
                     c, observed=r, expected="ValueError: distances must be a 2d array",
                     tags={"kind": "squareform_opt",
                           "explained_by": "squareform_ndim_test_cur" if r.get("err") in ("IndexError", "AttributeError") else None})
            continue
        ctx.count(c, nontrivial=c["d_shape"][1] > 1, bucket="squareform_opt")
        if "err" in r:
            exp = next(("(SErr %s)" % name for pat, name in SQ_ERR if re.search(pat, r["msg"])), None)
            if exp is None:
                ctx.fail("squareform raises an unexpected %s" % r["err"], c, observed=r, expected="maps or a documented refusal",
                         tags={"kind": "squareform_opt", "explained_by": None})
                continue
        else:
            if not r["exact"]:
                ctx.break_("correspondence:squareform-exactness", "non-integer entries")
                continue
            exp = "(SOk %s)" % clist([clist([clist([cz(x) for x in row]) for row in m]) for m in r["m"]])
        idx.append(i)
        coq.append(("(%s, %s, %s)" % (cnat(c["d_shape"][1]), clist([clist([cz(x) for x in row]) for row in c["d"]]),
                                     c_pyarr(c["pairs"])), exp))
    bad, errs = ctx.coq_mismatches(["MD.Desc.ContactsModel", "MD.Desc.FrontModel"], ("nat * list (list Z) * pyarr", "sres"),
                                   "sres_eqb", "run_squareform_api", coq, shard=shard_for(len(coq), lo=30))
    if errs:
        ctx.break_("correspondence:coqc-evaluation(squareform options)", "\n".join(errs))
        return
    for k in bad:
        ctx.fail("squareform: argument checks, map size or entries differ from the labelled distances (reversed labels: the "
                 "second assignment decides)", cases[idx[k]], observed=results[idx[k]], expected="Coq run_squareform_api",
                 tags={"kind": "squareform_opt", "explained_by": None})


# a non-positive bin count derived from bin_width is refused by np.histogram (compute_rdf) or, when negative, already by the
# allocation of the result array (compute_rdf_t): both are the refusal "bin count not positive"
RDF_ERR = [(r"`n_bins` must be a positive integer", 1), (r"`bins` must be positive", 2), (r"negative dimensions are not allowed", 2),
           (r"r_range must be shape", 3),
           (r"max must be larger than min", 4)]


def gen_rdf_opt_case(rng, i):
    two = [["NA", 0, [["NA", "Na"]]], ["CL", 0, [["CL", "Cl"]]], ["NA", 0, [["NA", "Na"]]]]
    c = {"kind": "rdf_opt", "top": two, "unit": UNIT, "xyz": gen_xyz(rng, 2, 3, span=128), "box": [256, 256, 256],
         "pairs": [[0, 1], [1, 2]]}
    r = rng.random()
    if r < 0.3:
        c["r_range"] = None
    elif r < 0.8:
        a = rng.randint(0, 64)
        b = a + rng.randint(1, 128)
        c["r_range"] = [[a, 64], [b, 64]]
        if rng.random() < 0.12:
            c["r_range"] = [[b, 64], [a, 64]]                       # reversed
        elif rng.random() < 0.08:
            c["r_range"] = [[a, 64], [a, 64]]                       # empty range
    else:
        c["r_range"] = [[rng.randint(0, 64), 64] for _ in range(rng.choice([1, 3]))]
    r = rng.random()
    c["n_bins"] = None if r < 0.45 else rng.choice([1, 2, 3, 5, 8, 13, 0, -1, -4])
    r = rng.random()
    if r < 0.35:
        c["bin_width"] = None
    elif r < 0.7:
        c["bin_width"] = [rng.randint(2, 200), 64]
    else:
        c["bin_width"] = list(float(rng.choice([0.05, 0.1, 0.2, 0.07, 0.125, 0.3, 2.5])).as_integer_ratio())
    return c


def check_rdf_opt(ctx, cases, results):
    def oq(x):
        return copt(x, cq)
    inp = ["(%s, %s, %s)" % (copt(c["r_range"], lambda rr: clist([cq(x) for x in rr])), copt(c["n_bins"], cz), oq(c["bin_width"]))
           for c in cases]
    vals, errs = coq_values(ctx, ["MD.Desc.RdfModel", "MD.Desc.FrontModel"], "option (list Q) * option Z * option Q",
                            "run_rdf_options", inp, shard=shard_for(len(inp), lo=30), prelude=QPRE)
    if errs:
        ctx.break_("correspondence:coqc-evaluation(rdf options)", "\n".join(errs))
        return
    for c, r, v in zip(cases, results, vals):
        ctx.count(c, nontrivial=True, bucket="rdf_opt/%s" % ("n_bins" if c["n_bins"] is not None else
                                                             ("bin_width" if c["bin_width"] is not None else "default-width")))
        for name in ("rdf", "rdf_t"):
            o = r[name]
            if "err" in o:
                got = next((-code for pat, code in RDF_ERR if re.search(pat, o["msg"])), None)
                if got is None:
                    ctx.fail("compute_%s raises an unexpected %s for these r_range/n_bins/bin_width" % (name, o["err"]), c,
                             observed=o, expected=v, tags={"kind": "rdf_opt", "explained_by": None})
                    continue
                got = [got]
            else:
                got = [o["n"]]
                if o["g_shape"][-1] != o["n"]:
                    ctx.fail("compute_%s: r and g(r) have different numbers of bins" % name, c, observed=o, expected=v,
                             tags={"kind": "rdf_opt", "explained_by": None})
                    continue
            if got != v[:1]:
                # the known truncation of an integral quotient (0.3/0.1 -> 2) is part of the model (nbins_of_width)
                ctx.fail("compute_%s: number of bins / refusal for these r_range, n_bins, bin_width differs from the model "
                         "(n_bins given: it decides; omitted: int((r_max-r_min)/bin_width) with the defaults)" % name,
                         c, observed=o, expected=v, tags={"kind": "rdf_opt", "explained_by": None})
                continue
            if "err" not in o and len(v) == 5:
                lo, hi = Fraction(v[1], v[2]), Fraction(v[3], v[4])
                n = v[0]
                w = (hi - lo) / n
                for kk in (0, n - 1):
                    want = lo + (kk + Fraction(1, 2)) * w
                    have = Fraction(*o["r"][kk])
                    if abs(have - want) > Fraction(1, 10 ** 9):
                        ctx.fail("compute_%s: bin centres are not those of n equal bins over the (defaulted / widened) range" % name,
                                 c, observed=float(have), expected=float(want), tags={"kind": "rdf_opt", "explained_by": None})
                        break


def _pyv_coq(v):
    if "int" in v:
        return "(VInt %s)" % cz(v["int"])
    if "list" in v:
        return "(VSeq %s)" % clist([_pyv_coq(x) for x in v["list"]])
    if "tuple" in v:
        return "(VSeq %s)" % clist([_pyv_coq(x) for x in v["tuple"]])
    return "VOther"


def gen_order_opt_case(rng, i):
    top = gen_topology(rng, rng.randint(2, 5), p_odd=0.2, p_drop=0.1)
    while top_natoms(top) < 4 or min(len(r[2]) for r in top) < 1:
        top = gen_topology(rng, rng.randint(2, 5), p_odd=0.2, p_drop=0.1)
    na = top_natoms(top)
    c = {"kind": "order_opt", "top": top, "unit": UNIT, "xyz": gen_xyz(rng, rng.randint(1, 2), na), "box": None}
    r = rng.random()
    if r < 0.1:
        c["indices"] = {"omit": True}
    elif r < 0.3:
        c["indices"] = {"str": _case_variant(rng, rng.choice(["chains", "residues"]))}
    elif r < 0.4:
        c["indices"] = {"str": rng.choice(["atoms", "chain", "residue", "", "all", "molecules"])}
    else:
        def grp():
            return {rng.choice(["list", "list", "tuple"]): [{"int": a} for a in sorted(rng.sample(range(na), rng.randint(1, min(na, 6))))]}
        groups = [grp() for _ in range(rng.randint(1, 4))]
        r2 = rng.random()
        if r2 < 0.45:
            pass
        elif r2 < 0.7:      # a non-int inside a group
            g = groups[rng.randrange(len(groups))]
            key = "list" if "list" in g else "tuple"
            g[key][rng.randrange(len(g[key]))] = rng.choice([{"float": 1.0}, {"npint": 1}, {"s": "1"}, {"none": 1},
                                                             {"list": [{"int": 0}]}])
        else:               # an element that is not a group
            groups.insert(rng.randrange(len(groups) + 1), rng.choice([{"int": 0}, {"s": "chains"}, {"float": 2.0}, {"none": 1},
                                                                      {"ndarray": [0, 1, 2]}]))
        outer = rng.choice(["list", "tuple"])
        c["indices"] = {"val": {outer: groups}}
        if rng.random() < 0.08:
            c["indices"] = {"val": rng.choice([{"int": 3}, {"none": 1}, {"ndarray": [[0, 1, 2], [1, 2, 3]]}, {"float": 0.5}])}
    return c


def check_order_opt(ctx, cases, results):
    inp = []
    for c in cases:
        sp = c["indices"]
        x = "None" if "omit" in sp else ("(Some (XStr %s))" % cstr(sp["str"]) if "str" in sp else "(Some (XVal %s))" % _pyv_coq(sp["val"]))
        inp.append("(%s, %s)" % (c_raw_rows(c["top"]), x))
    vals, errs = coq_values(ctx, ["MD.Desc.OrderModel", "MD.Desc.FrontModel"], "list rawres * option ispec", "run_get_indices", inp,
                            shard=shard_for(len(inp), lo=24))
    if errs:
        ctx.break_("correspondence:coqc-evaluation(order indices)", "\n".join(errs))
        return
    for c, r, v in zip(cases, results, vals):
        sp = c["indices"]
        ctx.count(c, nontrivial=True, bucket="order_opt/%s" % ("omitted" if "omit" in sp else ("keyword" if "str" in sp else "explicit")))
        refused = len(v) == 1 and len(v[0]) == 1 and v[0][0] < 0
        for fn, ek, sk in (("compute_directors", "directors_err", "directors_shape"), ("compute_nematic_order", "s2_err", "s2_shape")):
            if refused:
                want = {1: r"Invalid selection", 2: r"Indices must be integers"}[-v[0][0]]
                if ek not in r or r[ek]["err"] != "ValueError" or not re.search(want, r[ek]["msg"]):
                    ctx.fail("%s: an indices argument that is not a keyword / list of lists of ints is not refused as documented" % fn,
                             c, observed=r.get(ek, r.get(sk)), expected=want, tags={"kind": "order_opt", "explained_by": None})
            else:
                ng = v[0][0]
                if ek in r:
                    # an explicit group may be unusable for the eigen-decomposition; only keyword/omitted must succeed
                    if "val" not in sp:
                        ctx.fail("%s fails for a keyword / omitted indices argument" % fn, c, observed=r[ek], expected="result",
                                 tags={"kind": "order_opt", "explained_by": None})
                elif fn == "compute_directors" and r[sk] != [len(c["xyz"]), ng, 3]:
                    ctx.fail("compute_directors: number of groups differs from the chains/residues/index lists", c, observed=r[sk],
                             expected=[len(c["xyz"]), ng, 3], tags={"kind": "order_opt", "explained_by": None})
        if not refused and "omit" not in sp and r.get("groups") is not None and r["groups"] != v[1:]:
            ctx.fail("order._get_indices: the atom groups differ from the chains / residues / given lists", c, observed=r["groups"],
                     expected=v[1:], tags={"kind": "order_opt", "explained_by": None})


def gen_dipole_pbc_case(rng, i):
    top = gen_topology(rng, rng.randint(2, 5), p_odd=0.4, p_drop=0.2)
    na = top_natoms(top)
    nf = rng.randint(1, 3)
    c = {"kind": "dipole_pbc", "top": top, "unit": UNIT, "xyz": gen_xyz(rng, nf, na, span=256)}
    # odd cell lengths (in 1/64 nm): no displacement can sit exactly on +-L/2; smaller than the coordinate span, so
    # displacements wrap; per-frame cells
    c["box"] = [[2 * rng.randint(40, 130) + 1 for _ in range(3)] for _ in range(nf)] if i % 5 else None
    q = [rng.randint(-16, 16) for _ in range(na)]
    if rng.random() < 0.5:
        q[-1] -= sum(q)
    c["charges"] = [[x, 16] for x in q]
    return c


def check_dipole_pbc(ctx, cases, results):
    inp = []
    for c in cases:
        boxes = c["box"] or [None] * len(c["xyz"])
        inp.append("(%s, %s, %s)" % (c_raw_top(c["top"]), clist([cz(x[0]) for x in c["charges"]]),
                                    clist(["(%s, %s)" % ("None" if b is None else "(Some %s)" % c_vec(b), clist([c_vec(v) for v in f]))
                                           for b, f in zip(boxes, c["xyz"])])))
    vals, errs = coq_values(ctx, ["MD.Desc.ContactsModel", "MD.Desc.DipoleModel"], "dcase", "run_dipole", inp,
                            shard=shard_for(len(inp), lo=10))
    if errs:
        ctx.break_("correspondence:coqc-evaluation(dipole pbc)", "\n".join(errs))
        return
    for c, r, v in zip(cases, results, vals):
        ctx.count(c, nontrivial=len(c["top"]) > 1, bucket="dipole_pbc/%s" % ("cell" if c["box"] else "no-cell"))
        mu = r["mu"]
        if isinstance(mu, dict) or not finite(mu):
            ctx.fail("dipole_moments fails", c, observed=mu, expected="finite", tags={"kind": "dipole_pbc", "explained_by": None})
            continue
        for fi, want in enumerate(v):
            got = [Fraction(*mu[fi][k]) * c["unit"] * 16 for k in range(3)]
            if any(abs(g - w) > Fraction(1, 1000) for g, w in zip(got, want)):
                ctx.fail("dipole_moments (periodic cell): result is not sum_a q_a (mic(r_a - r_first(residue a)) + "
                         "mic(r_first(residue a) - r_0))", c, observed=[float(g) for g in got], expected=want,
                         tags={"kind": "dipole_pbc", "frame": fi, "explained_by": None})
                break


# =====================================================================================
# call histories on ONE Trajectory/Topology object
# =====================================================================================
def _names_for_rename(rng):
    return rng.choice(["CA", "CB", "CX", "H", "HA", "N", "O", "ca", "HB9", "OXT"])


def gen_history_case(rng, i):
    """state changes interleaved with descriptor calls on one object; flavour 0: geometry (centering, superposition,
    in-place coordinate edits, re-imaging, slicing), flavour 1: topology (elements, names, bonds) on grid coordinates"""
    flavour = i % 2
    top = gen_topology(rng, rng.randint(2, 4), p_odd=0.25, p_drop=0.1, max_chains=2)
    while top_natoms(top) < 5:
        top = gen_topology(rng, rng.randint(2, 4), p_odd=0.1, max_chains=2)
    na = top_natoms(top)
    nf = rng.randint(2, 4)
    case = {"kind": "history", "top": top, "unit": UNIT, "xyz": gen_xyz(rng, nf, na, span=128),
            "box": [512 + 64 * rng.randint(0, 4)] * 3 if rng.random() < 0.7 else None, "bonds": [], "flavour": flavour}
    nb = rng.randint(0, na // 2)
    bonds = set()
    for _ in range(nb):
        a, b = sorted(rng.sample(range(na), 2))
        bonds.add((a, b))
    case["bonds"] = [list(b) for b in sorted(bonds)]
    n_atoms = [na]

    def call():
        n = n_atoms[0]
        kinds = ["rg", "rg_m", "com", "com_sel", "shape", "inertia", "drid", "density", "dipole", "contacts"]
        k = rng.choice(kinds)
        if k == "rg":
            return {"kind": "rg", "masses": None}
        if k == "rg_m":
            return {"kind": "rg", "masses": [dyadic(rng, 1, 40, 8) for _ in range(n)]}
        if k == "com":
            return {"kind": "centres", "select": None}
        if k == "com_sel":
            idx = sorted(rng.sample(range(n), rng.randint(1, n)))
            return {"kind": "centres", "select": "index " + " ".join(map(str, idx)), "sel_expected": idx}
        if k == "shape":
            return {"kind": "shape"}
        if k == "inertia":
            return {"kind": "inertia"}
        if k == "drid":
            return {"kind": "drid", "atom_indices": None}
        if k == "density":
            return {"kind": "density", "masses": None}
        if k == "dipole":
            q = [rng.randint(-16, 16) for _ in range(n)]
            q[-1] -= sum(q)
            return {"kind": "dipole", "charges": [[x, 16] for x in q]}
        return {"kind": "contacts", "scheme": rng.choice(SCHEMES), "soft_min": False, "periodic": False, "beta": None,
                "contacts": "all" if rng.random() < 0.4 else [[rng.randrange(len(top)), rng.randrange(len(top))]
                                                              for _ in range(rng.randint(1, 3))],
                "ignore_nonprotein": rng.random() < 0.5, "squareform": False}

    def state():
        n = n_atoms[0]
        if flavour == 0:
            k = rng.choice(["center", "center", "center_mw", "superpose", "scale_axis", "shift_atoms", "swap_frames_view",
                            "set_xyz", "slice", "make_whole", "image", "set_unitcell", "set_element"])
        else:
            k = rng.choice(["set_element", "set_element", "rename_atom", "rename_atom", "rename_residue", "add_bond",
                            "add_bond", "shift_atoms", "scale_axis", "set_unitcell", "set_xyz"])
        if k == "center":
            return {"op": "center"}
        if k == "center_mw":
            return {"op": "center", "mass_weighted": True}
        if k == "superpose":
            return {"op": "superpose", "frame": 0}
        if k == "scale_axis":
            return {"op": "scale_axis", "axis": rng.randrange(3), "factor": rng.choice([2, 3, 0.5])}
        if k == "shift_atoms":
            return {"op": "shift_atoms", "atoms": sorted(rng.sample(range(n), rng.randint(1, n))),
                    "delta": [rng.randint(-64, 64) for _ in range(3)]}
        if k == "swap_frames_view":
            return {"op": "swap_frames_view"}
        if k == "set_xyz":
            return {"op": "set_xyz", "xyz": gen_xyz(rng, nf, n, span=128), "needs_frames": nf}
        if k == "slice":
            return {"op": "slice", "frames": [0, 1] if rng.random() < 0.5 else [1, 0]}
        if k == "make_whole":
            return {"op": "make_whole"}
        if k == "image":
            return {"op": "image"}
        if k == "set_unitcell":
            return {"op": "set_unitcell", "lengths": [512 + 64 * rng.randint(0, 6) for _ in range(3)]}
        if k == "set_element":
            return {"op": "set_element", "atoms": sorted(rng.sample(range(n), rng.randint(1, n))),
                    "symbol": rng.choice(["D", "H", "C", "Na", "Fe"])}
        if k == "rename_atom":
            return {"op": "rename_atom", "atom": rng.randrange(n), "name": _names_for_rename(rng)}
        if k == "rename_residue":
            return {"op": "rename_residue", "residue": rng.randrange(len(top)), "name": rng.choice(["GLY", "ALA", "HOH", "LIG"])}
        a, b = rng.sample(range(n), 2)
        return {"op": "add_bond", "a": a, "b": b}

    ops = []
    # the first calls warm whatever the implementation may remember
    warm = [{"kind": "rg", "masses": None}, {"kind": "centres", "select": None}]
    rng.shuffle(warm)
    for w in warm[:rng.randint(1, 2)]:
        ops.append({"op": "call", "args": w})
    sliced = False
    for _ in range(rng.randint(3, 6)):
        st = state()
        if st["op"] == "slice":
            if sliced:
                continue
            sliced = True
            nf = 2
        if st["op"] == "set_xyz" and sliced:
            st["xyz"] = st["xyz"][:2]
        ops.append(st)
        if st["op"] == "center" and rng.random() < 0.6:
            # coordinates edited behind the setter right after centring
            ops.append(rng.choice([{"op": "scale_axis", "axis": rng.randrange(3), "factor": 3},
                                   {"op": "shift_atoms", "atoms": [0], "delta": [64, -32, 16]},
                                   {"op": "make_whole"}]))
            ops.append({"op": "call", "args": {"kind": "rg", "masses": None}})
        if st["op"] in ("set_element", "rename_atom") and rng.random() < 0.6:
            ops.append({"op": "call", "args": {"kind": rng.choice(["centres", "inertia"]), "select": None}})
        for _ in range(rng.randint(1, 2)):
            ops.append({"op": "call", "args": call()})
    # always finish with the two calls whose inputs were most likely edited
    ops.append({"op": "call", "args": {"kind": "rg", "masses": None}})
    ops.append({"op": "call", "args": {"kind": "centres", "select": None}})
    case["ops"] = ops
    return case


def check_history(ctx, cases, results):
    derived = {}     # kind -> ([derived cases], [derived results], [history case index])
    for hi, (c, r) in enumerate(zip(cases, results)):
        ncalls = 0
        for st in r["steps"]:
            if "res" not in st:
                if st.get("skip"):
                    ctx.notes.setdefault("coverage_extra", {}).setdefault("excluded", {}).setdefault("history_contacts_offgrid", 0)
                    ctx.notes["coverage_extra"]["excluded"]["history_contacts_offgrid"] += 1
                continue
            op = c["ops"][st["i"]]
            snap = st["snap"]
            if st.get("mutated_by_call"):
                ctx.fail("a descriptor call changed the coordinates or the topology of the object it was given", c,
                         observed=op["args"]["kind"], expected="unchanged object", tags={"kind": "history", "explained_by": None})
                continue
            if not snap["exact"]:
                continue
            d = dict(op["args"])
            d.update(top=snap["top"], unit=snap["unit"], xyz=snap["xyz"], bonds=snap["bonds"], box=None)
            kind = d["kind"]
            if kind == "density":
                if snap["box"] is None:
                    continue
                d["box"] = snap["box"]
            if kind == "dipole":
                # the closed form sum q_i (r_i - r_0) presupposes that no displacement is wrapped
                if snap["box"] is None:
                    continue
                half = min(min(b) for b in snap["box"]) / 2
                spread = max(abs(f[a][k] - f[b][k]) for f in snap["xyz"] for a in range(len(f)) for b in (0,) for k in range(3))
                if 2 * spread >= half:
                    continue
            if kind == "drid" and any(len(set(map(tuple, f))) < len(f) for f in snap["xyz"]):
                continue
            ncalls += 1
            dc, dr, dh = derived.setdefault(kind, ([], [], []))
            dc.append(d)
            dr.append(st["res"])
            dh.append(hi)
        ctx.count({"history": c["ops"], "top": c["top"]}, nontrivial=ncalls > 1, bucket="history/%s" % (
            "geometry" if c["flavour"] == 0 else "topology"))
    for kind, (dc, dr, dh) in derived.items():
        n0 = len(ctx.failures)
        CHECKS[kind](ctx, dc, dr)
        for f in ctx.failures[n0:]:
            k = next((j for j, x in enumerate(dc) if x is f["case"]), None)
            hist = cases[dh[k]] if k is not None else None
            f["desc"] = "after a call history on one object: " + f["desc"]
            f["tags"] = dict(f.get("tags") or {}, history=True)
            if hist is not None:
                f["case"] = hist
    ctx.notes.setdefault("coverage_extra", {})["history_calls_checked"] = \
        ctx.notes.get("coverage_extra", {}).get("history_calls_checked", 0) + sum(len(v[0]) for v in derived.values())


# =====================================================================================
# driver
# =====================================================================================
CHECKS = {"contacts": check_contacts, "squareform": check_squareform, "centres": check_centres, "rg": check_rg,
          "shape": check_shape, "density": check_density, "rdf": check_rdf, "drid": check_drid,
          "karplus": check_karplus, "dipole": check_dipole, "inertia": check_inertia, "order": check_order,
          "rdf_t": check_rdf_t, "history": check_history, "contacts_opt": check_contacts_opt,
          "squareform_opt": check_squareform_opt, "rdf_opt": check_rdf_opt, "order_opt": check_order_opt,
          "dipole_pbc": check_dipole_pbc}


def fixed_probes():
    """the witnesses of the recorded findings and a few hand-made corner cases always run first"""
    ala = ["ALA", 0, [["N", "N"], ["CA", "C"], ["CB", "C"], ["C", "C"], ["O", "O"]]]
    gly = ["GLY", 0, [["N", "N"], ["CA", "C"], ["C", "C"], ["O", "O"]]]
    hoh = ["HOH", 0, [["O", "O"], ["H1", "H"], ["H2", "H"]]]
    top = [ala, gly, hoh, ala, ala]
    def mkxyz(n):
        return [[[13 * (3 * a + k) % 97 + 7 * a for k in range(3)] for a in range(n)]]
    xyz = mkxyz(top_natoms(top))
    base = {"kind": "contacts", "top": top, "unit": UNIT, "xyz": xyz, "box": None, "periodic": False,
            "beta": None, "squareform": True}
    out = [dict(base, scheme="ca", contacts=[[0, 3], [0, 2], [1, 4]], as_array=True, soft_min=False),
           dict(base, scheme="ca", contacts=[[0, 3], [0, 2], [1, 4]], as_array=False, soft_min=False),
           dict(base, scheme="sidechain", contacts=[[0, 3], [0, 1]], as_array=False, soft_min=True),
           dict(base, scheme="sidechain", contacts=[[0, 3], [0, 1]], as_array=False, soft_min=False),
           dict(base, scheme="closest", contacts=[[0, 1], [0, 4]], as_array=False, soft_min=True),
           dict(base, scheme="closest-heavy", contacts="all", soft_min=False),
           dict(base, top=[ala, ["ALA", 0, [["N", "N"], ["CA", "C"], ["ca", "C"], ["C", "C"]]], gly, ala, ala],
                xyz=mkxyz(23), scheme="ca", contacts=[[0, 3], [1, 4]], as_array=False, soft_min=False),
           dict(base, top=[ala, ["ALA", 0, [["N", "N"], ["CA", "C"], ["ca", "C"], ["C", "C"]]], hoh, ala, ala],
                xyz=mkxyz(22), scheme="ca", contacts=[[0, 3], [1, 2]], as_array=False, soft_min=False),
           dict(base, scheme="sidechain-heavy", contacts="all", soft_min=False, ignore_nonprotein=False)]
    two = [["NA", 0, [["NA", "Na"]]], ["CL", 0, [["CL", "Cl"]]]]
    out.append({"kind": "rg", "top": two, "unit": UNIT, "xyz": [[[0, 0, 0], [256, 0, 0]]], "box": None,
                "masses": [[1, 1], [3, 1]]})
    out.append({"kind": "dipole", "top": two, "unit": UNIT, "xyz": [[[64, 0, 0], [0, 0, 0]]], "box": [1024] * 3,
                "charges": [[16, 16], [-16, 16]]})
    for rr, bw in (((0.0, 0.3), 0.1), ((0.0, 0.7), 0.1), ((0.0, 1.0), 0.005)):
        out.append({"kind": "rdf", "top": two, "unit": UNIT, "xyz": [[[0, 0, 0], [20, 0, 0]], [[0, 0, 0], [0, 37, 0]]],
                    "box": [256, 256, 256], "periodic": True, "pairs": [[0, 1]], "opt": None,
                    "r_range": [list(float(x).as_integer_ratio()) for x in rr], "n_bins": None,
                    "bin_width": list(float(bw).as_integer_ratio())})
    # call histories: a descriptor, a state change behind the object's back, the descriptor again
    wat = [["HOH", 0, [["O", "O"], ["H1", "H"], ["H2", "H"]]] for _ in range(3)]
    hx = [[[(17 * a + 5 * k + 11 * f) % 97 for k in range(3)] for a in range(9)] for f in range(3)]
    hb = [[0, 1], [0, 2], [3, 4], [3, 5], [6, 7], [6, 8]]
    rgc = {"op": "call", "args": {"kind": "rg", "masses": None}}
    comc = {"op": "call", "args": {"kind": "centres", "select": None}}
    inc = {"op": "call", "args": {"kind": "inertia"}}
    hbase = {"kind": "history", "top": wat, "unit": UNIT, "xyz": hx, "box": [512] * 3, "bonds": hb}
    out.append(dict(hbase, flavour=0, ops=[rgc, {"op": "center"}, rgc, {"op": "scale_axis", "axis": 2, "factor": 3}, rgc,
                                           {"op": "slice", "frames": [0, 2]}, {"op": "shift_atoms", "atoms": [0, 4], "delta": [64, 0, -64]},
                                           rgc, {"op": "make_whole"}, rgc, comc]))
    out.append(dict(hbase, flavour=1, ops=[comc, inc, {"op": "set_element", "atoms": [1, 2, 4, 5, 7, 8], "symbol": "D"}, comc, inc,
                                           {"op": "set_element", "atoms": [0, 3], "symbol": "Fe"},
                                           {"op": "call", "args": {"kind": "centres", "select": "index 0 1 2 3", "sel_expected": [0, 1, 2, 3]}},
                                           {"op": "rename_atom", "atom": 0, "name": "CA"},
                                           {"op": "call", "args": {"kind": "contacts", "scheme": "ca", "soft_min": False, "periodic": False,
                                                                   "beta": None, "contacts": [[0, 1], [0, 2]], "squareform": False}},
                                           {"op": "add_bond", "a": 0, "b": 3}, {"op": "call", "args": {"kind": "drid", "atom_indices": None}},
                                           comc, rgc]))
    return out


def build_cases(ctx):
    rng = ctx.rng
    quick = ctx.tier == "quick"
    cases = fixed_probes()
    for i in range(150 if quick else 4000):
        cases.append(gen_contacts_case(rng, i))
    for i in range(30 if quick else 600):
        cases.append(gen_squareform_case(rng))
    k = 1 if quick else 25
    cases += [gen_centres_case(rng) for _ in range(30 * k)]
    cases += [gen_rg_case(rng) for _ in range(30 * k)]
    cases += [gen_geom_case(rng, "shape") for _ in range(25 * k)]
    cases += [gen_density_case(rng) for _ in range(20 * k)]
    cases += [gen_rdf_case(rng, i) for i in range(40 * k)]
    cases += [gen_drid_case(rng) for _ in range(30 * k)]
    cases += [gen_karplus_case(rng) for _ in range(30 * k)]
    cases += [gen_dipole_case(rng) for _ in range(12 * k)]
    cases += [gen_geom_case(rng, "inertia") for _ in range(12 * k)]
    cases += [gen_order_case(rng, i) for i in range(15 * k)]
    cases += [gen_rdf_t_case(rng, i) for i in range(24 * k)]
    cases += [gen_history_case(rng, i) for i in range((16 if quick else 10) * k)]
    cases += [gen_contacts_opt_case(rng, i) for i in range(48 * k)]
    cases += [gen_squareform_opt_case(rng, i) for i in range(30 * k)]
    cases += [gen_rdf_opt_case(rng, i) for i in range(30 * k)]
    cases += [gen_order_opt_case(rng, i) for i in range(24 * k)]
    cases += [gen_dipole_pbc_case(rng, i) for i in range(20 * k)]
    return cases


def run_cases(ctx, cases):
    results = run_impl(ctx, cases)
    ctx.log("implementation run done")
    for kind, fn in CHECKS.items():
        idx = [i for i, c in enumerate(cases) if c["kind"] == kind]
        if idx:
            fn(ctx, [cases[i] for i in idx], [results[i] for i in idx])
            ctx.log("checked %s (%d cases)" % (kind, len(idx)))


def correspond(ctx):
    ctx.notes.setdefault("coverage_extra", {})["bounds"] = BOUNDS
    cases = build_cases(ctx)
    ctx.log("cases:", len(cases))
    run_cases(ctx, cases)


def search(ctx, broken):
    """A theorem or the tie broke and the correspondence run found no failing input: the correspondence already
    compares the implementation with the documented closed forms (spec_* definitions and the float64 oracles),
    so the search is a second, larger batch of the same comparison on fresh inputs."""
    rng = ctx.rng
    extra = []
    for i in range(200):
        extra.append(gen_contacts_case(rng, i))
    extra += [gen_centres_case(rng) for _ in range(40)] + [gen_rg_case(rng) for _ in range(40)]
    extra += [gen_geom_case(rng, "shape") for _ in range(40)] + [gen_density_case(rng) for _ in range(30)]
    extra += [gen_rdf_case(rng, i) for i in range(60)] + [gen_drid_case(rng) for _ in range(40)]
    extra += [gen_karplus_case(rng) for _ in range(40)]
    ctx.log("search: %d extra cases" % len(extra))
    run_cases(ctx, extra)


def replay(ctx, rec):
    run_cases(ctx, [rec["case"]])
