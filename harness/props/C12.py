"""C12 — every selection expression selects exactly the atoms its meaning denotes.

Model: coq/Select/{Syntax,Regex,Model}.v (lexer, pyparsing grammar with one infixNotation level per entry of the
operator list the code builds, constructor-time rejections, .ast(), _RewriteNames, Python value semantics,
Topology.select).  Grammar data (keyword tables, operator levels in source order, residue tables, Python keyword
list) is regenerated from the imported module on every run: coq/Gen/SelectTables.v.
Theorems: coq/Props/C12.v.

Tie: generated strings x generated topologies are run through Topology.select / select_expression and compared,
inside coqc, with [select_str gen_cfg].  The property oracle is the same model under the conventional operator
order ([conventional cfg]): where the implementation follows the as-found order and that changes the outcome, the
case is reported (known finding: precedence = sorted keyword order).
"""
import itertools
import json
import os
import re
import subprocess

from common import COQ, cz, cnat, clist, cstr

LEVEL = "proof"
THEOREMS = "Props/C12.v"
EXTRA_TARGETS = ("Gen/SelectTables.vo", "Select/GenChecks.vo", "Select/SourceEval.vo")
EXTS = []
RULE = ("expression strings generated from the grammar (every keyword alias and operator spelling, bare/quoted/numeric "
        "literals, ranges, implicit lists, regex subset, parentheses: conventional, none, full) x topologies with "
        "protein/capped/water/ion/ligand residues, several chains and segments, repeated names and resSeqs; thorough "
        "adds the exhaustive depth-2 enumeration over a reduced vocabulary; plus mutated (malformed) strings. A case "
        "is non-trivial when it contains an operator, a list or a range; distinct by (topology, string)")
TRUSTED = ["harness/impl/select_impl.py (builds topologies through the public API, classifies exceptions)",
           "generator harness/props/C12.py; every comparison of model and implementation is done by vm_compute in coqc",
           "pyparsing's PEG semantics as modelled in coq/Select/Model.v (ordered choice, greedy repetition, Keyword "
           "word boundaries, Literal prefixes) - tied by the correspondence only"]
ASSUMPTIONS = [
    "strings of the modelled domain: printable ASCII, blanks only, delimited words, no word with an operator word as "
    "proper prefix, quoted strings without quotes/backslashes (Model.lex answers OutOfDomain otherwise)",
    "numbers: decimal literals and element masses with at most 15 significant digits, so that comparing the exact "
    "decimals equals comparing the doubles",
    "regular expressions: the subset of coq/Select/Regex.v; other patterns only in the implementation-side stream "
    "(select == eval(select_expression))",
    "error classes are compared as: rejected by parse_selection / TypeError while evaluating / other"]

FIELDS = {("#True",): "FTrue", ("#False",): "FFalse", ("is_backbone",): "FIsBackbone",
          ("is_sidechain",): "FIsSidechain", ("residue", "is_protein"): "FResIsProtein",
          ("residue", "code"): "FResCode", ("residue", "is_water"): "FResIsWater", ("name",): "FName",
          ("index",): "FIndex", ("n_bonds",): "FNBonds", ("residue", "resSeq"): "FResSeq",
          ("residue", "name"): "FResName", ("residue", "index"): "FResIndex", ("segment_id",): "FSegmentId",
          ("residue", "chain", "index"): "FChainIndex", ("element", "symbol"): "FElemSymbol",
          ("element", "mass"): "FElemMass"}
BINSEM = {"And": "SBool BAnd", "Or": "SBool BOr", "Lt": "SCmp CLt", "Eq": "SCmp CEq", "LtE": "SCmp CLe",
          "NotEq": "SCmp CNe", "GtE": "SCmp CGe", "Gt": "SCmp CGt"}


# ------------------------------------------------------------------------------------------------ translator
def tables_to_coq(t):
    if t["nums"] != ".0123456789":
        raise ValueError("NUMS changed: %r" % t["nums"])
    if not t["protein_set_is_codes_keys"]:
        raise ValueError("_PROTEIN_RESIDUES is no longer the key set of _AMINO_ACID_CODES")
    if set(t["unsem"].values()) != {"Not"}:
        raise ValueError("unary operators other than Not: %r" % t["unsem"])
    lv = []
    for l in t["levels"]:
        k = (l["klass"], l["arity"], l["assoc"])
        kind = {("UnaryInfixOperand", 1, "RIGHT"): "KUnary", ("BinaryInfixOperand", 2, "LEFT"): "KBinary",
                ("RegexInfixOperand", 2, "LEFT"): "KRegex"}.get(k)
        if kind is None:
            raise ValueError("unsupported infixNotation level %r" % (l,))
        for o in l["ops"]:
            table = {"KUnary": t["unsem"], "KBinary": t["binsem"], "KRegex": t["rxsem"]}[kind]
            if o not in table:
                raise ValueError("operator %r of a %s level is not in the class's keyword_aliases" % (o, kind))
        lv.append("{| lv_kind := %s; lv_ops := %s |}" % (kind, clist([cstr(o) for o in l["ops"]])))
    sel = []
    for k, ch in t["selkw"].items():
        f = FIELDS.get(tuple(ch))
        if f is None:
            raise ValueError("selection keyword %r maps to an attribute chain the model does not know: %r" % (k, ch))
        sel.append("(%s, %s)" % (cstr(k), f))
    bs = []
    for k, v in t["binsem"].items():
        if v not in BINSEM:
            raise ValueError("binary operator %r has unknown meaning %r" % (k, v))
        bs.append("(%s, %s)" % (cstr(k), BINSEM[v]))
    am = ["(%s, %s)" % (cstr(k), "None" if v is None else "Some %s" % cstr(v)) for k, v in t["protein"].items()]
    txt = ["(* GENERATED by harness/props/C12.py (translate) from mdtraj/core/selection.py and residue_names.py",
           "   as imported from the checked tree.  Do not edit. *)",
           "From Coq Require Import List String ZArith.", "Require Import MD.Select.Syntax.",
           "Import ListNotations.", "Local Open Scope string_scope.", "",
           "Definition gen_sel_kws : list (string * field) :=\n  [" + ";\n   ".join(sel) + "].", "",
           "(* the list given to infixNotation, in that order (tightest first) *)",
           "Definition gen_levels : list level :=\n  [" + ";\n   ".join(lv) + "].", "",
           "Definition gen_bin_sem : list (string * binsem) :=\n  [" + ";\n   ".join(bs) + "].", "",
           "Definition gen_py_kwlist : list string :=\n  " + clist([cstr(k) for k in t["pykw"]]) + ".", "",
           "Definition gen_amino_codes : list (string * option string) :=\n  [" + ";\n   ".join(am) + "].", "",
           "Definition gen_water_names : list string :=\n  " + clist([cstr(k) for k in t["water"]]) + ".", "",
           "Definition gen_cfg : config :=",
           "  {| sel_kws := gen_sel_kws; levels := gen_levels; bin_sem := gen_bin_sem; py_kwlist := gen_py_kwlist;",
           "     amino_codes := gen_amino_codes; water_names := gen_water_names |}.", ""]
    return "\n".join(txt)


def translate(ctx):
    t = ctx.run_impl("select_impl.py", {"mode": "tables"})
    ctx.tables = t
    changed = ctx.write_gen("Gen/SelectTables.v", tables_to_coq(t))
    ctx.notes.setdefault("coverage_extra", {})["tables"] = {
        "levels": [l["ops"] for l in t["levels"]], "n_selection_keywords": len(t["selkw"]),
        "n_protein_residues": len(t["protein"]), "regenerated": bool(changed)}


# ------------------------------------------------------------------------------------------------ topologies
RES = {
    "ALA": [("N", "N"), ("H", "H"), ("CA", "C"), ("HA", "H"), ("CB", "C"), ("C", "C"), ("O", "O")],
    "GLY": [("N", "N"), ("CA", "C"), ("C", "C"), ("O", "O")],
    "SER": [("N", "N"), ("CA", "C"), ("CB", "C"), ("OG", "O"), ("C", "C"), ("O", "O")],
    "ACE": [("CH3", "C"), ("C", "C"), ("O", "O")],
    "HOH": [("O", "O"), ("H1", "H"), ("H2", "H")],
    "SOL": [("OW", "O"), ("HW1", "H"), ("HW2", "H")],
    "NA": [("NA", "Na")], "CL": [("CL", "Cl")], "CA": [("CA", "Ca")],
    "LIG": [("C1", "C"), ("O", "O"), ("N1", "N"), ("H1", "H")],
    "UNK": [("X", "C")],
}
SEGS = ["", "A", "B", "SEG1"]
with open(os.path.join(os.path.dirname(os.path.dirname(os.path.dirname(os.path.abspath(__file__)))), "corpus", "C12",
                       "residue_reference.json")) as _fh:
    RESREF = json.load(_fh)          # hand-kept snapshot of the documented water names and the amino-acid code table
# names that collide with names of the generated source / the evaluation namespace
RES["re"] = [("re", "C"), ("atom", "N"), ("CA", "C")]
RES["atom"] = [("atom", "C"), ("self", "O"), ("np", "N")]


# a nucleotide-like residue: primes (single and double), a double quote and a backslash inside atom names
RES["DA"] = [("P", "P"), ("O5'", "O"), ("C5'", "C"), ("H5'", "H"), ("H5''", "H"), ('N"9', "N"), ("C\\1", "C"), ("H1", "H")]


# residues / segments / atoms whose lower-case names START WITH a keyword or operator spelling (to, and, or, not, in, eq,
# lt, ge, gt): as bare members of an implicit list they are plain strings (Keyword matching has word boundaries)
PREFIX_RES = [("ben", "solv"), ("tol", "top"), ("top", "tol"), ("andy", "ands"), ("oral", "nots"), ("note", "orx"), ("inx", "eqs"),
              ("eqx", "lts"), ("ltx", "A"), ("gex", "B"), ("tors", "solv")]
PREFIX_ATOMS = [("to1", "C"), ("tor", "C"), ("CA", "C"), ("andx", "C"), ("orb", "C"), ("nota", "C"), ("inb", "C"), ("gt1", "C")]
for _rn, _seg in PREFIX_RES:
    RES[_rn] = PREFIX_ATOMS
PREFIX_WORDS = {"resname": [r for r, _ in PREFIX_RES], "segment_id": sorted({g for _, g in PREFIX_RES}), "name": [a for a, _ in PREFIX_ATOMS]}
# the members starting with "to" are inside the model's alphabet ("to" is no operator): these strings MUST match the model
TO_WORDS = ["resname ben tol", "resname tol ben", "resname tol", "resname ben tol top", "resn ben tol", "segname solv top",
            "segname top solv", "segment_id solv tol", "segment_id tol top solv", "name to1 tor", "name CA tor", "name CA tor to1",
            "resname ben tol and name CA", "not resname ben tol", "resname ben 'tol'", "resname ben to tol", "resname ben to top",
            "name to1 to tor", "resname ben too", "resname ben total tol", "resname tors tol", "(resname ben tol) or segname solv top",
            "resname == tol", "tol == resname", "resname != top", "name tor top to1 and resname ben tol", "segname tol",
            "resname tol to tors", "name tor", "element tol C", "resname ben tol or name to1 tor"]


def res_atoms(rn):
    if rn in RES:
        return RES[rn]
    if rn in RESREF["water"]:
        return [("O", "O"), ("H1", "H"), ("H2", "H")]
    return [("N", "N"), ("CA", "C"), ("C", "C"), ("O", "O")]


def topo_spec(chains):
    """chains: list of list of (resname, resSeq, segid)"""
    spec = {"chains": [], "bonds": []}
    n = 0
    for ch in chains:
        rs = []
        for (rn, seq, seg) in ch:
            rs.append({"name": rn, "resSeq": seq, "segment_id": seg,
                       "atoms": [{"name": a, "element": e} for a, e in res_atoms(rn)]})
            # bonds: a chain through the residue
            for i in range(len(res_atoms(rn)) - 1):
                if (n + i) % 3 != 2:
                    spec["bonds"].append([n + i, n + i + 1])
            n += len(res_atoms(rn))
        spec["chains"].append({"residues": rs})
    return spec


def fixed_topologies():
    mixed = topo_spec([[("ACE", 1, "A"), ("ALA", 2, "A"), ("GLY", 3, "A")],
                       [("SER", 2, "B"), ("CA", 3, "B")],
                       [("HOH", 1, ""), ("SOL", 2, ""), ("NA", 3, "SEG1"), ("CL", 3, "SEG1"), ("LIG", 0, "B")]])
    allprot = topo_spec([[("ALA", 1, "A"), ("GLY", 2, "A")], [("SER", 1, "B")]])
    solvent = topo_spec([[("HOH", 1, ""), ("HOH", 1, ""), ("NA", 2, "A")], [("LIG", 5, "B"), ("UNK", 5, "B")]])
    small = topo_spec([[("GLY", 1, "A")], [("HOH", 2, "B"), ("NA", 2, "B")]])
    signed = topo_spec([[("ALA", -5, "A"), ("GLY", -1, "A"), ("GLY", 0, "A"), ("SER", 3, "A"), ("GLY", 8, "A"), ("GLY", 8, "A")],
                        [("HOH", 9, ""), ("NA", -5, "")]])
    collide = topo_spec([[("re", 1, "atom"), ("atom", 2, "re")], [("ALA", 1, "self"), ("HOH", 3, "atom")]])
    primes = topo_spec([[("DA", 1, "N"), ("DA", 2, "N")], [("ALA", 3, "A"), ("HOH", 4, "")]])
    prefixes = topo_spec([[(rn, i % 3 + 1, seg) for i, (rn, seg) in enumerate(PREFIX_RES[:6])],
                          [(rn, i + 1, seg) for i, (rn, seg) in enumerate(PREFIX_RES[6:])]])
    return [mixed, allprot, solvent, small, signed, collide, primes, prefixes]


def residue_topologies(rng, quick):
    """every documented water name (always) and reference protein residue names (all of them in the thorough tier, a
    rotating sample in the quick tier) as residues of extra topologies"""
    waters = topo_spec([[(w, i + 1, "W") for i, w in enumerate(RESREF["water"])], [("ALA", 1, "A"), ("NA", 2, "A")]])
    names = list(RESREF["protein"])
    rng.shuffle(names)
    if quick:
        names = names[:60]
    out = [waters]
    for k in range(0, len(names), 110):
        out.append(topo_spec([[(nm, j % 50, "P") for j, nm in enumerate(names[k:k + 110])], [("HOH", 1, "")]]))
    return out


def random_topology(rng):
    names = [n for n in RES if n not in ("re", "atom", "DA") and n not in PREFIX_WORDS["resname"]]
    chains = []
    for _ in range(rng.randint(1, 3)):
        ch = []
        for _ in range(rng.randint(1, 3)):
            ch.append((rng.choice(names), rng.choice([0, 1, 1, 2, 3, 7, 10]), rng.choice(SEGS)))
        chains.append(ch)
    spec = topo_spec(chains)
    natoms = sum(len(r["atoms"]) for c in spec["chains"] for r in c["residues"])
    for _ in range(rng.randint(0, 3)):
        i, j = rng.randrange(natoms), rng.randrange(natoms)
        if i != j and [min(i, j), max(i, j)] not in spec["bonds"]:
            spec["bonds"].append([min(i, j), max(i, j)])
    return spec


def dec(s):
    """decimal string -> (mantissa, exponent) with value = mantissa / 10^exponent"""
    if "e" in s or "E" in s or "n" in s:
        raise ValueError("mass not a plain decimal: %s" % s)
    if "." in s:
        a, b = s.split(".")
    else:
        a, b = s, ""
    return int(a + b), len(b)


def coq_atom(d):
    m, e = dec(d["mass"])
    if len(str(abs(m)).lstrip("0")) > 15:
        raise ValueError("mass with more than 15 significant digits: %s" % d["mass"])
    return ("{| a_name := %s; a_index := %s; a_nbonds := %s; a_symbol := %s; a_mass := (%s, %s); a_resname := %s; "
            "a_resSeq := %s; a_resindex := %s; a_chainindex := %s; a_segid := %s |}" % (
                cstr(d["name"]), cz(d["index"]), cz(d["n_bonds"]), cstr(d["symbol"]), cz(m), cnat(e),
                cstr(d["resname"]), cz(d["resSeq"]), cz(d["resindex"]), cz(d["chainindex"]), cstr(d["segment_id"])))


def coq_derived(d):
    def b(x):
        return "VBool %s" % ("true" if x else "false")
    code = "VNone" if d["code"] is None else "VStr %s" % cstr(d["code"])
    return clist([b(d["is_backbone"]), b(d["is_sidechain"]), b(d["is_protein"]), b(d["is_water"]), code])


# ------------------------------------------------------------------------------------------------ generator
BOOL_KW = ["all", "everything", "none", "nothing", "backbone", "is_backbone", "sidechain", "is_sidechain", "protein",
           "is_protein", "water", "waters", "is_water"]
STR_KW = ["name", "resname", "resn", "segment_id", "segname", "type", "element", "symbol", "code", "rescode", "resc"]
NUM_KW = ["index", "n_bonds", "residue", "resSeq", "resid", "resi", "chainid", "mass"]
AND_SP, OR_SP, NOT_SP = ["and", "&&"], ["or", "||"], ["not ", "!"]
CMP_SP = ["<", "lt", "==", "eq", "<=", "le", "!=", "ne", ">=", "ge", ">", "gt"]
STR_LITS = ["CA", "C", "N", "O", "H", "H1", "CB", "OW", "NA", "CL", "ALA", "GLY", "SER", "HOH", "SOL", "LIG", "ACE",
            "A", "B", "G", "S", "SEG1", "ZZ", "Na", "Ca", "X", "to", "name", "protein", "None", "True",
            "atom", "re", "self", "np"]
# bare words that collide with names of the generated source, the evaluation namespace, Python builtins and constants:
# as literals they must be plain strings (quoted or not)
NAMESPACE_WORDS = ["atom", "re", "ast", "np", "numpy", "self", "topology", "mdtraj", "md", "print", "id", "type", "str", "int",
                   "list", "abs", "dir", "eval", "exec", "open", "vars", "globals", "object", "Ellipsis", "NotImplemented",
                   "None", "True", "False", "index", "residue", "element", "match", "case"]
NAMESPACE_CONTEXTS = ["name {w}", "resname {w}", "segname {w}", "element {w}", "name == {w}", "{w} == resname", "name CA {w} O",
                      "resname {w} ALA", "{w}", "({w})", "name =~ {w}", "{w} =~ 'C.*'", "resname != {w}", "name {w} to {w}",
                      "not name {w}", "protein and name {w}", "segment_id {w} or water", "name lt {w}", "resid {w}", "{w} and water"]
NUM_LITS = ["0", "1", "2", "3", "5", "7", "10", "12", "0.5", "1.5", "2.", ".5", "12.5", "14", "16", "1.0", "00", "40.078"]
PATTERNS = ["C.*", "C", "[CN]A?", "H[0-9]", "(C|N|O)", ".", "[A-C]+", "O.?", "[^C].*", "A|G", "H.*1", "(CA|CB)", "S.+",
            "HO*H", "X?", "..", "^C", "C$", "^CA$", "^(ALA|GLY)$", "H\\d", "H\\d+$", "\\w+", "\\w{2}$", "C{1,2}$", "[A-Z]{3}", "O\\S?$",
            "\\D+$", "C{2,}", ".{,2}$", "^.$|^H", "H\\\\d", "\\.", "C\\*"]
SYMBOLIC = set("()") | {"<", "==", "<=", "!=", ">=", ">", "&&", "||", "!", "=~"}


def gen_lit(rng, kind=None):
    r = rng.random()
    if kind == "num" or (kind is None and r < 0.4):
        return rng.choice(NUM_LITS)
    s = rng.choice(STR_LITS)
    q = rng.random()
    if q < 0.2:
        return "'%s'" % s
    if q < 0.3:
        return '"%s"' % s
    return s


def gen_kw(rng):
    r = rng.random()
    return rng.choice(BOOL_KW if r < 0.3 else STR_KW if r < 0.65 else NUM_KW)


def gen_atomic(rng):
    """tree of a 'leaf' condition"""
    r = rng.random()
    if r < 0.2:
        return ("kw", rng.choice(BOOL_KW) if rng.random() < 0.85 else gen_kw(rng))
    if r < 0.45:
        k = gen_kw(rng)
        kind = "num" if k in NUM_KW and rng.random() < 0.8 else ("str" if k in STR_KW and rng.random() < 0.8 else None)
        n = 1 if rng.random() < 0.55 else rng.randint(2, 4)
        return ("in", k, [gen_lit(rng, kind) for _ in range(n)])
    if r < 0.58:
        k = rng.choice(NUM_KW) if rng.random() < 0.75 else gen_kw(rng)
        kind = "num" if rng.random() < 0.85 else None
        return ("range", k, gen_lit(rng, kind), gen_lit(rng, kind))
    if r < 0.85:
        k = gen_kw(rng)
        kind = "num" if k in NUM_KW and rng.random() < 0.85 else ("str" if k in STR_KW and rng.random() < 0.85 else None)
        a, b = ("kw", k), ("lit", gen_lit(rng, kind))
        q = rng.random()
        if q < 0.12:
            a, b = b, a
        elif q < 0.2:
            b = ("kw", gen_kw(rng))
        elif q < 0.23:
            a = ("lit", gen_lit(rng))
        return ("cmp", rng.choice(CMP_SP), a, b)
    subj = ("kw", rng.choice(STR_KW) if rng.random() < 0.85 else gen_kw(rng))
    q = rng.random()
    if q < 0.8:
        pat = ("lit", "'%s'" % rng.choice(PATTERNS))
    elif q < 0.9:
        pat = ("lit", rng.choice(["C", "CA", "H1", "N", "O"]))
    else:
        pat = ("kw", rng.choice(STR_KW))
    return ("rx", subj, pat)


def gen_tree(rng, depth):
    if depth <= 0 or rng.random() < 0.15:
        return gen_atomic(rng)
    r = rng.random()
    if r < 0.2:
        return ("not", rng.choice(NOT_SP), gen_tree(rng, depth - 1))
    if r < 0.55:
        return ("and", rng.choice(AND_SP), [gen_tree(rng, depth - 1) for _ in range(2 if rng.random() < 0.8 else 3)])
    if r < 0.9:
        return ("or", rng.choice(OR_SP), [gen_tree(rng, depth - 1) for _ in range(2 if rng.random() < 0.8 else 3)])
    return ("cmp", rng.choice(CMP_SP), gen_tree(rng, depth - 1), gen_tree(rng, depth - 1))


# conventional binding strength of a tree node (larger = tighter)
def strength(t):
    return {"kw": 9, "lit": 9, "in": 9, "range": 9, "not": 8, "cmp": 5, "rx": 5, "and": 3, "or": 2}[t[0]]


def toks(t, style, rng):
    """token list of a tree; style: 'conv' (minimal parentheses for the conventional order), 'full', 'none',
    'rand' (conventional plus random extra / missing pairs)"""
    def sub(c, need):
        ts = toks(c, style, rng)
        compound = c[0] in ("not", "cmp", "rx", "and", "or")
        if style == "full":
            wrap = compound
        elif style == "none":
            wrap = False
        else:
            wrap = strength(c) < need
            if style == "rand":
                q = rng.random()
                if q < 0.15:
                    wrap = not wrap
        return ["("] + ts + [")"] if wrap else ts
    k = t[0]
    if k == "kw":
        return [t[1]]
    if k == "lit":
        return [t[1]]
    if k == "in":
        return [t[1]] + list(t[2])
    if k == "range":
        return [t[1], t[2], "to", t[3]]
    if k == "not":
        return [t[1]] + sub(t[2], 8)
    if k == "cmp":
        return sub(t[2], 6) + [t[1]] + sub(t[3], 6)
    if k == "rx":
        return sub(t[1], 6) + ["=~"] + sub(t[2], 6)
    need = 4 if k == "and" else 3
    out = []
    for i, c in enumerate(t[2]):
        if i:
            out.append(t[1])
        out += sub(c, need)
    return out


def join(tokens, rng, tight):
    """string of a token list: single blanks; with tight > 0 blanks next to parentheses and symbolic operators are
    dropped with that probability (never between two word-like tokens, never after 'not ')"""
    s = ""
    prev = None
    for t in tokens:
        if prev is None:
            s = t
        else:
            can_drop = (prev in SYMBOLIC or t in SYMBOLIC) and not prev.endswith(" ")
            if prev == "!" and t.startswith("="):
                can_drop = False
            if prev.endswith(" "):
                s += t if rng.random() < 0.5 else " " + t
            elif can_drop and rng.random() < tight:
                s += t
            else:
                s += " " * (1 if rng.random() < 0.9 else 2) + t
        prev = t
    return s


MALFORMED_KINDS = ["unbalanced_open", "unbalanced_close", "dangling_op_end", "dangling_op_start", "double_op", "empty",
                   "bad_char", "single_literal", "literal_as_truth", "compare_literals", "regex_on_literal",
                   "not_literal", "juxtaposed"]


def gen_malformed(rng, kind):
    base = toks(gen_tree(rng, rng.randint(0, 2)), "conv", rng)
    other = toks(gen_tree(rng, rng.randint(0, 1)), "conv", rng)
    binop = rng.choice(AND_SP + OR_SP + CMP_SP + ["=~"])
    if kind == "unbalanced_open":
        i = rng.randrange(len(base) + 1)
        t = base[:i] + ["("] + base[i:]
    elif kind == "unbalanced_close":
        i = rng.randrange(len(base) + 1)
        t = base[:i] + [")"] + base[i:]
    elif kind == "dangling_op_end":
        t = base + [binop]
    elif kind == "dangling_op_start":
        t = [binop] + base
    elif kind == "double_op":
        t = ["("] + base + [")", binop, rng.choice(AND_SP + OR_SP + CMP_SP), "("] + other + [")"]
    elif kind == "empty":
        t = [rng.choice(["", " ", "  ", "( )", "()"])]
    elif kind == "bad_char":
        i = rng.randrange(len(base) + 1)
        t = base[:i] + [rng.choice(["#", "-", "=", "&", "|", "~", "*", ",", "[", "@", "$", "_", "%", "+", ";"])] + base[i:]
    elif kind == "single_literal":
        t = [rng.choice(["CA", "'CA'", "2", "1", "0", "1.0", "3.5", "ZZ", "(CA)", '"protein"', "0.0", "01"])]
    elif kind == "literal_as_truth":
        t = ["("] + base + [")", rng.choice(AND_SP + OR_SP), gen_lit_strict(rng)]
        if rng.random() < 0.5:
            t = [gen_lit_strict(rng), rng.choice(AND_SP + OR_SP), "("] + base + [")"]
    elif kind == "compare_literals":
        t = [gen_lit_strict(rng), rng.choice(CMP_SP), gen_lit_strict(rng)]
    elif kind == "regex_on_literal":
        t = [gen_lit_strict(rng), "=~", "'C.*'"]
    elif kind == "not_literal":
        t = [rng.choice(NOT_SP), gen_lit_strict(rng)]
    else:  # juxtaposed: two complete expressions without an operator, the first one closed by a parenthesis
        t = ["("] + base + [")"] + other
    return join(t, rng, 0.0)


IMPL_ONLY = ["name 'a''b'",   # pyparsing's quotedString: a doubled quote inside a quoted string, by design
             "name =~ '^C'", "name =~ 'C$'", "name =~ '\\\\d'", "name =~ 'C{1,2}'", "name =~ 'H\\\\d+'",
             "resname =~ '^(ALA|GLY)$'", "name =~ 'C.*?'", "name =~ '(?i)ca'", "name =~ ''", "name 'C\\\\A'",
             "name\tCA", "protein\nand name CA", "name =~ '[]C]'", "name =~ 'a{2'"]


def reduced_exhaustive():
    """every string of nesting depth <= 2 over a reduced vocabulary, written without and with parentheses"""
    d0 = ["protein", "water", "name CA", "index 1 to 4", "CA"]
    ops = ["and", "&&", "or", "<", "lt", "=~", "eq"]
    d1 = ["%s%s" % (u, x) for u in ("not ", "!") for x in d0] + ["%s %s %s" % (x, o, y) for o in ops for x in d0 for y in d0]
    out = list(d0) + list(d1)
    for u in ("not ", "!"):
        for x in d1:
            out.append(u + x)
            out.append("%s(%s)" % (u, x))
    for o in ops:
        for x in d1:
            for y in d0:
                out.append("%s %s %s" % (x, o, y))
                out.append("(%s) %s %s" % (x, o, y))
                out.append("%s %s %s" % (y, o, x))
                out.append("%s %s (%s)" % (y, o, x))
    return out


# ---- lexically odd tokens.  The documented language has: keywords, operators, plain decimal integers/floats, quoted
# strings, bare words (letters then letters/digits), parentheses, "to".  Every token below is outside it, so a string
# containing one must raise - except where the grammar as found (and hence the model) reads the characters as two
# adjacent literals of an implicit list ("1e3" = 1 and 'e3', "0x10" = 0 and 'x10', "CA.5" = 'CA' and .5) or as a bare
# word ("AND", "Or", "inf"): those are "accepted as found" and are compared with the model like any other string.
ODD_SEPS = ["-", "+", "e", "E", ".", "..", "_", "x", "*", "/", ",", ";", ":", "%", "^", "e-", "e+", "**", "//"]
ODD_FIXED = {
    "radix_or_underscore": ["0x10", "0X1F", "0o17", "0b11", "1_000", "1__0", "_1", "1_", "0_0"],
    "exponent": ["1e3", "1E3", "1e-3", "1E+3", "1.5e2", "1e", "e3", "1e3.5", ".5e1"],
    "ellipsis": ["..."],
    "dots": [".5.", "1..2", "..", "....", "1.2.3", ".", "5..", "..5", "1.e", "1 .5", "1. 5"],
    "signed": ["--5", "-+5", "5-", "5+", "-.5", "+.5", "-", "+", "- 5", "-5-", "1-2-3"],
    "arithmetic": ["3-8", "10-2", "0-1", "2*3", "1/2", "2**3", "7%2", "1+1", "3 - 8", "2 * 3", "(1)", "((1))", "(3-8)", "1<<2",
                   "~1", "3-", "-3-8", "8-3.5"],
    "python": ["__import__", "__import__('os')", "a.b", "a.b.c", "a[0]", "a(1)", "f()", "lambda", "lambda:1", "x:1", "a;b",
               "a,b", "{1}", "[1,2]", "`a`", "a@b", "$a", "a!", "a\\n", "1j", "1L", "0_", "inf", "nan", "-inf", "a=1", "a==1==",
               "x if y else z", "import os", "del", "is", "in", "not", "yield", "None.x", "True+1"],
    "quotes": ["'CA", "CA'", '"CA', "'CA\"", "'", '"', "'C'A'", '"C"A"', "''CA", "'CA' 'CB", "'\\'"],
    "separators": ["CA, CB", "CA; CB", "CA,CB", "CA ,CB", ",CA", "CA,", "CA;", ";", ",", "CA : CB", "CA | CB", "CA & CB"],
}
ODD_CASE_OPS = ["protein AND water", "protein And water", "protein OR water", "protein Or water", "NOT protein", "Not protein",
                "resid 1 TO 3", "resid 1 To 3", "mass LT 5", "mass Lt 5", "resid EQ 1", "name CA AND name CB",
                "(protein) AND (water)", "(protein) Or (water)", "(mass) GT 5", "Protein", "WATER", "Name CA", "RESID 1"]
LEX_KEYS = ["resSeq", "index", "name", "mass", "resname", "resid"]
LEX_CONTEXTS = ["{k} {t}", "{k} == {t}", "{k} 1 {t}", "{k} {t} 2", "{k} 1 to {t}", "{k} {t} to 9", "{t}", "{k} {t} and protein",
                "({k} {t})", "not {k} {t}", "{k} < {t}", "{t} == {k}", "{k} =~ {t}", "protein and {k} {t}"]


def lexical_cases(rng, quick):
    """(string, class) pairs: every odd token in several syntactic positions"""
    toks_ = []
    for klass, ts in ODD_FIXED.items():
        toks_ += [(t, klass) for t in ts]
    nums = ["3", "8", "10", "2", "0.5", "12"]
    for sep in ODD_SEPS:
        for a, b in ([("3", "8"), ("10", "2")] if quick else [(a, b) for a in nums[:4] for b in nums[:4] if a != b] + [("0.5", "2")]):
            toks_.append((a + sep + b, "embedded[%s]" % sep))
        for a in (["5"] if quick else ["5", "0.5", "10"]):
            toks_.append((sep + a, "leading[%s]" % sep))
            toks_.append((a + sep, "trailing[%s]" % sep))
    out = []
    for t, klass in toks_:
        ctxs = rng.sample(LEX_CONTEXTS, 2) if quick else rng.sample(LEX_CONTEXTS, 6)
        if quick and klass in ("arithmetic", "signed") or klass.startswith("embedded[-") or klass.startswith("embedded[+"):
            ctxs = LEX_CONTEXTS[:7] if quick else LEX_CONTEXTS
        for c in ctxs:
            out.append((c.format(k=rng.choice(LEX_KEYS), t=t), "lexical/" + klass))
    for s_ in ODD_CASE_OPS:
        out.append((s_, "lexical/odd_case"))
    return out


def signed_checks(rng, ntopo, quick):
    """signed numbers are not part of the documented language (NUMS has no sign, the docs show none): a string with
    one may be refused; if it is accepted it must have the plain numeric meaning.  Anything else is a failure."""
    checks = []
    for k in ["resSeq", "index", "resid"]:
        for v in ([-5, -1] if quick else [-5, -1, -10, -3]):
            for ti in range(ntopo):
                checks.append({"topo": ti, "kind": "naive", "lhs": "%s %d" % (k, v), "attr": k, "op": "==", "value": v, "or_reject": True})
                checks.append({"topo": ti, "kind": "naive", "lhs": "%s == %d" % (k, v), "attr": k, "op": "==", "value": v, "or_reject": True})
                checks.append({"topo": ti, "kind": "naive", "lhs": "%s > %d" % (k, v), "attr": k, "op": ">", "value": v, "or_reject": True})
                checks.append({"topo": ti, "kind": "naive", "lhs": "%s %d to 3" % (k, v), "attr": k, "op": "range", "value": [v, 3],
                               "or_reject": True})
                checks.append({"topo": ti, "kind": "naive", "lhs": "%s +%d" % (k, -v), "attr": k, "op": "==", "value": -v, "or_reject": True})
    return checks


KEYWORD_WORDS = set(BOOL_KW + STR_KW + NUM_KW)


def gen_lit_strict(rng):
    """a literal that is not a selection keyword and not None/True/False"""
    while True:
        l = gen_lit(rng)
        if l not in KEYWORD_WORDS and l not in ("None", "True", "False"):
            return l


# ------------------------------------------------------------------------------------------------ running cases
def impl_outcome(r):
    """canonical outcome of the implementation: ('sel', [..]) | ('rejected',) | ('typeerror',) | ('other', text)"""
    sel = r["select"]
    if r["parse"] != "ok":
        if "err" in sel:
            return ("rejected",)
        return ("other", "parse_selection raised %s but Topology.select returned" % r["parse"])
    if "idx" in sel:
        return ("sel", sel["idx"])
    if sel["err"] == "TypeError":
        return ("typeerror",)
    return ("other", "evaluation raised %s" % sel["err"])


def coq_outcome(o):
    if o[0] == "sel":
        return "Sel %s" % clist([cz(i) for i in o[1]])
    if o[0] == "rejected":
        return "Rejected"
    return "EvalErr TypeErr"


def coq_codes(ctx, atoms_by_topo, items, shard=300, fn="codes", extra_require="", case_type="nat * string * outcome",
              case_fmt=None):
    """items: [(case_index, topo_index, string, outcome)] -> ({case_index: code}, errors).  One coqc per shard,
    4 at a time; only (index, code) pairs with code != 0 are printed by Coq and parsed here."""
    from concurrent.futures import ThreadPoolExecutor
    head = "\n".join(["Require Import MD.Select.Syntax MD.Select.Model MD.Select.Run MD.Gen.SelectTables%s." % extra_require,
                      "Open Scope string_scope."])
    if case_fmt is None:
        case_fmt = lambda lti, it: "(%d%%nat, %s, %s)" % (lti, cstr(it[2]), coq_outcome(it[3]))      # noqa: E731
    coq_topos = {}

    def topo_text(ti):
        if ti not in coq_topos:
            coq_topos[ti] = clist([coq_atom(a) for a in atoms_by_topo[ti]], str)
        return coq_topos[ti]

    shards = [items[i:i + shard] for i in range(0, len(items), shard)]

    def run(si_sh):
        si, sh = si_sh
        used = sorted({it[1] for it in sh})          # only the topologies this shard refers to
        local = {ti: k for k, ti in enumerate(used)}
        body = ["From Coq Require Import ZArith List String Bool Ascii.", "Import ListNotations.", head,
                "Definition topos : list (list atom) := [", ";\n".join(topo_text(ti) for ti in used), "].",
                "Definition cases : list (nat * (%s)) := [" % case_type]
        # shard-local indices: large nat literals overflow coqc's stack
        body.append(";\n".join("(%d%%nat, %s)" % (j, case_fmt(local[it[1]], it)) for j, it in enumerate(sh)))
        body.append("].")
        body.append('Definition tag := "CODES"%string.')
        body.append("Set Printing Depth 1000000.")
        body.append("Definition result := Eval vm_compute in (%s gen_cfg topos cases)." % fn)
        body.append("Eval vm_compute in (tag, List.length result, result).")
        return ctx.coqc_text("c12_%s_%d_%d" % (fn, id(items) % 100000, si), "\n".join(body) + "\n", timeout=1200)

    res, errors = {}, []
    sh_index = [[it[0] for it in sh] for sh in shards]
    with ThreadPoolExecutor(max_workers=4) as ex:
        for si, (rc, out) in enumerate(ex.map(run, list(enumerate(shards)))):
            if rc != 0:
                errors.append(out[-3000:])
                continue
            m = re.search(r'\("CODES"(?:%string)?,\s*(\d+)(?:%nat)?,\s*(.*)\)\s*:', out, re.S)
            if not m:
                errors.append("unparsed coqc output: " + out[-2000:])
                continue
            pairs = re.findall(r"\(\s*(\d+)(?:%nat)?\s*,\s*(\d+)(?:%nat)?\s*\)", m.group(2))
            if len(pairs) != int(m.group(1)):     # the printed list must be complete (Coq elides deep terms)
                errors.append("coqc printed %d of %s codes" % (len(pairs), m.group(1)))
                continue
            for a, b in pairs:
                res[sh_index[si][int(a)]] = int(b)
    return res, errors


class SourceUnsupported(Exception):
    pass


PY_CMP = {"Lt": "CLt", "Eq": "CEq", "LtE": "CLe", "NotEq": "CNe", "GtE": "CGe", "Gt": "CGt"}
_FRAME = None


def source_to_coq(src):
    """the source of Topology.select_expression -> Coq term of type Syntax.pyexpr for its condition.  Fails closed
    (SourceUnsupported) on a different comprehension frame and on every node shape outside Syntax.pyexpr."""
    import ast
    global _FRAME
    if _FRAME is None:
        f = ast.parse("[atom.index for atom in topology.atoms if 0]", mode="eval").body
        _FRAME = (ast.dump(f.elt), ast.dump(f.generators[0].target), ast.dump(f.generators[0].iter))
    try:
        t = ast.parse(src, mode="eval").body
    except (SyntaxError, ValueError, RecursionError) as e:
        raise SourceUnsupported("source does not parse: %s" % type(e).__name__)
    if not (isinstance(t, ast.ListComp) and len(t.generators) == 1 and not t.generators[0].is_async
            and len(t.generators[0].ifs) == 1
            and (ast.dump(t.elt), ast.dump(t.generators[0].target), ast.dump(t.generators[0].iter)) == _FRAME):
        raise SourceUnsupported("frame")

    def text(v):
        if not all(32 <= ord(ch) <= 126 for ch in v):
            raise SourceUnsupported("string constant outside printable ASCII")
        return cstr(v)

    def chain(n):
        if isinstance(n, ast.Name):
            if n.id != "atom":
                raise SourceUnsupported("attribute of %s" % n.id)
            return ()
        if isinstance(n, ast.Attribute):
            return chain(n.value) + (n.attr,)
        raise SourceUnsupported("attribute base %s" % type(n).__name__)

    def conv(n):
        if isinstance(n, ast.Constant):
            v = n.value
            if v is True or v is False:
                return "(PConst (VBool %s))" % ("true" if v else "false")
            if v is None:
                return "(PConst VNone)"
            if isinstance(v, str):
                return "(PConst (VStr %s))" % text(v)
            if isinstance(v, (int, float)):
                try:
                    m, e = dec(repr(v))
                except ValueError:
                    raise SourceUnsupported("number %r" % (v,))
                if m < 0:
                    raise SourceUnsupported("negative number")
                return "(PConst (VNum %s %s))" % (cz(m), cnat(e))
            raise SourceUnsupported("constant %r" % (v,))
        if isinstance(n, ast.Name):
            return "(PName %s)" % text(n.id)
        if isinstance(n, ast.Attribute):
            f = FIELDS.get(chain(n))
            if f is None:
                raise SourceUnsupported("attribute chain %r" % (chain(n),))
            return "(PAttr %s)" % f
        if isinstance(n, ast.UnaryOp) and isinstance(n.op, ast.Not):
            return "(PNot %s)" % conv(n.operand)
        if isinstance(n, ast.BoolOp):
            return "(PBoolOp %s %s)" % ("BAnd" if isinstance(n.op, ast.And) else "BOr", clist([conv(x) for x in n.values], str))
        if isinstance(n, ast.Compare):
            if len(n.ops) == 1 and isinstance(n.ops[0], ast.In) and isinstance(n.comparators[0], ast.List):
                return "(PInList %s %s)" % (conv(n.left), clist([conv(x) for x in n.comparators[0].elts], str))
            if (len(n.ops) == 1 and isinstance(n.ops[0], ast.IsNot) and isinstance(n.comparators[0], ast.Constant)
                    and n.comparators[0].value is None and isinstance(n.left, ast.Call) and not n.left.keywords
                    and len(n.left.args) == 2 and isinstance(n.left.func, ast.Attribute) and n.left.func.attr == "match"
                    and isinstance(n.left.func.value, ast.Name) and n.left.func.value.id == "re"):
                return "(PReMatch %s %s)" % (conv(n.left.args[0]), conv(n.left.args[1]))
            ops = []
            for o in n.ops:
                if type(o).__name__ not in PY_CMP:
                    raise SourceUnsupported("comparison %s" % type(o).__name__)
                ops.append(PY_CMP[type(o).__name__])
            return "(PCompare %s %s %s)" % (conv(n.left), clist(ops, str), clist([conv(x) for x in n.comparators], str))
        raise SourceUnsupported("node %s" % type(n).__name__)

    return conv(t.generators[0].ifs[0])


REF_WORDS = None


def table_status(ctx):
    """(tables literally as found?, documented meanings present?, operator order conventional?) of the regenerated
    tables, decided by Coq"""
    if getattr(ctx, "_c12_status", None) is None:
        rc, out = ctx.coq_eval(["MD.Select.Syntax", "MD.Select.Model", "MD.Select.Run", "MD.Gen.SelectTables"],
                               "(tables_as_found gen_cfg, documented_meaning gen_cfg, order_conventional gen_cfg, "
                               "levels_as_found gen_cfg)")
        m = re.search(r"=\s*\((true|false),\s*(true|false),\s*(true|false),\s*(true|false)\)", out)
        if rc != 0 or not m:
            ctx.break_("correspondence:coqc-evaluation(table status)", out[-1500:])
            ctx._c12_status = (True, True, False, True)
        else:
            ctx._c12_status = tuple(x == "true" for x in m.groups())
        ctx.notes.setdefault("coverage_extra", {})["source_tables"] = {
            "literally_as_found_reference": ctx._c12_status[0], "documented_meanings_present": ctx._c12_status[1],
            "operator_order_conventional": ctx._c12_status[2], "levels_as_found_reference": ctx._c12_status[3]}
    return ctx._c12_status


def nontrivial(s):
    return len(s.split()) > 1 or any(c in s for c in "<>=!&|(")


# ---- the recorded recursion boundary of the grammar AS FOUND (19 infixNotation levels).  Measured on the unchanged tree
# (tools: select_impl.py mode recursion_boundary, and 400 generated strings): parse_selection needs about
# REF_BASE + REF_PER_PAREN * (parenthesis nesting depth) + REF_PER_UNARY * (unary operators) Python frames, never more
# than 19 above that estimate.  Under the default limit of 1000 every expression with parentheses nested two deep and no
# unary operator therefore parses (estimate 961), three deep never does (1271).  A RecursionError on a string whose
# estimate is below REF_KNOWN_FROM is NOT the recorded defect: the grammar got deeper.
REF_BASE, REF_PER_PAREN, REF_PER_UNARY, REF_KNOWN_FROM = 341, 310, 17, 970


def nesting_shape(s):
    """(parenthesis nesting depth, number of unary operator tokens) of a string, quoted parts ignored"""
    t = re.sub(r"'[^']*'|\"[^\"]*\"", "Q", s)
    d = m = 0
    for ch in t:
        if ch == "(":
            d += 1
            m = max(m, d)
        elif ch == ")":
            d -= 1
    return m, len(re.findall(r"\bnot\b|!(?!=)", t))


def frames_estimate_as_found(s):
    d, u = nesting_shape(s)
    return REF_BASE + REF_PER_PAREN * d + REF_PER_UNARY * u


def run_cases(ctx, topo_specs, cases, pre=None):
    """cases: list of dicts {topo: index into topo_specs, s: string, stream: name, malformed: kind or None}.
    pre = (atoms_by_topo, results) when the implementation has already been run (history stream: 'topo' is then the
    index of a topology VERSION and every case carries its own history for the replay)"""
    from concurrent.futures import ThreadPoolExecutor
    if pre is not None:
        atoms_by_topo, results = pre
    else:
        pairs = [[c["topo"], c["s"]] for c in cases]
        nproc = 4 if len(pairs) > 200 else 1
        parts = [pairs[k::nproc] for k in range(nproc)]
        with ThreadPoolExecutor(max_workers=nproc) as ex:
            outs_p = list(ex.map(lambda part: ctx.run_impl("select_impl.py", {"mode": "run", "topologies": topo_specs,
                                                                               "cases": part}, timeout=3000), parts))
        atoms_by_topo = outs_p[0]["atoms"]
        results = [None] * len(pairs)
        for k, o in enumerate(outs_p):
            results[k::nproc] = o["results"]
    ctx.log("implementation ran %d cases" % len(results))
    tag = "history_" if pre is not None else ""
    # 0. derived attributes as the objects report them vs the model's derivation from the tables
    dcases = [(clist([coq_atom(a) for a in atoms], str), clist([coq_derived(a) for a in atoms], str))
              for atoms in atoms_by_topo]
    bad, errs = ctx.coq_mismatches(["MD.Select.Syntax", "MD.Select.Model", "MD.Select.Run", "MD.Gen.SelectTables"],
                                   ("list atom", "list (list value)"), "vll_eqb", "(map (derived (documented gen_cfg)))", dcases)
    if errs:
        ctx.break_("correspondence:coqc-evaluation(derived)", "\n".join(errs))
        return
    for ti in bad:
        ctx.break_("correspondence:derived-attributes", "is_backbone/is_sidechain/is_protein/is_water/code of topology %d "
                   "differ from the model's derivation" % ti)
        witness = next((full_case(c, topo_specs) for c in cases if c["topo"] == ti), None)
        if witness is None:
            witness = {"topo_spec": topo_specs[ti] if topo_specs else None, "s": "protein", "stream": "derived", "version": ti}
        ctx.fail("atom/residue attributes (is_protein, is_water, is_backbone, is_sidechain, code) differ from their "
                 "documented derivation", witness,
                 observed=[{k: a[k] for k in ("name", "resname", "is_backbone", "is_sidechain", "is_protein", "is_water",
                                              "code")} for a in atoms_by_topo[ti]],
                 expected="Coq: derived (documented gen_cfg)", tags={"kind": "derived_attributes"})
    # 1. select_expression evaluates to the same thing (implementation only)
    outs = []
    for c, r in zip(cases, results):
        o = impl_outcome(r)
        outs.append(o)
        sel, src = r["select"], r["src"]
        same = (("rejected" in src and o[0] == "rejected") or ("idx" in src and "idx" in sel and src["idx"] == sel["idx"])
                or ("err" in src and "err" in sel and r["parse"] == "ok" and src["err"] == sel["err"]))
        if not same:
            ctx.fail("eval(Topology.select_expression(s)) differs from Topology.select(s)", full_case(c, topo_specs),
                     observed={"select": sel, "source": r.get("source"), "eval_source": src}, expected="equal",
                     tags={"kind": "source_differs"})
        if r.get("recursion_error_at_default_limit") and o[0] != "rejected":
            nrec = ctx.notes.setdefault("coverage_extra", {}).setdefault("recursion_error_cases", 0)
            ctx.notes["coverage_extra"]["recursion_error_cases"] = nrec + 1
            d, u = nesting_shape(c["s"])
            est = frames_estimate_as_found(c["s"])
            rtags = {"kind": "recursion_error", "paren_depth": d, "unary_operators": u, "frames_estimate_as_found": est}
            if est >= REF_KNOWN_FROM:
                if nrec < 25:
                    ctx.fail("a well-formed expression is refused with RecursionError under the default recursion limit "
                             "(parentheses nested about three deep through 19 infixNotation levels)", full_case(c, topo_specs),
                             observed="RecursionError", expected=list(o), tags=rtags)
            else:
                nsh = ctx.notes["coverage_extra"].setdefault("recursion_error_cases_inside_recorded_boundary", 0)
                ctx.notes["coverage_extra"]["recursion_error_cases_inside_recorded_boundary"] = nsh + 1
                if nsh < 10:
                    ctx.fail("a well-formed expression that the grammar as found parses within the default recursion limit "
                             "(parentheses nested at most two deep, no unary operator: about 961 of 1000 frames) is refused "
                             "with RecursionError: the grammar got deeper", full_case(c, topo_specs),
                             observed="RecursionError", expected=list(o), tags=rtags)
    # 2. model comparison inside coqc
    items = [(i, c["topo"], c["s"], o) for i, (c, o) in enumerate(zip(cases, outs))
             if c["stream"] != "impl_only" and o[0] != "other"]
    ctx.log("derived attributes checked; evaluating the model on %d cases" % len(items))
    codes, errs = coq_codes(ctx, atoms_by_topo, items)
    ctx.log("model evaluated")
    if errs:
        ctx.break_("correspondence:coqc-evaluation", "\n".join(errs))
        return
    for i, (c, o) in enumerate(zip(cases, outs)):
        if o[0] == "other" and c["stream"] != "impl_only":
            codes[i] = 7
    stats = ctx.notes.setdefault("coverage_extra", {}).setdefault("outcomes", {})
    in_model = [i for i, c in enumerate(cases) if c["stream"] != "impl_only"]
    outside = [i for i in in_model if codes.get(i, 0) & 8]
    for i in outside:
        if cases[i]["stream"] not in ("malformed", "lexical", "quoted"):
            ctx.break_("correspondence:generator-domain", "generated string outside the modelled domain: %r" % cases[i]["s"])
            break
    compared = [i for i in in_model if not codes.get(i, 0) & 8]
    ma = [i for i in compared if codes.get(i, 0) & 1]
    mb = [i for i in compared if codes.get(i, 0) & 2]
    variant = "as_found" if not ma else ("single_literal_repaired" if not mb else None)
    ctx.notes["coverage_extra"][tag + "model_variant_matching_impl"] = variant
    ctx.notes["coverage_extra"][tag + "outside_model_domain"] = len(outside)
    if os.environ.get("C12_DEBUG"):
        with open(os.environ["C12_DEBUG"], "w") as fh:
            json.dump([{"s": cases[i]["s"], "impl": outs[i], "code": codes.get(i, 0), "stream": cases[i]["stream"],
                        "topo": cases[i]["topo"]} for i in in_model if codes.get(i, 0) & 15], fh, indent=0)
    budget = {}
    as_found, _doc_ok, _conv, lv_as_found = table_status(ctx)
    if not as_found:
        # the source tables differ from the as-found reference: compare with the documented tables as well, on the
        # strings that use documented spellings only
        t = getattr(ctx, "tables", None) or {}
        new_words = (set(t.get("selkw", {})) | {o.strip() for l in t.get("levels", []) for o in l["ops"]}) - (
            KEYWORD_WORDS | {"segment_id", "segname", "n_bonds"} | set(AND_SP + OR_SP + CMP_SP + ["not", "!", "=~"]))
        ditems = [it for it in items if not any(w in new_words for w in re.findall(r"[A-Za-z_]+|[^A-Za-z_\s]+", it[2]))]
        dcodes, derrs = coq_codes(ctx, atoms_by_topo, ditems, fn="doc_codes")
        if derrs:
            ctx.break_("correspondence:coqc-evaluation(documented)", "\n".join(derrs))
        nbad = 0
        for i in sorted(dcodes, key=lambda i: len(cases[i]["s"])):
            if codes.get(i, 0) & 8:
                continue
            nbad += 1
            if nbad <= 25:
                ctx.fail("a documented keyword or operator no longer has its documented meaning", full_case(cases[i], topo_specs),
                         observed=list(outs[i]), expected="Coq: select_str (documented gen_cfg)",
                         tags={"kind": "documented_meaning"})
        ctx.notes["coverage_extra"][tag + "differs_from_documented_tables"] = nbad

    def fail(kind, desc, i, expected, tags):
        budget[kind] = budget.get(kind, 0) + 1
        if budget[kind] <= 25:
            ctx.fail(desc, full_case(cases[i], topo_specs), observed=list(outs[i]), expected=expected, tags=tags)

    if variant is None:
        both = [i for i in compared if codes.get(i, 0) & 1 and codes.get(i, 0) & 2]
        both.sort(key=lambda i: len(cases[i]["s"]))
        ex = both[0] if both else (ma + mb)[0]
        ctx.break_("correspondence:select-model", "neither model variant reproduces the implementation on all cases "
                   "(%d / %d differ); e.g. %r -> %s" % (len(both), len(compared), cases[ex]["s"], outs[ex]))
        for i in both:
            if codes[i] & 4:   # also not what the expression denotes under the conventional reading
                fail("wrong", "Topology.select: result differs from the denotation of the expression", i,
                     "Coq: select_str gen_cfg / conventional gen_cfg", {"kind": "wrong_selection"})
    # the order of the result.  The model lists a.index in the order of topology.atoms; where that order is not the index
    # order (an atom added to an earlier residue after later ones exist) the as-found result is not increasing
    compared_set = set(compared)
    for i, (c, r) in enumerate(zip(cases, results)):
        idx = r["select"].get("idx")
        if idx is not None and any(b <= a for a, b in zip(idx, idx[1:])):
            follows_model = i in compared_set and not codes.get(i, 0) & 1
            budget["unsorted"] = budget.get("unsorted", 0) + 1
            if budget["unsorted"] <= 4:
                ctx.fail("Topology.select returned indices that are not strictly increasing", full_case(c, topo_specs),
                         observed=r["select"], expected="strictly increasing",
                         tags={"kind": "unsorted", "explained_by": "hierarchy_iteration_order" if follows_model else None})
    if budget.get("unsorted"):
        ctx.notes["coverage_extra"][tag + "unsorted_results"] = budget["unsorted"]
    # the source of select_expression, parsed with Python's ast, converted node by node and evaluated by the MODEL's
    # Python semantics on the atoms: it must give what Topology.select returned
    sitems, unsupported = [], {}
    for i, (c, r) in enumerate(zip(cases, results)):
        if outs[i][0] not in ("sel", "typeerror") or not isinstance(r.get("source"), str):
            continue
        try:
            sitems.append((i, c["topo"], c["s"], outs[i], source_to_coq(r["source"])))
        except SourceUnsupported as e:
            k = str(e).split(" ")[0]
            unsupported[k] = unsupported.get(k, 0) + 1
    if ctx.tier == "quick" and len(sitems) > 900:
        keep = set(ctx.rng.sample(range(len(sitems)), 900))
        sitems = [it for k, it in enumerate(sitems) if k in keep or cases[it[0]]["stream"].startswith(("history", "nesting", "witness"))]
    scodes, serrs = coq_codes(ctx, atoms_by_topo, sitems, fn="src_codes", extra_require=" MD.Select.SourceEval",
                              case_type="nat * string * pyexpr * outcome",
                              case_fmt=lambda lti, it: "(%d%%nat, %s, %s, %s)" % (lti, cstr(it[2]) if all(32 <= ord(ch) <= 126 for ch in it[2]) else cstr("\x7f"), it[4], coq_outcome(it[3])))
    if serrs:
        ctx.break_("correspondence:coqc-evaluation(source)", "\n".join(serrs))
    else:
        nbad = 0
        for i in sorted(scodes, key=lambda i: len(cases[i]["s"])):
            if scodes[i] & 1 and not scodes[i] & 8:
                nbad += 1
                if nbad <= 10:
                    ctx.fail("the source of Topology.select_expression, evaluated independently (parsed with ast, run by the model's "
                             "Python semantics on the atoms), does not give what Topology.select returned",
                             full_case(cases[i], topo_specs), observed={"select": list(outs[i]), "source": results[i].get("source")},
                             expected="Coq: run_compiled gen_cfg atoms (Some <source>) = select", tags={"kind": "source_eval_differs"})
        st = ctx.notes["coverage_extra"].setdefault(tag + "source_evaluated_by_model", {})
        st.update({"sources_converted_and_evaluated": len(sitems), "differ_from_select": nbad,
                   "outside_model_regex_subset": sum(1 for v in scodes.values() if v & 8),
                   "not_term_for_term_the_compiled_model_predicate": sum(1 for v in scodes.values() if v & 2),
                   "not_converted": unsupported})
    vbit = 1 if variant == "as_found" else 2
    for i in sorted(compared, key=lambda i: len(cases[i]["s"])):
        c, code = cases[i], codes.get(i, 0)
        if variant is not None and not code & vbit:
            if code & 4:
                fail("prec", "operator precedence is the sorted order of the operator spellings, not unary > comparison/=~ > "
                     "and > or: the expression is read differently from its conventional meaning", i,
                     "Coq: select_str (conventional gen_cfg)", {"kind": "precedence", "explained_by": "levels_as_found" if lv_as_found else "levels_changed"})
            elif variant == "as_found" and code & 2:
                fail("single", "a single numeric literal equal to 0 or 1 is accepted as a selection", i, "rejected",
                     {"kind": "single_literal", "explained_by": "in_safe_set"})
            elif c.get("malformed") and c["stream"] == "malformed" and outs[i][0] != "rejected":
                fail("malformed", "malformed expression accepted (%s)" % c["malformed"], i, "rejected",
                     {"kind": "malformed_accepted", "class": c["malformed"]})
    # the static check of coq/Select/Types.v: a predicate it accepts can never raise TypeError
    n_wt = sum(1 for i in compared if codes.get(i, 0) & 64)
    ctx.notes["coverage_extra"][tag + "static_check"] = {
        "well_typed_cases": n_wt, "typeerror_cases": sum(1 for i in compared if outs[i][0] == "typeerror"),
        "typeerror_cases_rejected_by_the_check": sum(1 for i in compared if outs[i][0] == "typeerror" and not codes.get(i, 0) & 64)}
    for i in compared:
        if codes.get(i, 0) & 64 and outs[i][0] == "typeerror":
            fail("static", "evaluation raised TypeError on a predicate the static check accepts (Typing.well_typed_no_type_error)",
                 i, "no TypeError", {"kind": "typeerror_on_well_typed"})
    # strings that are malformed by construction (mutated expressions, lexically odd tokens): whenever the model
    # rejects them, or has no answer because they leave its alphabet, the implementation must raise
    accepted_as_found = {}
    for i in sorted(in_model, key=lambda i: len(cases[i]["s"])):
        c, code = cases[i], codes.get(i, 0)
        if c["stream"] not in ("malformed", "lexical") or outs[i][0] == "rejected":
            continue
        if code & 8 or code == 15 or (code & 32 and not (variant == "as_found" and code & 2 and not code & 1)):
            fail("malformed", "malformed expression accepted (%s)" % c["malformed"], i, "rejected",
                 {"kind": "malformed_accepted", "class": c["malformed"]})
        elif c["stream"] == "lexical":
            accepted_as_found[c["malformed"]] = accepted_as_found.get(c["malformed"], 0) + 1
    if accepted_as_found:
        ctx.notes["coverage_extra"][tag + "lexical_classes_accepted_as_found_and_compared_with_model"] = accepted_as_found
    for i, (c, o) in enumerate(zip(cases, outs)):
        ctx.count({"topo": c["topo"], "s": c["s"]}, nontrivial=nontrivial(c["s"]), bucket="%s/%s" % (c["stream"], o[0]))
        stats[o[0]] = stats.get(o[0], 0) + 1


def full_case(c, topo_specs):
    d = dict(c)
    if "history" in d:
        return d
    d["topo_spec"] = topo_specs[c["topo"]] if isinstance(c["topo"], int) else c["topo"]
    return d


# ------------------------------------------------------------------------------------------------ histories
HIST_SELECTIONS = ["n_bonds 2", "n_bonds == 0", "n_bonds 1 and water", "n_bonds >= 2 or name NA", "not (n_bonds 1 to 2)",
                   "name MW O and n_bonds < 2", "n_bonds 1 3", "index 3 to 6", "index 0 2 4", "resid 1", "resi 0 2", "resSeq 2",
                   "residue 1 to 3", "chainid 1", "chainid 0", "segment_id A", "segname SEG1 B", "water", "is_water", "protein",
                   "backbone", "sidechain", "rescode A G", "code S", "mass < 2", "mass 12 to 16.5", "element H", "type C N",
                   "symbol VS", "name CA", "name MW H1", "resname HOH SOL", "resn TIP2 ALA", "all", "not water and n_bonds 0"]


TWIN_EXTRA = ["name CA", "chainid 0", "water", "index 0 to 3", "resname HOH SOL", "n_bonds 1", "protein and not backbone"]


def gen_twin_history(rng):
    """two Topology objects that compare == (same chains, atom names, elements, residue names, bonds) and differ in what
    Topology.__eq__ / __hash__ ignore: residue numbering, segment ids, chain ids.  The same strings are asked of the
    first, of the twin, of the first again; then the twin (and later the first) is edited in place and asked again."""
    names = ["GLY", "ALA", "HOH", "SOL", "NA", "SER", "LIG"]
    chains, seq = [], 1
    for _ in range(rng.randint(1, 2)):
        ch = []
        for _ in range(rng.randint(2, 3)):
            ch.append((rng.choice(names), seq, rng.choice(SEGS)))
            seq += rng.choice([1, 1, 2])
        chains.append(ch)
    spec = topo_spec(chains)
    seqs = [r[1] for ch in chains for r in ch]
    segs = sorted({r[2] for ch in chains for r in ch if r[2]}) or ["A"]
    shift = rng.choice([100, 10, 1, -1])
    segmap = dict(zip(SEGS, SEGS[1:] + SEGS[:1])) if rng.random() < 0.7 else {}
    a, b = sorted(rng.sample(seqs, 2))
    lit = lambda g: g if g else "SEG1"                                               # noqa: E731
    focus = ["resSeq %d to %d" % (a, b), "residue %d %d" % (rng.choice(seqs), rng.choice(seqs) + shift),
             "resSeq < %d" % (max(seqs) + min(0, shift) + 1), "resSeq %d" % (rng.choice(seqs) + shift),
             "segname %s" % lit(rng.choice(segs)), "segment_id %s %s" % (lit(segmap.get(segs[0], segs[0])), lit(rng.choice(SEGS))),
             "water and resSeq <= %d" % b, "segment_id %s or resSeq %d" % (lit(rng.choice(SEGS)), rng.choice(seqs) + shift),
             rng.choice(TWIN_EXTRA), gen_simple(rng)]
    steps = []

    def ask(obj):
        for s_ in focus:
            steps.append({"op": "sel", "s": s_, "obj": obj})

    ask(0)
    steps.append({"op": "twin", "from": 0, "how": rng.choice(["copy", "rebuild"]), "shift": shift, "segmap": segmap,
                  "chain_ids": [rng.choice(["A", "B", "X"]) for _ in chains]})
    ask(1)
    ask(0)
    nres = len(seqs)
    for obj in (1, 0):
        k = rng.choice(["renumber", "resegment", "resSeq", "segid", "rename_atom"])
        if k == "renumber":
            steps.append({"op": "renumber", "shift": -shift if obj == 1 else shift, "obj": obj})
        elif k == "resegment":
            steps.append({"op": "resegment", "map": dict(zip(SEGS, SEGS[2:] + SEGS[:2])), "obj": obj})
        elif k == "resSeq":
            steps.append({"op": "resSeq", "res": rng.randrange(nres), "value": rng.choice(seqs), "obj": obj})
        elif k == "segid":
            steps.append({"op": "segid", "res": rng.randrange(nres), "value": rng.choice(SEGS), "obj": obj})
        else:
            steps.append({"op": "rename_atom", "index": 0, "name": "CA", "obj": obj})
        ask(obj)
        ask(1 - obj)
    return {"spec": spec, "steps": steps}


def gen_history(rng, n_edits, patched=False):
    """a small topology, then selections interleaved with in-place edits.  Sizes are mirrored here only to keep the
    edit arguments in range.  patched: the first edit adds an atom to an earlier residue (Topology.add_atom), after
    which the order of topology.atoms is no longer the index order."""
    names = ["GLY", "ALA", "HOH", "HOH", "SOL", "NA", "SER", "LIG"]
    chains = []
    for _ in range(rng.randint(1, 2)):
        chains.append([(rng.choice(names), rng.choice([1, 2, 2, 3, 10]), rng.choice(SEGS)) for _ in range(rng.randint(2, 3))])
    spec = topo_spec(chains)
    sizes = [len(r["atoms"]) for c in spec["chains"] for r in c["residues"]]
    nch = len(spec["chains"])
    steps = []

    # the SAME strings are asked again after every edit (an answer remembered per string must not survive the edit),
    # next to fresh ones
    focus = rng.sample(HIST_SELECTIONS, 3) + [rng.choice(HIST_SELECTIONS[:7]), gen_simple(rng)]

    def sels(k):
        for s_ in focus + rng.sample(HIST_SELECTIONS, max(1, k - 4)):
            steps.append({"op": "sel", "s": s_})
        if rng.random() < 0.5:
            steps.append({"op": "sel", "s": gen_simple(rng)})

    sels(5)
    for ei in range(n_edits):
        nat = sum(sizes)
        kinds = ["insert", "insert", "insert", "bond", "rename_atom", "rename_res", "element", "resSeq", "segid", "chain_id",
                 "renumber", "resegment"]
        if nat > 3:
            kinds += ["delete", "delete"]
        if len(sizes) > 1:
            kinds += ["add_late"]
        k = rng.choice(kinds)
        if patched and ei == 0 and len(sizes) > 1:
            k = "add_late"
        if k == "add_late":
            ri = rng.randrange(len(sizes) - 1)
            steps.append({"op": "add_late", "res": ri, "name": rng.choice(["OXT", "H3", "MW", "O"]),
                          "element": rng.choice([None, "H", "O"])})
            sizes[ri] += 1
        elif k == "renumber":
            steps.append({"op": "renumber", "shift": rng.choice([1, -1, 2, 100])})
        elif k == "resegment":
            steps.append({"op": "resegment", "map": dict(zip(SEGS, rng.sample(SEGS, len(SEGS))))})
        elif k == "insert":
            ri = rng.randrange(len(sizes))
            where = rng.choice(["front", "middle", "end", "append"])
            if where == "append":
                ri = len(sizes) - 1
            pos = 0 if where == "front" else sizes[ri] if where in ("end", "append") else rng.randint(0, sizes[ri])
            steps.append({"op": "insert", "res": ri, "pos": pos, "append": where == "append",
                          "name": rng.choice(["MW", "H3", "CB", "O", "X1"]), "element": rng.choice([None, "H", "C", "O", "N"])})
            sizes[ri] += 1
        elif k == "delete":
            idx = rng.randrange(nat)
            steps.append({"op": "delete", "index": idx})
            acc = 0
            for ri, sz in enumerate(sizes):
                if idx < acc + sz:
                    sizes[ri] -= 1
                    break
                acc += sz
        elif k == "bond":
            if nat >= 2:
                i, j = rng.sample(range(nat), 2)
                steps.append({"op": "bond", "i": i, "j": j})
        elif k == "rename_atom" and nat:
            steps.append({"op": "rename_atom", "index": rng.randrange(nat), "name": rng.choice(["CA", "N", "O", "H1", "MW", "HA", "NA"])})
        elif k == "element" and nat:
            steps.append({"op": "element", "index": rng.randrange(nat), "element": rng.choice(["H", "C", "N", "O", "Na", "Cl"])})
        elif k == "rename_res":
            steps.append({"op": "rename_res", "res": rng.randrange(len(sizes)),
                          "name": rng.choice(["ALA", "GLY", "HOH", "TIP2", "WAT", "LIG", "ACE", "SOL", "NA"])})
        elif k == "resSeq":
            steps.append({"op": "resSeq", "res": rng.randrange(len(sizes)), "value": rng.choice([0, 1, 2, 3, 7])})
        elif k == "segid":
            steps.append({"op": "segid", "res": rng.randrange(len(sizes)), "value": rng.choice(SEGS)})
        elif k == "chain_id":
            steps.append({"op": "chain_id", "chain": rng.randrange(nch), "value": rng.choice(["A", "B", "Z"])})
        sels(4)
    return {"spec": spec, "steps": steps}


def run_histories(ctx, histories):
    """selections interleaved with in-place edits on ONE topology object per history; the model is evaluated on the
    topology as it is after each edit (read independently of the attributes a cache could get wrong)"""
    out = ctx.run_impl("select_impl.py", {"mode": "history", "histories": histories}, timeout=3000)
    versions, results = out["atoms"], out["results"]
    # which history / step prefix produced each result (for the replay)
    cases, kept = [], []
    it = iter(results)
    for h in histories:
        for si, st in enumerate(h["steps"]):
            if st["op"] != "sel":
                continue
            r = next(it, None)
            if r is None or "edit_error" in r:
                if r is not None:
                    ctx.break_("correspondence:history-edit", "an in-place edit raised: %s at %s" % (r["edit_error"], r["step"]))
                break
            cases.append({"topo": r["version"], "s": st["s"], "stream": "history", "malformed": None,
                          "history": {"spec": h["spec"], "steps": h["steps"][:si + 1]}})
            kept.append(r)
        else:
            continue
        break
    # the attributes the objects report must describe the topology as it is
    for vi, atoms in enumerate(versions):
        for a in atoms:
            for attr, ind in (("attr_index", "index"), ("attr_n_bonds", "n_bonds"), ("attr_resindex", "resindex"),
                              ("attr_chainindex", "chainindex")):
                if a[attr] != a[ind]:
                    w = next((c for c in cases if c["topo"] == vi), None)
                    if w is not None:
                        ctx.fail("after in-place edits the attribute %s of an atom no longer describes the topology" % attr[5:], w, observed={attr[5:]: a[attr], "atom": a["name"], "position": a["index"]},
                                 expected={ind: a[ind]}, tags={"kind": "stale_attribute", "attr": attr[5:]})
                    break
    ctx.notes.setdefault("coverage_extra", {})["histories"] = {"histories": len(histories), "topology_versions": len(versions),
                                                               "selections": len(cases)}
    run_cases(ctx, None, cases, pre=(versions, kept))


def build_cases(ctx):
    rng = ctx.rng
    quick = ctx.tier == "quick"
    specs = fixed_topologies() + [random_topology(rng) for _ in range(3 if quick else 8)]
    n_general = len(specs)
    specs += residue_topologies(rng, quick)
    cases = []

    def add(s, stream, topo=None, malformed=None):
        cases.append({"topo": rng.randrange(n_general) if topo is None else topo, "s": s, "stream": stream,
                      "malformed": malformed})

    # historical witnesses first
    for ti in (0, 1):
        for s in ["protein and name =~ 'C.*'", "mass lt 5 and mass gt 0.5", "name O && mass > 2", "name O and mass > 2",
                  "water or name =~ 'C.*'", "1", "0", "1.0", "2", "CA", "protein and (name =~ 'C.*')",
                  "(mass lt 5) and (mass gt 0.5)", "not protein and water", "resname ALA GLY and not name CA CB"]:
            add(s, "witness", ti)
    # every keyword alias and operator spelling at least once
    t = getattr(ctx, "tables", None)
    kws = list(t["selkw"]) if t else BOOL_KW + STR_KW + NUM_KW
    ops2 = [o for l in t["levels"] if l["arity"] == 2 for o in l["ops"]] if t else AND_SP + OR_SP + CMP_SP + ["=~"]
    for k in kws:
        add(k, "alias", 0)
        add("%s %s" % (k, gen_lit(rng)), "alias", 0)
        add("%s %s %s" % (k, rng.choice(CMP_SP), gen_lit(rng)), "alias", 0)
    for o in ops2:
        for _ in range(3):
            a, b = toks(gen_atomic(rng), "conv", rng), toks(gen_atomic(rng), "conv", rng)
            add(join(["("] + a + [")", o, "("] + b + [")"], rng, 0.3), "spelling")
            add(join(a + [o] + b, rng, 0.0), "spelling")
    # pyparsing needs up to seconds for parentheses nested 5-6 deep (19 levels per parenthesis): the deep cases are
    # mostly generated without parentheses or with the conventional ones, and are few
    n = 600 if quick else 4000
    for i in range(n):
        depth = rng.choice([0, 1, 1, 2, 2, 3, 4] if quick else [0, 1, 1, 2, 2, 2, 3, 3, 4])
        tree = gen_tree(rng, depth)
        style = rng.choice(["conv", "conv", "full", "none", "rand"])
        add(join(toks(tree, style, rng), rng, rng.choice([0.0, 0.0, 0.5, 1.0])), "random/" + style)
    for i in range(20 if quick else 200):
        tree = gen_tree(rng, rng.choice([5, 6]))
        style = rng.choice(["none", "none", "none", "conv"]) if i % 10 else "full"
        add(join(toks(tree, style, rng), rng, rng.choice([0.0, 0.5])), "random-deep/" + style)
    for kind in MALFORMED_KINDS:
        for _ in range(12 if quick else 150):
            add(gen_malformed(rng, kind), "malformed", malformed=kind)
    for s_, klass in lexical_cases(rng, quick):
        add(s_, "lexical", topo=rng.choice([0, 4]), malformed=klass)
    for w in NAMESPACE_WORDS:
        for c in (NAMESPACE_CONTEXTS if (not quick or w in ("atom", "re")) else rng.sample(NAMESPACE_CONTEXTS, 4)):
            for form in ((w, "'%s'" % w, '"%s"' % w) if (not quick or w in ("atom", "re")) else (w, rng.choice(["'%s'", '"%s"']) % w)):
                add(c.format(w=form), "namespace", topo=rng.choice([5, 5, 0]))
    # residue-name tables: every documented water name and (rotating) reference protein residue names
    for ti in range(n_general, len(specs)):
        names = [r["name"] for ch in specs[ti]["chains"] for r in ch["residues"]]
        for s_ in ["water", "waters", "is_water", "protein", "is_protein", "backbone", "sidechain", "not water", "not protein",
                   "rescode A G C X", "code None", "resname %s" % " ".join(rng.sample(names, min(3, len(names)))),
                   "water and name O", "protein and name CA"]:
            add(s_, "residue_tables", topo=ti)
    # parenthesis nesting at every depth up to the recorded recursion boundary and one beyond
    for d, ss in NESTING.items():
        for s_ in ss:
            add(s_, "nesting/%d" % d, topo=rng.choice([0, 1, 3]))
    for s_ in chain_cases(rng, 60 if quick else 1200):
        add(s_, "chains")
    for s_ in QUOTED:
        add(s_, "quoted", topo=rng.choice([0, 5]))
    for s_ in ESCAPES:
        add(s_, "escapes", topo=6)
    for s_ in TO_WORDS:
        add(s_, "to_words", topo=7)
    for s_ in literal_chain_cases(rng, quick):
        add(s_, "malformed", malformed="literal_in_chain")
    for s in IMPL_ONLY:
        add(s, "impl_only", 0)
    if not quick:
        ex = reduced_exhaustive()
        for s in ex:
            add(s, "exhaustive_depth2", 3)
        ctx.notes.setdefault("coverage_extra", {})["exhaustive_depth2"] = {
            "strings": len(ex), "exhaustive": True,
            "vocabulary": "atoms {protein, water, name CA, index 1 to 4, CA} x unary {not, !} x binary {and, &&, or, <, lt, =~, eq}, "
                          "nesting depth <= 2 with one compound operand, written without and with parentheses"}
    return specs, cases


def gen_simple(rng):
    """a parenthesis-free, operator-free condition or a single comparison (clear of every precedence question)"""
    while True:
        t = gen_atomic(rng)
        if t[0] in ("kw", "in", "range"):
            return join(toks(t, "conv", rng), rng, 0.0)
        if t[0] == "cmp" and t[2][0] == "kw" and t[3][0] == "lit":
            return join(toks(t, "conv", rng), rng, 0.0)


def meta_checks(rng, ntopo, n):
    """metamorphic and naive oracles evaluated on the implementation alone (fully parenthesised, depth <= 2)"""
    checks = []
    names = ["CA", "C", "N", "O", "H1", "OW", "NA", "ZZ"]
    for _ in range(n):
        ti = rng.randrange(ntopo)
        x, y, z = gen_simple(rng), gen_simple(rng), gen_simple(rng)
        r = rng.random()
        if r < 0.15:
            o = rng.choice(AND_SP)
            checks.append({"topo": ti, "kind": "and", "lhs": "(%s) %s (%s)" % (x, o, y), "parts": [x, y]})
        elif r < 0.3:
            o = rng.choice(OR_SP)
            checks.append({"topo": ti, "kind": "or", "lhs": "(%s) %s (%s) %s (%s)" % (x, o, y, o, z), "parts": [x, y, z]})
        elif r < 0.4:
            checks.append({"topo": ti, "kind": "not", "lhs": "%s(%s)" % (rng.choice(["not ", "!"]), x), "parts": [x]})
        elif r < 0.5:
            checks.append({"topo": ti, "kind": "same", "lhs": "(%s)" % x, "parts": [x]})
        elif r < 0.6:
            k = rng.choice(["index", "resid", "resSeq", "chainid", "n_bonds"])
            a, b = sorted([rng.randint(0, 12), rng.randint(0, 12)])
            checks.append({"topo": ti, "kind": "same", "lhs": "%s %d to %d" % (k, a, b),
                           "parts": ["(%s >= %d) and (%s <= %d)" % (k, a, k, b)]})
        elif r < 0.7:
            k = rng.choice(["name", "resname", "symbol"])
            vs = rng.sample(names, 3)
            checks.append({"topo": ti, "kind": "or", "lhs": "%s %s" % (k, " ".join(vs)), "parts": ["%s == %s" % (k, v) for v in vs]})
            checks.append({"topo": ti, "kind": "same", "lhs": "%s %s" % (k, vs[0]), "parts": ["%s == '%s'" % (k, vs[0])]})
        elif r < 0.8:
            pairs = [("resname", "resn"), ("resid", "resi"), ("residue", "resSeq"), ("type", "element"), ("element", "symbol"),
                     ("segment_id", "segname"), ("code", "rescode"), ("code", "resc")]
            a, b = rng.choice(pairs)
            lit = gen_lit(rng)
            checks.append({"topo": ti, "kind": "same", "lhs": "%s %s" % (a, lit), "parts": ["%s %s" % (b, lit)]})
            a, b = rng.choice([("protein", "is_protein"), ("water", "waters"), ("water", "is_water"), ("backbone", "is_backbone"),
                               ("sidechain", "is_sidechain"), ("all", "everything"), ("none", "nothing")])
            checks.append({"topo": ti, "kind": "same", "lhs": a, "parts": [b]})
            a, b = rng.choice([("<", "lt"), ("<=", "le"), ("==", "eq"), ("!=", "ne"), (">=", "ge"), (">", "gt")])
            v = rng.randint(0, 12)
            checks.append({"topo": ti, "kind": "same", "lhs": "index %s %d" % (a, v), "parts": ["index %s %d" % (b, v)]})
        else:
            q = rng.random()
            if q < 0.25:
                k, v = rng.choice(["name", "resname", "symbol", "segment_id"]), rng.choice(names + ["ALA", "HOH", "A", "B"])
                checks.append({"topo": ti, "kind": "naive", "lhs": "%s %s" % (k, v), "attr": k, "op": "==", "value": v})
                checks.append({"topo": ti, "kind": "naive", "lhs": "%s != '%s'" % (k, v), "attr": k, "op": "!=", "value": v})
            elif q < 0.5:
                k, v = rng.choice(["index", "resid", "resSeq", "chainid"]), rng.randint(0, 10)
                o = rng.choice(["==", "!=", "<", "<=", ">", ">="])
                checks.append({"topo": ti, "kind": "naive", "lhs": "%s %s %d" % (k, o, v), "attr": k, "op": o, "value": v})
                checks.append({"topo": ti, "kind": "naive", "lhs": "%s %d %d" % (k, v, v + 2), "attr": k, "op": "in", "value": [v, v + 2]})
                checks.append({"topo": ti, "kind": "naive", "lhs": "%s %d to %d" % (k, v, v + 3), "attr": k, "op": "range",
                               "value": [v, v + 3]})
            elif q < 0.7:
                v = rng.choice([0.5, 1.5, 5, 12.5, 13, 15, 20])
                o = rng.choice(["<", "<=", ">", ">="])
                checks.append({"topo": ti, "kind": "naive", "lhs": "mass %s %s" % (o, v), "attr": "mass", "op": o, "value": v})
            else:
                checks.append({"topo": ti, "kind": "naive", "lhs": "water", "attr": "water", "op": "truth", "value": None})
    return checks


def run_meta(ctx, specs, n):
    """standard-residue oracles use topologies built from standard residues only"""
    checks = meta_checks(ctx.rng, len(specs), n)
    checks += signed_checks(ctx.rng, min(len(specs), 5), ctx.tier == "quick")
    std = topo_spec([[("ALA", 1, "A"), ("GLY", 2, "A"), ("SER", 3, "A")], [("HOH", 1, ""), ("SOL", 2, ""), ("NA", 3, "")]])
    specs = list(specs) + [std]
    for attr, lhs in (("protein_std", "protein"), ("backbone_std", "backbone"), ("water", "water")):
        checks.append({"topo": len(specs) - 1, "kind": "naive", "lhs": lhs, "attr": attr, "op": "truth", "value": None})
    # implicit lists whose members start with keyword / operator spellings (model-free: direct attribute comparison)
    specs.append(fixed_topologies()[7])
    for attr, ws in PREFIX_WORDS.items():
        for kw in {"resname": ["resname", "resn"], "segment_id": ["segment_id", "segname"], "name": ["name"]}[attr]:
            pairs = [(a, b) for a in ws for b in ws if a != b]
            if ctx.tier == "quick":
                pairs = [(a, b) for a, b in pairs if b.startswith("to")] + ctx.rng.sample(pairs, min(12, len(pairs)))
            for a, b in pairs:
                checks.append({"topo": len(specs) - 1, "kind": "naive", "lhs": "%s %s %s" % (kw, a, b), "attr": attr, "op": "in",
                               "value": [a, b]})
            for _ in range(4 if ctx.tier == "quick" else 30):
                vs = ctx.rng.sample(ws, 3)
                checks.append({"topo": len(specs) - 1, "kind": "naive", "lhs": "%s %s" % (kw, " ".join(vs)), "attr": attr, "op": "in",
                               "value": vs})
    out = ctx.run_impl("select_impl.py", {"mode": "meta", "topologies": specs, "checks": checks})
    for b in out["bad"][:25]:
        ctx.fail("Topology.select violates %s" % {"and": "and = intersection", "or": "or = union", "not": "not = complement",
                                                   "same": "an equivalence of two spellings",
                                                   "naive": "the direct attribute comparison"}[b["kind"]],
                 {"topo_spec": specs[b["topo"]], "s": b["lhs"], "stream": "meta", "meta": b}, observed=b["observed"],
                 expected=b["expected"], tags={"kind": "meta_" + b["kind"]}, stage="search")
    for c in checks:
        ctx.count({"topo": c["topo"], "s": c["lhs"], "meta": c["kind"]}, nontrivial=True,
                  bucket="meta/" + ("signed_number" if c.get("or_reject") else c["kind"]))
    return len(out["bad"])


NESTING = {
    0: ["protein", "not protein and water", "name CA CB or resSeq 1 to 2"],
    1: ["(protein)", "protein and (water or name CA)", "not (water or name CA CB)", "(name CA) or (resSeq 2)"],
    2: ["((protein))", "protein and (water or (name CA))", "((name CA or name CB) and protein) or water",
        "(water and (name O)) or resSeq 3", "((index 1 to 4))", "((name =~ 'C.*'))", "(protein and (mass < 13)) or ((water))",
        "name CA or (resname ALA and (index < 5 or index > 7))"],
    3: ["(((protein)))", "protein and (water or (backbone and (all or none)))"],
}
BOUNDARY_EXPRS = ["protein", "(protein)", "((protein))", "(((protein)))", "((((protein))))", "not protein", "not (not (protein))"]


QUOTED = ["name 'CA' \"CB\" C", "resname \"ALA\" 'GLY'", "name == 'C A'", "name 'and'", "name \"or\" 'not' CA", "resname 'to'",
          "name 'protein'", "'CA' == name", "name 'name'", "name '(' ')'", "name 'CA)'", "(name 'CA') or name \"(\"", "name '1'", "resSeq '1'",
          "resSeq == '1'", "name 'CA' to 'CB'", "name 'A' to \"Z\"", "name =~ \"C.*\"", "name =~ 'C A'", "name ' CA'", "name 'CA '", "name ''",
          "name '&&'", "name '<'", "name \"=~\"", "name 'it''s'", "name 'a\"b'", "name \"a'b\"", "segname 'A' \"B\" SEG1", "name 'None'", "name None",
          "code 'None'", "code None", "name 'True'", "name True"]


# quoted literals with the escapes Python's string syntax interprets and with the other kind of quote inside: all inside
# the model (Model.scan_quoted), so they MUST match it; run on the topology whose atom names carry primes, a double
# quote and a backslash (fixed topology 6), where the selections are non-empty
ESCAPES = ["name 'O5\\''", 'name "H5\\\'\\\'"', 'name "O5\'"', "name 'N\"9'", 'name "N\\"9"', "name 'O5\\'' 'C5\\''",
           'name "O5\'" "H5\'\'" CA', "name == 'O5\\''", "'O5\\'' == name", 'name != "H5\'\'"', "name 'C5\\'' to 'P'",
           "name 'C\\\\1'", "name 'C\\\\1' P", "name =~ 'H\\\\d'", "(name =~ 'H\\\\d') and not water", "name =~ 'H\\\\d$' or name 'O5\\''",
           "name =~ 'H\\d'", "not name 'O5\\'' \"H5''\" and resSeq 1", "protein or name 'H5\\''", "name 'H5\\'' \"H5\\'\\'\"",
           "name 'a\\\\\\'b'", 'name "H5\'" and water', "name 'H5\\'' or (water and name H1)"]


def literal_chain_cases(rng, quick):
    """a bare literal used as a truth value at EVERY position of a flat chain of 3-5 terms, for each spelling of and/or
    (infixNotation flattens a chain of one spelling into one operand list); also under not and inside parentheses.
    The model rejects every one of them: the implementation must raise."""
    terms = ["protein", "water", "name CA", "backbone", "index 2", "(resid 0 to 1)", "all", "resname ALA GLY", "(name O)"]
    lits = ["dog", "CA", "1", "0", "'CA'", "2.5", '"x"', "ZZ", "True1"]
    out = []
    for sp in AND_SP + OR_SP:
        for n in (3, 4, 5):
            for pos in range(n):
                for lit in (rng.sample(lits, 2) if quick else lits):
                    ts = [rng.choice(terms) for _ in range(n)]
                    ts[pos] = lit
                    s_ = (" %s " % sp).join(ts)
                    q = rng.random()
                    if q < 0.15:
                        s_ = "not (%s)" % s_
                    elif q < 0.3:
                        s_ = "(%s) %s water" % (s_, rng.choice(AND_SP + OR_SP))
                    out.append(s_)
    return out


def chain_cases(rng, n):
    """operator chains without parentheses: n-ary and/or in mixed spellings, unary chains, comparison chains with the same
    and with different operators, range/list conditions as chain members"""
    out = []
    for _ in range(n):
        r = rng.random()
        if r < 0.35:
            k = rng.randint(3, 6)
            sp = rng.choice([AND_SP, OR_SP, AND_SP + OR_SP])
            ts = toks(gen_atomic(rng), "conv", rng)
            for _ in range(k - 1):
                ts += [rng.choice(sp)] + toks(gen_atomic(rng), "conv", rng)
        elif r < 0.55:
            ts = [rng.choice(NOT_SP) for _ in range(rng.randint(2, 4))] + toks(gen_atomic(rng), "conv", rng)
            if rng.random() < 0.5:
                ts += [rng.choice(AND_SP + OR_SP)] + [rng.choice(NOT_SP) for _ in range(rng.randint(1, 3))] + toks(gen_atomic(rng), "conv", rng)
        elif r < 0.85:
            k = rng.randint(3, 4)
            same = rng.random() < 0.4
            o = rng.choice(CMP_SP)
            ts = [rng.choice(NUM_KW + NUM_LITS[:6])]
            for _ in range(k - 1):
                ts += [o if same else rng.choice(CMP_SP), rng.choice(NUM_KW + NUM_LITS[:8])]
        else:
            ts = toks(gen_atomic(rng), "conv", rng) + [rng.choice(CMP_SP + ["=~"])] + toks(gen_atomic(rng), "conv", rng) + [
                rng.choice(AND_SP + OR_SP + CMP_SP)] + toks(gen_atomic(rng), "conv", rng)
        out.append(join(ts, rng, rng.choice([0.0, 0.5])))
    return out


def recursion_boundary(ctx):
    """the recorded boundary of the recursive-descent parse: frames needed per parenthesis level, measured on the checked
    tree.  As found (19 infixNotation levels): 340 + 310 per level, so two levels fit into the default limit of 1000 and
    three do not.  A grammar under which plain nesting two deep no longer fits is a failure of its own (tags carry the
    as-found estimate, so that the recorded three-deep finding does not cover it)."""
    out = ctx.run_impl("select_impl.py", {"mode": "recursion_boundary", "exprs": BOUNDARY_EXPRS}, timeout=1200)
    need, limit = out["need"], out["default_limit"]
    plain = [need["(" * d + "protein" + ")" * d] for d in range(5)]
    deepest = max([d for d in range(5) if all(n <= limit for n in plain[:d + 1])], default=-1)
    ctx.notes.setdefault("coverage_extra", {})["recursion_boundary"] = {
        "frames_needed": need, "caller_stack_depth": out["stack_depth"], "default_limit": limit,
        "frames_per_parenthesis_level": plain[2] - plain[1], "frames_per_unary_operator": need["not protein"] - need["protein"],
        "deepest_plain_nesting_within_default_limit": deepest, "as_found_reference": {
            "base": REF_BASE, "per_parenthesis": REF_PER_PAREN, "per_unary": REF_PER_UNARY, "deepest_plain_nesting": 2}}
    for d in range(0, 3):
        s_ = "(" * d + "protein" + ")" * d
        ctx.count({"topo": "-", "s": s_, "boundary": True}, nontrivial=d > 0, bucket="recursion_boundary")
        if need[s_] > limit:
            ctx.fail("a well-formed expression that the grammar as found parses within the default recursion limit "
                     "(parentheses nested at most two deep, no unary operator: about 961 of 1000 frames) is refused "
                     "with RecursionError: the grammar got deeper",
                     {"topo_spec": fixed_topologies()[3], "s": s_, "stream": "nesting", "malformed": None},
                     observed={"frames_needed": need[s_], "default_limit": limit}, expected="parses (as found: %d frames)"
                     % (REF_BASE + REF_PER_PAREN * d),
                     tags={"kind": "recursion_error", "paren_depth": d, "unary_operators": 0,
                           "frames_estimate_as_found": frames_estimate_as_found(s_)})
            break


def correspond(ctx):
    specs, cases = build_cases(ctx)
    ctx.log("cases:", len(cases))
    run_cases(ctx, specs, cases)
    # history axis: selections interleaved with in-place edits on one Topology object
    quick = ctx.tier == "quick"
    hs = [gen_history(ctx.rng, ctx.rng.randint(3, 7)) for _ in range(8 if quick else 120)]
    hs += [gen_history(ctx.rng, ctx.rng.randint(2, 4), patched=True) for _ in range(2 if quick else 30)]
    hs += [gen_twin_history(ctx.rng) for _ in range(4 if quick else 60)]
    run_histories(ctx, hs)
    recursion_boundary(ctx)
    # sentinel: the model-free oracles on a small budget
    small_specs = [sp for sp in specs if sum(len(r["atoms"]) for c in sp["chains"] for r in c["residues"]) <= 60]
    run_meta(ctx, small_specs, 80 if ctx.tier == "quick" else 1500)


def search(ctx, broken):
    """a proof or the tie broke and the comparison found no failing input: run the model-free oracles (set algebra of
    sub-selections, range/list expansions, alias equivalences, direct attribute comparison) on a larger stream"""
    specs = fixed_topologies() + [random_topology(ctx.rng) for _ in range(6)]
    n = run_meta(ctx, specs, 1500 if ctx.tier == "quick" else 8000)
    ctx.log("search: %d oracle failures" % n)


def replay(ctx, rec):
    c = dict(rec["case"])
    if c.get("stream") == "meta":
        b = dict(c["meta"])
        b["topo"] = 0
        for k in ("observed", "expected"):
            b.pop(k, None)
        out = ctx.run_impl("select_impl.py", {"mode": "meta", "topologies": [c["topo_spec"]], "checks": [b]})
        for x in out["bad"]:
            ctx.fail(rec["desc"], rec["case"], observed=x["observed"], expected=x["expected"], tags=rec.get("tags"),
                     stage="search")
        return
    if c.get("history"):
        run_histories(ctx, [c["history"]])
        return
    spec = c.pop("topo_spec")
    c["topo"] = 0
    c.setdefault("stream", "replay")
    c.setdefault("malformed", None)
    run_cases(ctx, [spec], [c])
