"""C08 helper: per-frame loops of mdtraj's Cython sources (.pyx) as terms of MD.Sched.FrameLoop, and the OpenMP clauses
of the C++ that Cython generated from them (the file that is actually compiled).

Cython is not installed here, so a .pyx cannot be rebuilt - but it can be READ.  For every per-frame loop

    for i in prange(n_frames, nogil=True): ...        (parallel: cython makes every scalar assigned in the body
    for i in range(n_frames): ...                      lastprivate, an in-place operator on a scalar a REDUCTION)

scan_pyx_loop() returns one Term per control-flow PATH through the body (every `if` splits the paths: a variable written
on one branch only is, on the other path, a read of whatever the previous iteration left).  Term grammar as in C08_scan:

    x = e                  FSet cell(x) (reads of e)             x assigned somewhere in the loop: a private cell
    x += e                 FSet cell(x) (FAdd (FCell x) e)       -> a carried accumulator / cython reduction: undisciplined
    a[.. i ..] = e         FOutIdx e                             a's slot of this iteration
    a[.. i ..] += e        FOutIdx (FAdd (FIdx a) e)
    a[k] = e  (no i)       FSet cell(a) (FAdd (FCell a) e)       a shared slot written by every iteration: undisciplined
    f(.., &a[.. i ..], ..) FIdx a (read) / FOutIdx (written, per PYX_CALLEE_EFFECTS)
    L.append(e)            FOutIdx e                             L created before the loop; one append per iteration
    anything read that the loop never assigns                    FGlob

pragma_clauses() lists, for a generated .cpp, every `#pragma omp parallel` / `#pragma omp for` with its private /
firstprivate / lastprivate / reduction / schedule clauses, in textual order (cython emits functions in source order, so
the k-th `omp for` belongs to the k-th prange of the .pyx).

Anything outside the small accepted grammar raises ScanError (fail closed)."""
import re

from props.C08_scan import ScanError, Term, match_close, split_top

PY_KEYWORDS = {"for", "in", "if", "elif", "else", "and", "or", "not", "is", "None", "True", "False", "NULL", "int", "float",
               "double", "bool", "range", "prange", "nogil", "np", "copy", "dtype", "len", "lambda", "return", "pass",
               "cdef", "def", "long", "size_t", "Py_ssize_t", "int32_t"}

# callee -> {argument position: "W" | "RW"}: what the callee does to the memory behind a pointer argument
PYX_CALLEE_EFFECTS = {
    "msd_atom_major": {7: "W"},            # rot[9] is stored when computeRot != 0 (theobald_rmsd.cpp); everything else is read
    "msd_axis_major": {},
    "rot_msd_atom_major": {},
    "rot_atom_major": {1: "RW"},           # rotates the conformation in place
    "drid_moments": {4: "W"},              # moments[0..2] are stored, never read (dridkernels.cpp, scanned separately)
    "_compute_neighbors": {},
    "inplace_center_and_trace_atom_major": {0: "RW", 1: "W"},
}
PYX_PURE = {"sqrtf", "sqrt", "len", "np.array", "np.empty", "np.asarray", "np.zeros", "int", "float", "abs", "min", "max"}


def strip_py_comments(src):
    out = []
    for line in src.splitlines():
        # no '#' inside string literals in the loop bodies we scan; docstrings are outside loops
        m = re.match(r"^((?:[^#'\"]|'[^']*'|\"[^\"]*\")*)#.*$", line)
        out.append(m.group(1).rstrip() if m else line.rstrip())
    return "\n".join(out)


def logical_lines(block):
    """[(indent, text)] with bracket continuations joined."""
    res, cur, depth, ind = [], "", 0, 0
    for line in block.splitlines():
        if not line.strip() and depth == 0:
            continue
        if depth == 0:
            ind = len(line) - len(line.lstrip(" "))
            cur = line.strip()
        else:
            cur += " " + line.strip()
        depth = 0
        for ch in re.sub(r"'[^']*'|\"[^\"]*\"", "", cur):
            depth += ch in "([{"
            depth -= ch in ")]}"
        if depth < 0:
            raise ScanError("unbalanced brackets in %r" % cur)
        if depth == 0:
            res.append((ind, " ".join(cur.split())))
            cur = ""
    if cur:
        raise ScanError("unterminated statement %r" % cur)
    return res


def function_block(src, function):
    """Source text of `def/cdef/cpdef function(...)` (its header and body)."""
    lines = src.splitlines()
    for k, line in enumerate(lines):
        if re.match(r"^(?:def|cdef|cpdef)\s+(?:[\w\[\]:, ]+\s+)?%s\s*\(" % re.escape(function), line):
            j = k + 1
            # the header may span lines
            while j < len(lines) and (not lines[j].strip() or lines[j].startswith((" ", "\t", ")"))):
                j += 1
            return "\n".join(lines[k:j])
    raise ScanError("function %s not found" % function)


FOR_RE = re.compile(r"^for\s+([A-Za-z_]\w*)\s+in\s+(prange|range)\s*\((.*)\)\s*:$")


def parse_tree(llines, start, indent):
    """Nested statement tree of the block starting at llines[start] whose statements have indentation `indent`:
    returns (list of nodes, next index).  node = ("stmt", text) | ("for", var, kind, args, body) | ("if", [(cond, body)...], else_body)"""
    nodes = []
    k = start
    while k < len(llines):
        ind, t = llines[k]
        if ind < indent:
            break
        if ind > indent:
            raise ScanError("unexpected indentation at %r" % t)
        m = FOR_RE.match(t)
        if m:
            if k + 1 >= len(llines) or llines[k + 1][0] <= indent:
                raise ScanError("empty for body at %r" % t)
            body, k2 = parse_tree(llines, k + 1, llines[k + 1][0])
            nodes.append(("for", m.group(1), m.group(2), m.group(3), body))
            k = k2
            continue
        m = re.match(r"^if\s+(.*):$", t)
        if m:
            arms, else_body = [], None
            cond = m.group(1)
            while True:
                if k + 1 >= len(llines) or llines[k + 1][0] <= indent:
                    raise ScanError("empty if body at %r" % t)
                body, k = parse_tree(llines, k + 1, llines[k + 1][0])
                arms.append((cond, body))
                if k < len(llines) and llines[k][0] == indent:
                    m2 = re.match(r"^elif\s+(.*):$", llines[k][1])
                    if m2:
                        cond = m2.group(1)
                        continue
                    if llines[k][1] == "else:":
                        else_body, k = parse_tree(llines, k + 1, llines[k + 1][0])
                break
            nodes.append(("if", arms, else_body))
            continue
        if re.match(r"^(while|with|try|except|finally|def|class|return|yield|raise|del|global|import|from)\b", t):
            raise ScanError("statement outside the grammar: %r" % t)
        nodes.append(("stmt", t))
        k += 1
    return nodes, k


def find_loops(tree, var_bound):
    """All ("for", ...) nodes (depth first, textual order) whose range argument starts with one of var_bound."""
    found = []
    for n in tree:
        if n[0] == "for":
            first = split_top(n[3])[0] if n[3].strip() else ""
            if first in var_bound:
                found.append(n)
            else:
                found += find_loops(n[4], var_bound)
        elif n[0] == "if":
            for _c, b in n[1]:
                found += find_loops(b, var_bound)
            if n[2]:
                found += find_loops(n[2], var_bound)
    return found


def paths(body):
    """Every control-flow path through `body` as a flat list of ("stmt"|"cond"|"for", ...) items."""
    res = [[]]
    for n in body:
        if n[0] == "stmt":
            res = [p + [n] for p in res]
        elif n[0] == "for":
            head = ("forhead", n[1], n[2], n[3])
            inner = paths(n[4])
            res = [p + [head] + q for p in res for q in inner]
        else:
            arms, else_body = n[1], n[2]
            alts = []
            conds = []
            for cond, b in arms:
                for q in paths(b):
                    alts.append([("cond", c, False) for c in conds] + [("cond", cond, True)] + q)
                conds.append(cond)
            for q in (paths(else_body) if else_body else [[]]):
                alts.append([("cond", c, False) for c in conds] + q)
            res = [p + a for p in res for a in alts]
        if len(res) > 64:
            raise ScanError("more than 64 paths through one loop body")
    return res


def py_idents(text):
    text = re.sub(r"'[^']*'|\"[^\"]*\"", " ", text)
    text = re.sub(r"<[^<>]*>", " ", text)                                   # cython casts <int*>, <int[:n]>
    text = re.sub(r"(?<![\w.])\d+\.?\d*(?:[eE][-+]?\d+)?", " ", text)
    text = re.sub(r"\b([A-Za-z_]\w*)\s*=(?!=)", " ", text) if False else text
    names = []
    for m in re.finditer(r"(?<![\w.])([A-Za-z_]\w*)((?:\.[A-Za-z_]\w*)*)", text):
        if m.group(1) in PY_KEYWORDS:
            continue
        # keyword arguments  name=value  inside calls are not reads
        after = text[m.end():].lstrip()
        before = text[:m.start()].rstrip()
        if after.startswith("(") and not m.group(2):
            continue                      # the name of a called function is not data
        if after.startswith("=") and not after.startswith("==") and before.endswith(("(", ",")):
            continue
        names.append(m.group(1))
    return names


def subscripts(text, name):
    """Index texts of every `name[...]` in text."""
    out = []
    for m in re.finditer(r"(?<![\w.])%s\s*\[" % re.escape(name), text):
        j = match_close(text, m.end() - 1, "[", "]")
        out.append(text[m.end():j])
    return out


def py_calls(text):
    calls = []
    for m in re.finditer(r"(?<![\w.])((?:[A-Za-z_]\w*\.)*[A-Za-z_]\w*)\s*\(", text):
        name = m.group(1)
        if name in ("range", "prange") or name in PY_KEYWORDS and name not in ("len", "int", "float"):
            continue
        p0 = m.end() - 1
        p1 = match_close(text, p0, "(", ")")
        calls.append((name, split_top(text[p0 + 1:p1])))
    return calls


AUG_RE = re.compile(r"^(.+?)\s*(\+=|-=|\*=|/=|//=|%=|\|=|&=|\^=|<<=|>>=|\*\*=)\s*(.+)$")
PY_ASSIGN_RE = re.compile(r"(?<![=!<>+\-*/%&|^])=(?!=)")


def top_level_assign(t):
    """(lhs, rhs) if t is `lhs = rhs` with the `=` outside brackets, else None."""
    depth = 0
    for k, ch in enumerate(t):
        if ch in "([{":
            depth += 1
        elif ch in ")]}":
            depth -= 1
        elif ch == "=" and depth == 0:
            if t[k:k + 2] == "==" or (k > 0 and t[k - 1] in "=!<>+-*/%&|^"):
                continue
            return t[:k].strip(), t[k + 1:].strip()
    return None


def path_assigned(items):
    """Scalars / whole objects assigned on a path (inner loop variables included)."""
    assigned = set()
    for it in items:
        if it[0] == "forhead":
            assigned.add(it[1])
        elif it[0] == "stmt":
            m = AUG_RE.match(it[1])
            a = top_level_assign(it[1]) if not m else None
            if m and re.match(r"^[A-Za-z_]\w*$", m.group(1).strip()):
                assigned.add(m.group(1).strip())
            elif a and re.match(r"^[A-Za-z_]\w*$", a[0]):
                assigned.add(a[0])
    return assigned


def scan_path(items, loopvar, carried=()):
    """One control-flow path of a loop body -> Term.  `carried`: names that OTHER paths of the same loop (reachable in
    the same call) assign: on this path they hold whatever an earlier iteration left."""
    T = Term()
    T.num(T.cells, "<control>")
    own = path_assigned(items)
    assigned = own | set(carried)
    shared_written = set()         # arrays written at an index that does not contain the loop variable

    def has_lv(idx):
        return bool(re.search(r"\b%s\b" % re.escape(loopvar), idx))

    def atom(name, text):
        if name == loopvar:
            return None
        subs = subscripts(text, name)
        if subs and all(has_lv(s) for s in subs):
            return "FIdx %d" % T.num(T.arrs, name)
        if name in assigned or name in shared_written or name in T.cells:
            return "FCell %d" % T.num(T.cells, name)
        return "FGlob %d" % T.num(T.globs, name)

    def expr(text, extra=()):
        ats = []
        for nme in py_idents(text):
            a = atom(nme, text)
            if a and a not in ats:
                ats.append(a)
        for a in extra:
            if a not in ats:
                ats.append(a)
        if not ats:
            return "FConst 0"
        e = ats[0]
        for a in ats[1:]:
            e = "FAdd (%s) (%s)" % (e, a)
        return e

    def call_effects(text):
        """[(kind, array name, index text)] for pointer arguments that a callee writes; raises on an unknown callee that
        receives an address."""
        eff = []
        for callee, args in py_calls(text):
            base = callee.split(".")[-1]
            if callee in PYX_CALLEE_EFFECTS:
                table = PYX_CALLEE_EFFECTS[callee]
            elif callee in PYX_PURE or base in ("append", "size", "copy", "reshape", "astype"):
                table = {}
            else:
                if any(a.strip().startswith("&") for a in args):
                    raise ScanError("unknown callee %s receives an address in %r" % (callee, text))
                table = {}
            for k, a in enumerate(args):
                e = table.get(k)
                if e in ("W", "RW"):
                    if a.strip() == "NULL":
                        continue
                    m = re.match(r"^&\s*([A-Za-z_]\w*)\s*\[(.*)\]$", a.strip())
                    if not m:
                        m2 = re.match(r"^&\s*([A-Za-z_]\w*)$", a.strip())
                        if not m2:
                            raise ScanError("written argument %r of %s" % (a, callee))
                        eff.append((e, m2.group(1), None))
                    else:
                        eff.append((e, m.group(1), m.group(2)))
        return eff

    n_append = {}
    for it in items:
        if it[0] == "cond":
            T.ops.append("FSet 0 (%s)" % expr(it[1]))
            T.trace.append(("if " + it[1], [], py_idents(it[1])))
            continue
        if it[0] == "forhead":
            T.ops.append("FSet %d (%s)" % (T.num(T.cells, it[1]), expr(it[3])))
            T.trace.append(("for %s in %s(%s)" % (it[1], it[2], it[3]), [it[1]], py_idents(it[3])))
            continue
        t = it[1]
        emitted = False
        m = AUG_RE.match(t)
        a = top_level_assign(t) if not m else None
        eff = call_effects(t)
        written_arrays = {name for _e, name, _i in eff}
        # reads of a statement: every identifier except arrays that a callee only overwrites
        def reads_text():
            return t
        if m:
            lhs, rhs = m.group(1).strip(), m.group(3)
            sm = re.match(r"^([A-Za-z_]\w*)\s*\[(.*)\]$", lhs)
            if sm and has_lv(sm.group(2)):
                T.ops.append("FOutIdx (%s)" % expr(rhs + " " + sm.group(2), extra=["FIdx %d" % T.num(T.arrs, sm.group(1))]))
            elif sm:
                shared_written.add(sm.group(1))
                c = T.num(T.cells, sm.group(1))
                T.ops.append("FSet %d (FAdd (FCell %d) (%s))" % (c, c, expr(rhs + " " + sm.group(2))))
            elif re.match(r"^[A-Za-z_]\w*$", lhs):
                c = T.num(T.cells, lhs)
                T.ops.append("FSet %d (FAdd (FCell %d) (%s))" % (c, c, expr(rhs)))
            else:
                raise ScanError("augmented assignment target %r" % lhs)
            emitted = True
        elif a:
            lhs, rhs = a
            E = expr(rhs)
            sm = re.match(r"^([A-Za-z_]\w*)\s*\[(.*)\]$", lhs)
            if re.match(r"^[A-Za-z_]\w*$", lhs):
                T.ops.append("FSet %d (%s)" % (T.num(T.cells, lhs), E))
            elif sm and has_lv(sm.group(2)):
                T.ops.append("FOutIdx (%s)" % expr(rhs + " " + sm.group(2)))
            elif sm:
                shared_written.add(sm.group(1))
                c = T.num(T.cells, sm.group(1))
                T.ops.append("FSet %d (FAdd (FCell %d) (%s))" % (c, c, expr(rhs + " " + sm.group(2))))
            else:
                raise ScanError("assignment target %r" % lhs)
            emitted = True
        # effects of callees on pointer arguments
        for e, name, idx in eff:
            others = re.sub(r"&\s*%s\s*\[[^\]]*\]" % re.escape(name), " ", t) if e == "W" else t
            if idx is not None and has_lv(idx):
                extra = ["FIdx %d" % T.num(T.arrs, name)] if e == "RW" else []
                T.ops.append("FOutIdx (%s)" % expr(others, extra=extra))
            elif name in assigned:
                c = T.num(T.cells, name)
                T.ops.append("FSet %d (%s)" % (c, expr(others)) if e == "W" else "FSet %d (FAdd (FCell %d) (%s))" % (c, c, expr(others)))
            else:
                shared_written.add(name)
                c = T.num(T.cells, name)
                T.ops.append("FSet %d (FAdd (FCell %d) (%s))" % (c, c, expr(others)))
            emitted = True
        # L.append(e) on a list created before the loop
        for callee, args in py_calls(t):
            if callee.endswith(".append") and callee.split(".")[0] not in assigned:
                lst = callee.split(".")[0]
                n_append[lst] = n_append.get(lst, 0) + 1
                T.ops.append("FOutIdx (%s)" % expr(" ".join(args)))
                emitted = True
        if not emitted:
            T.ops.append("FSet 0 (%s)" % expr(t))
        T.trace.append((t, [], py_idents(t)))
    for lst, k in n_append.items():
        if k != 1:
            # a list that does not receive exactly one element per iteration does not hold frame i at position i
            c = T.num(T.cells, lst)
            T.ops.append("FSet %d (FAdd (FCell %d) (FConst 1))" % (c, c))
    T.assigned = sorted(own)
    T.shared_written = sorted(shared_written)
    return T


def scan_pyx_loop(src, function, bound, occurrence=0):
    """The `occurrence`-th loop `for v in prange/range(<bound>...)` (textual order) of `function`:
    returns (loop variable, "prange"|"range", [Term per path], [scalars assigned in the body])."""
    code = strip_py_comments(src)
    lines = function_block(code, function).splitlines()
    heads = []
    for k, line in enumerate(lines):
        m = FOR_RE.match(line.strip())
        if m and split_top(m.group(3))[0] in bound:
            heads.append((k, m))
    if occurrence >= len(heads):
        raise ScanError("loop %d over %s of %s not found (%d found)" % (occurrence, "/".join(bound), function, len(heads)))
    k, m = heads[occurrence]
    ind = len(lines[k]) - len(lines[k].lstrip(" "))
    j = k + 1
    while j < len(lines) and (not lines[j].strip() or len(lines[j]) - len(lines[j].lstrip(" ")) > ind):
        j += 1
    ll = logical_lines("\n".join(lines[k + 1:j]))
    if not ll:
        raise ScanError("empty loop body in %s" % function)
    body, nxt = parse_tree(ll, 0, ll[0][0])
    if nxt != len(ll):
        raise ScanError("loop body of %s not consumed" % function)
    lv = m.group(1)
    allp = paths(body)
    everywhere = set()
    for p in allp:
        everywhere |= path_assigned(p)

    def invariant(cond):
        # the same in every iteration of one call: reads neither the loop variable nor anything the loop assigns
        names = set(py_idents(cond))
        return lv not in names and not (names & everywhere) and not re.search(r"\b%s\b" % re.escape(lv), cond)

    def world(p):
        return tuple((it[1], it[2]) for it in p if it[0] == "cond" and invariant(it[1]))
    terms = []
    for p in allp:
        carried = set()
        for q in allp:
            if world(q) == world(p):
                carried |= path_assigned(q)
        terms.append(scan_path(p, lv, carried=carried))
    assigned = sorted(everywhere)
    return lv, m.group(2), terms, assigned


def count_pranges(src):
    return len(re.findall(r"\bin\s+prange\s*\(", strip_py_comments(src)))


# ------------------------------------------------------------------------------------------ generated C++
def pragma_clauses(cpp_text):
    """[{"kind": "parallel"|"for", "private": [...], "firstprivate": [...], "lastprivate": [...], "reduction": [...],
        "schedule": str|None, "nowait": bool, "line": n}] in textual order."""
    out = []
    for m in re.finditer(r"^[ \t]*#pragma\s+omp\s+(parallel\s+for|parallel|for)\b([^\n]*)", cpp_text, re.M):
        kind = "for" if m.group(1).endswith("for") else "parallel"
        rest = m.group(2)
        d = {"kind": kind, "combined": m.group(1).startswith("parallel") and kind == "for",
             "private": [], "firstprivate": [], "lastprivate": [], "reduction": [], "schedule": None,
             "nowait": bool(re.search(r"\bnowait\b", rest)), "line": cpp_text.count("\n", 0, m.start()) + 1}
        for cm in re.finditer(r"\b(firstprivate|lastprivate|private|reduction|schedule)\s*\(([^)]*)\)", rest):
            if cm.group(1) == "schedule":
                d["schedule"] = cm.group(2).strip()
            elif cm.group(1) == "reduction":
                d["reduction"].append(cm.group(2).strip())
            else:
                d[cm.group(1)] += [v.strip() for v in cm.group(2).split(",") if v.strip()]
        out.append(d)
    return out
