"""C08 - per-frame results depend only on that frame, not on neighbouring frames, frame order or threads.

Model  : coq/Sched/ParFor.v (a parallel-for as schedule + per-thread scratch), coq/Sched/Scratch.v (loop bodies
         over scratch cells with the discipline "never read a cell before writing it in the same iteration"),
         coq/Sched/Kernels.v (hand-written skeletons of mdtraj's per-frame loops), coq/Sasa/Model.v (the full SASA
         kernel, the one loop that carries a buffer), coq/Gen/SchedSasa.v (the SASA skeleton regenerated from
         sasa.cpp on every run + the variables written by all threads of an omp parallel region),
         coq/Sched/FrameLoop.v (serial frame loops with carried cursors) and coq/Gen/SchedKernels.v: one FrameLoop term per
         per-frame loop / per-call kernel of dssp.cpp, geometry.cpp, kernels/*.h, center_sse.h, neighbors.cpp,
         dridkernels.cpp, moments.cpp, regenerated on every run by harness/props/C08_scan.py with the obligation that every
         term is disciplined (state declared outside the loop and not re-initialised per frame, a value frozen before the
         loop from a per-frame array, a per-frame pointer that is not advanced, static accumulators: obligation fails).
Theorems: coq/Props/C08.v.
Tie    : the skeletons are hand abstractions; what ties them to the compiled code is this sweep: every per-frame
         analysis is computed on a trajectory, on every frame alone and on a permuted trajectory, hashed per frame
         (raw bytes), under OMP_NUM_THREADS x OMP_SCHEDULE x OMP_DYNAMIC x repeats, each in its own process; all
         comparisons are equality of hashes.  For SASA the set of frames that do come out right is compared, inside
         coqc, with the first-iteration-of-each-thread set of the static schedule model.
Level  : proof of the loop discipline + exploration of the implementation (counts in the evidence).
"""
import math
import os
import re
import subprocess

import common
from common import cnat, clist, cstr

LEVEL = "proof"
THEOREMS = "Props/C08.v"
EXTRA_TARGETS = ("Gen/SchedSasa.vo", "Gen/SchedKernels.vo", "Gen/SchedPyx.vo")
EXTS = ["_geometry", "_rmsd", "drid", "neighbors", "neighborlist"]
RULE = ("(environment, trajectory, analysis) triples: environment = OMP_NUM_THREADS in {1,2,3,5,8,16,frames+3} x OMP_SCHEDULE in "
        "{static,dynamic,guided} x OMP_DYNAMIC in {unset,true}, one process each; trajectory = frames of tests/data/2EQQ.pdb or "
        "seeded random coordinates (no cell, constant rectangular cell, a cell whose kind O/T and size change per frame, a sheared cell with one component changing per frame, a 1500+ atom system for the numpy/BLAS analyses, 24+ near-copies of a protein frame with hydrogen bonds present in 1-2 frames); in a few environments each analysis is recomputed after the process served other calls of the same functions (call history); analysis = one of the per-frame functions; for each triple the whole "
        "trajectory, every frame alone, a permuted trajectory and a repeated call are hashed per frame and compared for "
        "equality; non-trivial = trajectory has >= 2 frames and more frames than one thread's share for some thread "
        "(threads < frames) or a permutation that moves the frame; distinct by hash of the triple")
TRUSTED = ["harness/props/C08_scan.py (C/C++ frame-loop scanner: flattening, callee effect table, per-frame parameter names)",
           "harness/props/C08_pyx.py (cython frame-loop scanner: indentation blocks, one term per control-flow path, conditions "
           "that read neither the loop variable nor anything the loop assigns are the same in every iteration, callee effect "
           "table PYX_CALLEE_EFFECTS; extraction of the OpenMP clauses of the pre-generated C++ and their matching with the "
           "prange loops by textual order)",
           "harness/impl/sched_impl.py (calls mdtraj's public API on fresh copies, hashes raw result bytes per frame)",
           "harness/props/C08.py (environment sweep, comparison of hashes, the regex translator of sasa.cpp's loop skeleton "
           "and of the variables written inside omp parallel regions)",
           "the kernel skeletons of coq/Sched/Kernels.v are hand abstractions of the C++/Cython loops (not derived from the source, "
           "except the SASA one)"]
ASSUMPTIONS = ["OpenMP runtime (libgomp) semantics: which schedule is chosen and the memory model are not modelled; the theorems "
               "quantify over every schedule that runs each iteration exactly where a thread-private scratch is private",
               "bit-reproducibility of the floating-point arithmetic inside one frame is observed (hash equality), not proved",
               "md.rmsd/superpose centre their inputs in place (documented): every evaluation gets a fresh copy of its input"]

ANALYSES = ["distances", "displacements", "angles", "dihedrals", "distances_pbc", "angles_pbc", "dihedrals_pbc", "rmsd",
            "rmsd_serial", "rmsd_subset", "superpose", "superpose_serial", "superpose_subset", "sasa_atom", "sasa_residue", "neighbors",
            "neighborlist", "rg", "center_of_mass", "drid", "inertia_tensor", "contacts", "dssp", "kabsch_sander",
            "wernet_nilsson", "baker_hubbard_1", "baker_hubbard_union",
            # periodic paths (run on every trajectory that has a cell; the cell-mix trajectories run only these)
            "displacements_pbc", "distances_pbc_noopt", "density", "contacts_pbc", "wernet_nilsson_pbc",
            "baker_hubbard_pbc", "baker_hubbard_union_pbc", "displacements_pbc_noopt", "angles_pbc_noopt", "dihedrals_pbc_noopt",
            "unitcell_vectors", "unitcell_volumes",
            # optional-argument variants
            "rg_masses", "center_of_geometry", "gyration_tensor", "principal_moments", "asphericity", "distances_noopt",
            "displacements_noopt", "angles_noopt", "dihedrals_noopt", "rmsd_ref_subset", "rmsd_precentered", "sasa_atom_sel",
            "sasa_residue_sel", "drid_all", "neighbors_haystack", "contacts_ca", "contacts_heavy_softmin"]
# numpy / BLAS based analyses: run on the large system, where blocking and BLAS threading could show
NUMERIC = ["rg", "rg_masses", "center_of_mass", "center_of_geometry", "inertia_tensor", "gyration_tensor", "principal_moments",
           "asphericity", "distances", "distances_noopt", "displacements_noopt", "angles_noopt", "rmsd", "rmsd_subset", "superpose",
           "density", "distances_pbc", "distances_pbc_noopt"]
PERIODIC = ["distances_pbc", "displacements_pbc", "distances_pbc_noopt", "angles_pbc", "dihedrals_pbc", "neighbors",
            "neighborlist", "contacts_pbc", "wernet_nilsson_pbc", "baker_hubbard_pbc", "baker_hubbard_union_pbc", "density",
            "displacements_pbc_noopt", "angles_pbc_noopt", "dihedrals_pbc_noopt", "neighbors_haystack", "unitcell_vectors",
            "unitcell_volumes"]
# per-frame cell KIND patterns (O rectangular, T sheared), cycled over the frames: a shortcut that decides the
# kernel, a buffer size or a grid once per call from frame 0 (or from "all frames") shows up as a frame whose value
# changes with its company
CELL_PATTERNS = ["OTTTT", "TOOOO", "OOTOO", "OTOTO", "TTOTT"]
SASA = ("sasa_atom", "sasa_residue")
PARALLEL_FLAG_PAIRS = [("rmsd", "rmsd_serial"), ("superpose", "superpose_serial")]    # parallel=True vs parallel=False
DESC_SASA = ("shrake_rupley: a frame's areas depend on which frames the same thread processed before "
             "(per-thread outframebuffer carried across frames): result changes with OMP_NUM_THREADS, neighbours and order")
DESC_SHARED = "sasa.cpp: a variable declared outside the omp parallel region is written by every thread (not private): data race"


# ------------------------------------------------------------------------------------------ translator (sasa.cpp)
def _strip_comments(src):
    src = re.sub(r"/\*.*?\*/", lambda m: " " * 0 + re.sub(r"[^\n]", " ", m.group(0)), src, flags=re.S)
    return re.sub(r"//[^\n]*", "", src)


def _match_brace(s, i):
    depth = 0
    for j in range(i, len(s)):
        if s[j] == "{":
            depth += 1
        elif s[j] == "}":
            depth -= 1
            if depth == 0:
                return j
    raise ValueError("unbalanced braces")


TY = r"(?:long\s+long|unsigned|int|float|double|bool|char|size_t|__m128d|__m128i|__m128|fvec4|ivec4|long)"


def shared_writes(path):
    """Plain variables assigned inside '#pragma omp parallel' regions that are declared outside the region and are
    neither in a private(...) clause nor the omp-for loop variable."""
    with open(path) as fh:
        src = _strip_comments(fh.read().replace("\\\n", " "))
    src = "\n".join(l for l in src.splitlines() if not re.match(r"\s*#\s*(ifdef|ifndef|endif|else|if)\b", l))
    found = []
    for m in re.finditer(r"#pragma\s+omp\s+parallel\b([^\n]*)", src):
        clause = m.group(1)
        private = set()
        for pm in re.finditer(r"(?:first|last)?private\s*\(([^)]*)\)", clause):
            private |= {v.strip() for v in pm.group(1).split(",")}
        rest = src[m.end():]
        is_for = re.match(r"\s*for\b", clause) is not None
        if is_for:
            fm = re.match(r"\s*for\s*\(", rest)
            if not fm:
                raise ValueError("omp parallel for without a for statement")
            k = rest.index("(", 0)
            depth, j = 0, k
            while True:
                depth += rest[j] == "("
                depth -= rest[j] == ")"
                if depth == 0:
                    break
                j += 1
            header = rest[k:j + 1]
            after = rest[j + 1:]
            am = re.match(r"\s*\{", after)
            body = after[am.end() - 1:_match_brace(after, am.end() - 1) + 1] if am else after[:after.index(";") + 1]
            region = header + body
            loopvars = set(re.findall(r"\(\s*(?:int\s+)?(\w+)\s*=", header))
        else:
            bm = re.match(r"\s*\{", rest)
            if not bm:
                raise ValueError("omp parallel without a block")
            region = rest[bm.end() - 1:_match_brace(rest, bm.end() - 1) + 1]
            loopvars = set()
            for fm in re.finditer(r"#pragma\s+omp\s+for[^\n]*\n\s*for\s*\(\s*(?:int\s+)?(\w+)\s*=", region):
                loopvars.add(fm.group(1))
        locals_ = set(re.findall(r"\b%s\s*[\*&]?\s*(\w+)\s*(?:=|;|\(|,|\[)" % TY, region))
        assigned = set(re.findall(r"(?<![\w\]\.>])([A-Za-z_]\w*)\s*(?:=(?!=)|\+\+|--|\+=|-=|\*=|/=)", region))
        assigned |= set(re.findall(r"(?:\+\+|--)\s*([A-Za-z_]\w*)\b(?!\s*[\[\.])", region))
        before = src[:m.start()]
        names_outside = set()
        for d in re.findall(r"\b%s\s*\*?\s*((?:\*?\s*\w+(?:\[\w*\])?\s*,\s*)*\*?\s*\w+(?:\[\w*\])?)\s*;" % TY, before):
            names_outside |= {re.sub(r"\[.*", "", v).strip(" *") for v in d.split(",")}
        bad = sorted((assigned & names_outside) - private - loopvars - locals_)
        found += bad
    return found


def sasa_skeleton(path):
    """The SASA frame loop as a program of MD.Sched.Scratch: list of ops as Coq text + a tag per op."""
    with open(path) as fh:
        src = _strip_comments(fh.read())
    m = re.search(r"static\s+void\s+asa_frame\s*\(", src)
    if not m:
        raise ValueError("asa_frame not found")
    b0 = src.index("{", m.end())
    asa = src[b0:_match_brace(src, b0) + 1]
    ops = []
    for sm in re.finditer(r"([^;{}]*\bareas\s*\[[^;]*);", asa):
        st = " ".join(sm.group(1).split())
        if re.match(r"(if\s*\([^)]*\)\s*)?areas\s*\[\s*\w+\s*\]\s*\+\+$", st) or re.match(r"(if\s*\([^)]*\)\s*)?areas\s*\[\s*\w+\s*\]\s*\+=", st):
            op = ("acc", "Set_ 0 (Add (Cell 0) (Inp 0))")
        elif re.match(r"areas\s*\[\s*\w+\s*\]\s*\*=", st):
            op = ("scale", "Set_ 0 (Mul (Cell 0) (Inp 1))")
        elif re.match(r"areas\s*\[\s*\w+\s*\]\s*=\s*0(\.0*)?f?$", st):
            op = ("zero", "Set_ 0 (Const 0)")
        elif re.match(r"areas\s*\[\s*\w+\s*\]\s*=(?!=)", st) and "areas" not in st.split("=", 1)[1]:
            op = ("set", "Set_ 0 (Mul (Inp 0) (Inp 1))")
        else:
            raise ValueError("unrecognised statement on areas[]: %s" % st)
        if not ops or ops[-1] != op or op[0] != "acc":
            ops.append(op)
    m = re.search(r"\bvoid\s+sasa\s*\(", src)
    if not m:
        raise ValueError("sasa() not found")
    b0 = src.index("{", m.end())
    body = src[b0:_match_brace(src, b0) + 1]
    lm = re.search(r"for\s*\(\s*(?:int\s+)?i\s*=\s*0\s*;\s*i\s*<\s*n_frames", body)
    if not lm:
        raise ValueError("frame loop not found")
    l0 = body.index("{", lm.end())
    loop = body[l0:_match_brace(body, l0) + 1]
    call = loop.find("asa_frame")
    if call < 0:
        raise ValueError("asa_frame is not called in the frame loop")
    buf = re.search(r"asa_frame\s*\(([^;]*)\)\s*;", loop)
    bufname = buf.group(1).split(",")[-1].strip()
    pre = loop[:call]
    reset = bool(re.search(r"\b%s\s*\[[^\]]*\]\s*=\s*0(\.0*)?f?\s*;" % re.escape(bufname), pre) or
                 re.search(r"memset\s*\(\s*%s\b" % re.escape(bufname), pre) or
                 re.search(r"std::fill(_n)?\s*\(\s*%s\b" % re.escape(bufname), pre) or
                 re.search(r"\b%s\s*=\s*\([^)]*\)\s*calloc" % re.escape(bufname), pre))
    if reset:
        ops.insert(0, ("zero", "Set_ 0 (Const 0)"))
    ops.append(("out", "Out (Cell 0)"))
    return ops, bufname


def gen_text(ops, shared, note):
    return ("(* GENERATED on every run by harness/props/C08.py from mdtraj/geometry/src/sasa.cpp (and neighborlist.cpp for the\n"
            "   shared-variable list).  %s *)\n"
            "From Coq Require Import String.\nFrom Coq Require Import List ZArith Bool.\nImport ListNotations.\n"
            "Require Import MD.Sched.Scratch MD.Sched.Kernels.\nOpen Scope Z_scope.\n\n"
            "(* cell 0 = the thread's outframebuffer entry of one atom; Inp 0 = accessible points in this frame; Inp 1 = c*r*r *)\n"
            "Definition sasa_prog : prog := [%s].\n\n"
            "(* variables declared outside an omp parallel region, written inside it, and not private *)\n"
            "Definition shared_written : list string := %s.\n\n"
            "(* per-run obligation: the loop as it is written today either obeys the scratch discipline or is exactly the\n"
            "   recorded as-found loop (whose violation is the known finding); anything else stops the build *)\n"
            "Lemma sasa_prog_classified : ok_prog sasa_prog = true \\/ sasa_prog = sasa_cur_prog.\n"
            "Proof. first [left; vm_compute; reflexivity | right; reflexivity]. Qed.\n"
            % (note, "; ".join(o[1] for o in ops), clist([cstr(s) for s in shared])))


# (term name, file, mode, function, preprocessor defines): every per-frame loop / per-call kernel that is scanned
KERNELS = [
    ("dssp_loop", "mdtraj/geometry/src/dssp.cpp", "loop", "dssp", ()),
    ("kabsch_sander_loop", "mdtraj/geometry/src/geometry.cpp", "loop", "kabsch_sander", ()),
    ("dist_loop", "mdtraj/geometry/src/kernels/distancekernels.h", "loop", "dist", ()),
    ("dist_mic_loop", "mdtraj/geometry/src/kernels/distancekernels.h", "loop", "dist_mic", ("COMPILE_WITH_PERIODIC_BOUNDARY_CONDITIONS",)),
    ("dist_mic_triclinic_loop", "mdtraj/geometry/src/geometry.cpp", "loop", "dist_mic_triclinic", ()),
    ("angle_loop", "mdtraj/geometry/src/kernels/anglekernels.h", "loop", "angle", ()),
    ("angle_mic_loop", "mdtraj/geometry/src/kernels/anglekernels.h", "loop", "angle_mic", ("COMPILE_WITH_PERIODIC_BOUNDARY_CONDITIONS",)),
    ("angle_mic_triclinic_loop", "mdtraj/geometry/src/kernels/anglekernels.h", "loop", "angle_mic_triclinic",
     ("COMPILE_WITH_PERIODIC_BOUNDARY_CONDITIONS", "COMPILE_WITH_TRICLINIC")),
    ("dihedral_loop", "mdtraj/geometry/src/kernels/dihedralkernels.h", "loop", "dihedral", ()),
    ("dihedral_mic_loop", "mdtraj/geometry/src/kernels/dihedralkernels.h", "loop", "dihedral_mic", ("COMPILE_WITH_PERIODIC_BOUNDARY_CONDITIONS",)),
    ("dihedral_mic_triclinic_loop", "mdtraj/geometry/src/kernels/dihedralkernels.h", "loop", "dihedral_mic_triclinic",
     ("COMPILE_WITH_PERIODIC_BOUNDARY_CONDITIONS", "COMPILE_WITH_TRICLINIC")),
    ("center_loop", "mdtraj/rmsd/src/center_sse.h", "loop", "inplace_center_and_trace_atom_major", ()),
    ("compute_neighbors_call", "mdtraj/geometry/src/neighbors.cpp", "call", "_compute_neighbors", ()),
    ("drid_moments_call", "mdtraj/geometry/src/dridkernels.cpp", "call", "drid_moments", ()),
    ("moments_clear_call", "mdtraj/geometry/src/moments.cpp", "call", "moments_clear", ()),
    ("moments_push_call", "mdtraj/geometry/src/moments.cpp", "call", "moments_push", ()),
    ("moments_mean_call", "mdtraj/geometry/src/moments.cpp", "call", "moments_mean", ()),
    ("moments_second_call", "mdtraj/geometry/src/moments.cpp", "call", "moments_second", ()),
    ("moments_third_call", "mdtraj/geometry/src/moments.cpp", "call", "moments_third", ()),
]


# every C/C++ source that implements a per-frame kernel: none of them may keep state between calls
KERNEL_FILES = ["mdtraj/geometry/src/sasa.cpp", "mdtraj/geometry/src/dssp.cpp", "mdtraj/geometry/src/geometry.cpp",
                "mdtraj/geometry/src/neighbors.cpp", "mdtraj/geometry/src/neighborlist.cpp", "mdtraj/geometry/src/dridkernels.cpp",
                "mdtraj/geometry/src/moments.cpp", "mdtraj/geometry/src/kernels/distancekernels.h",
                "mdtraj/geometry/src/kernels/anglekernels.h", "mdtraj/geometry/src/kernels/dihedralkernels.h",
                "mdtraj/rmsd/src/center.cpp", "mdtraj/rmsd/src/center_sse.h", "mdtraj/rmsd/src/rotation.cpp",
                "mdtraj/rmsd/src/rotation_sse.h", "mdtraj/rmsd/src/theobald_rmsd.cpp", "mdtraj/rmsd/src/theobald_rmsd_sse.h"]


def static_state(repo=None):
    from props import C08_scan
    repo = repo or common.REPO
    out = []
    for rel in KERNEL_FILES:
        with open(os.path.join(repo, rel)) as fh:
            for v in C08_scan.file_static_state(fh.read()):
                out.append("%s:%s" % (os.path.basename(rel), v))
    return out


def scan_kernels(repo=None):
    """[(name, Term)] for KERNELS; raises C08_scan.ScanError when a source is outside the scanner's grammar."""
    from props import C08_scan
    repo = repo or common.REPO
    out = []
    for name, rel, mode, fn, defs in KERNELS:
        with open(os.path.join(repo, rel)) as fh:
            src = fh.read()
        try:
            T = C08_scan.scan_loop(src, fn, defines=defs) if mode == "loop" else C08_scan.scan_percall(src, fn, defines=defs)
        except C08_scan.ScanError as e:
            raise C08_scan.ScanError("%s (%s:%s): %s" % (name, rel, fn, e))
        out.append((name, rel, mode, fn, T))
    return out


def gen_kernels_text(scanned, statics=()):
    lines = ["(* GENERATED on every run by harness/props/C08.py + C08_scan.py from mdtraj's C/C++ sources: one term of",
             "   MD.Sched.FrameLoop per per-frame loop (and per per-call kernel, whose body is the iteration and whose only",
             "   possible carried state is static / file-scope variables).  Per-run obligations: every term is disciplined",
             "   (no scratch read before this iteration wrote it; every cursor that is used is advanced once per iteration,",
             "   after its last use) and no per-call kernel writes static / file-scope state.  A term that fails stops the build. *)",
             "From Coq Require Import String.", "From Coq Require Import List ZArith Bool.", "Import ListNotations.",
             "Require Import MD.Sched.FrameLoop.", "Open Scope Z_scope.", ""]
    names = []
    shared = []
    for name, rel, mode, fn, T in scanned:
        lines.append("(* %s : %s in %s%s" % (name, fn, rel, "" if mode == "loop" else " (per call)"))
        lines.append("   %s *)" % T.legend().replace("*)", "* )").replace("(*", "( *"))
        lines.append("Definition %s : fprog :=\n  %s." % (name, T.coq()))
        lines.append("")
        names.append(name)
        if mode == "call":
            shared += ["%s:%s" % (fn, v) for v in T.shared]
    lines.append("Definition scanned_kernels : list (string * fprog) :=\n  [%s]." % ";\n   ".join('("%s"%%string, %s)' % (n, n) for n in names))
    lines.append("Definition percall_static_written : list string := %s." % clist([cstr(s) for s in shared]))
    lines.append("")
    lines.append("Lemma scanned_kernels_disciplined : forallb (fun k => fdisc (snd k)) scanned_kernels = true.")
    lines.append("Proof. vm_compute. reflexivity. Qed.")
    lines.append("Lemma percall_kernels_stateless : percall_static_written = [].")
    lines.append("Proof. reflexivity. Qed.")
    lines.append("(* mutable file-scope variables and static locals found in the kernel source files (sasa.cpp, dssp.cpp, geometry.cpp,")
    lines.append("   neighbors.cpp, neighborlist.cpp, dridkernels.cpp, moments.cpp, the kernel headers, the rmsd sources): state that")
    lines.append("   outlives a call *)")
    lines.append("Definition kernel_files_static_state : list string := %s." % clist([cstr(s) for s in statics]))
    lines.append("Lemma kernel_files_stateless : kernel_files_static_state = [].")
    lines.append("Proof. reflexivity. Qed.")
    return "\n".join(lines) + "\n"



# ------------------------------------------------------------------------------------------ cython loops and OpenMP clauses
RMSD_PYX = "mdtraj/rmsd/_rmsd.pyx"
# (term name, .pyx, function, first range argument(s), textual occurrence inside the function, expected kind)
PYX_KERNELS = [
    ("rmsd_prange", RMSD_PYX, "rmsd", ("target_n_frames",), 0, "prange"),
    ("rmsd_serial", RMSD_PYX, "rmsd", ("target_n_frames",), 1, "range"),
    ("rmsf_superpose_prange", RMSD_PYX, "rmsf", ("target_n_frames",), 0, "prange"),
    ("rmsf_superpose_serial", RMSD_PYX, "rmsf", ("target_n_frames",), 1, "range"),
    ("multi_rmsd_axis_major_prange", RMSD_PYX, "getMultipleRMSDs_axis_major", ("n_frames",), 0, "prange"),
    ("multi_rmsd_axis_major_serial", RMSD_PYX, "getMultipleRMSDs_axis_major", ("n_frames",), 1, "range"),
    ("multi_rmsd_atom_major_prange", RMSD_PYX, "getMultipleRMSDs_atom_major", ("n_frames",), 0, "prange"),
    ("multi_rmsd_atom_major_serial", RMSD_PYX, "getMultipleRMSDs_atom_major", ("n_frames",), 1, "range"),
    ("superpose_prange", RMSD_PYX, "superpose_atom_major", ("n_frames",), 0, "prange"),
    ("superpose_serial", RMSD_PYX, "superpose_atom_major", ("n_frames",), 1, "range"),
    ("align_displace_rmsd_prange", RMSD_PYX, "getMultipleAlignDisplaceRMSDs_atom_major", ("n_frames",), 0, "prange"),
    ("align_displace_rmsd_serial", RMSD_PYX, "getMultipleAlignDisplaceRMSDs_atom_major", ("n_frames",), 1, "range"),
    ("drid_frames", "mdtraj/geometry/drid.pyx", "_drid", ("n_frames",), 0, "range"),
    ("drid_atoms_prange", "mdtraj/geometry/drid.pyx", "_drid", ("n_atom_indices",), 0, "prange"),
    ("compute_neighbors_frames", "mdtraj/geometry/neighbors.pyx", "compute_neighbors", ("n_frames",), 0, "range"),
]
# .pyx -> the C++ cython generated from it (the file that is compiled; git-ignored, next to the source)
PYX_GENERATED = {RMSD_PYX: "mdtraj/rmsd/_rmsd.cpp", "mdtraj/geometry/drid.pyx": "mdtraj/geometry/drid.cpp",
                 "mdtraj/geometry/neighbors.pyx": "mdtraj/geometry/neighbors.cpp",
                 "mdtraj/geometry/neighborlist.pyx": "mdtraj/geometry/neighborlist.cpp",
                 "mdtraj/geometry/src/_geometry.pyx": "mdtraj/geometry/src/_geometry.cpp",
                 "mdtraj/rmsd/_lprmsd.pyx": "mdtraj/rmsd/_lprmsd.cpp"}
# hand-written OpenMP loops: (term name, file, function, loop bound, preprocessor defines)
OMP_CPP_LOOPS = [
    ("sasa_frames_omp", "mdtraj/geometry/src/sasa.cpp", "sasa", ("n_frames",), ("_OPENMP",)),
    ("center_frames_omp", "mdtraj/rmsd/src/center_sse.h", "inplace_center_and_trace_atom_major", ("n_frames",), ("_OPENMP",)),
]
OMP_CPP_FILES = ["mdtraj/geometry/src/sasa.cpp", "mdtraj/geometry/src/neighborlist.cpp", "mdtraj/rmsd/src/center_sse.h"]


def all_pranges(src):
    """Every `for v in prange(...)` of a .pyx in textual order: (line, loop variable, scalars assigned in the body,
    scalars updated with an in-place operator = what cython turns into an OpenMP reduction)."""
    from props import C08_pyx as P
    code = P.strip_py_comments(src)
    lines = code.splitlines()
    out = []
    for k, line in enumerate(lines):
        m = P.FOR_RE.match(line.strip())
        if not m or m.group(2) != "prange":
            continue
        ind = len(line) - len(line.lstrip(" "))
        j = k + 1
        while j < len(lines) and (not lines[j].strip() or len(lines[j]) - len(lines[j].lstrip(" ")) > ind):
            j += 1
        ll = P.logical_lines("\n".join(lines[k + 1:j]))
        body, _n = P.parse_tree(ll, 0, ll[0][0])
        assigned, reductions = set(), set()
        for path in P.paths(body):
            for it in path:
                if it[0] == "forhead":
                    assigned.add(it[1])
                elif it[0] == "stmt":
                    am = P.AUG_RE.match(it[1])
                    a = P.top_level_assign(it[1]) if not am else None
                    if am and re.match(r"^[A-Za-z_]\w*$", am.group(1).strip()):
                        reductions.add(am.group(1).strip())
                    elif a and re.match(r"^[A-Za-z_]\w*$", a[0]):
                        assigned.add(a[0])
        out.append((k + 1, m.group(1), sorted(assigned), sorted(reductions)))
    return out


def scan_pyx(repo=None):
    """Terms of the cython per-frame loops + the cross-check of each .pyx against its generated C++.
    Returns (terms [(name, rel, function, kind, Term)], clauses [(where, lastprivate, reduction, schedule)], problems dict)."""
    from props import C08_pyx as P, C08_scan
    repo = repo or common.REPO
    terms = []
    kind_mismatch = []
    for name, rel, fn, bound, occ, want in PYX_KERNELS:
        with open(os.path.join(repo, rel)) as fh:
            src = fh.read()
        try:
            _v, kind, paths_, _assigned = P.scan_pyx_loop(src, fn, bound, occ)
        except C08_scan.ScanError as e:
            raise C08_scan.ScanError("%s (%s:%s): %s" % (name, rel, fn, e))
        if kind != want:
            kind_mismatch.append("%s:%s is a %s loop (recorded: %s)" % (os.path.basename(rel), name, kind, want))
        for k, T in enumerate(paths_):
            terms.append((name if len(paths_) == 1 else "%s_path%d" % (name, k), rel, fn, kind, T))
    clauses, reductions, unprivatised, count_mismatch = [], [], [], []
    for rel, gen in sorted(PYX_GENERATED.items()):
        with open(os.path.join(repo, rel)) as fh:
            pr = all_pranges(fh.read())
        gpath = os.path.join(repo, gen)
        if not os.path.exists(gpath):
            raise C08_scan.ScanError("generated file %s is missing" % gen)
        with open(gpath, errors="replace") as fh:
            pc = [d for d in P.pragma_clauses(fh.read()) if d["kind"] == "for"]
        if len(pr) != len(pc):
            count_mismatch.append("%s: %d prange loops, %s: %d omp for" % (os.path.basename(rel), len(pr), os.path.basename(gen), len(pc)))
            continue
        for (line, var, assigned, red), d in zip(pr, pc):
            where = "%s:%d" % (os.path.basename(rel), line)
            last = sorted(v.replace("__pyx_v_", "") for v in d["lastprivate"])
            clauses.append((where, last, d["reduction"], d["schedule"] or ""))
            for r in red:
                reductions.append("%s:%s (in-place operator in the prange body)" % (where, r))
            for r in d["reduction"]:
                reductions.append("%s:%s (reduction clause in %s:%d)" % (where, r, os.path.basename(gen), d["line"]))
            for v in sorted(set(assigned + [var]) - set(last)):
                unprivatised.append("%s:%s" % (where, v))
    return terms, clauses, {"reductions": reductions, "unprivatised": unprivatised, "count_mismatch": count_mismatch,
                            "kind_mismatch": kind_mismatch}


def scan_omp_cpp(repo=None):
    """The hand-written OpenMP loops: terms + (file:line, private list, reduction, schedule) of every omp pragma, and the
    variables a loop body writes that are declared outside the parallel region without being private."""
    from props import C08_pyx as P, C08_scan
    repo = repo or common.REPO
    terms, clauses, unpriv, reductions = [], [], [], []
    pragmas = {}
    for rel in OMP_CPP_FILES:
        with open(os.path.join(repo, rel)) as fh:
            code = C08_scan.preprocess(C08_scan.strip_comments(fh.read()), ("_OPENMP",))
        pragmas[rel] = P.pragma_clauses(code)
        for d in pragmas[rel]:
            where = "%s:%s" % (os.path.basename(rel), "parallel for" if d["combined"] else d["kind"])
            clauses.append((where, sorted(d["private"] + d["firstprivate"] + d["lastprivate"]), d["reduction"], d["schedule"] or ""))
            for r in d["reduction"]:
                reductions.append("%s:%s" % (where, r))
    for name, rel, fn, bound, defs in OMP_CPP_LOOPS:
        with open(os.path.join(repo, rel)) as fh:
            src = fh.read()
        try:
            T = C08_scan.scan_loop(src, fn, bound=bound, defines=defs)
        except C08_scan.ScanError as e:
            raise C08_scan.ScanError("%s (%s:%s): %s" % (name, rel, fn, e))
        terms.append((name, rel, fn, "omp", T))
        private = set()
        for d in pragmas[rel]:
            private |= set(d["private"] + d["firstprivate"] + d["lastprivate"])
        for v in T.shared:
            if v not in private and v != getattr(T, "loopvar", None):
                unpriv.append("%s:%s" % (os.path.basename(rel), v))
    return terms, clauses, {"unprivatised": unpriv, "reductions": reductions}


def gen_pyx_text(pyx, omp):
    pterms, pclauses, pprob = pyx
    oterms, oclauses, oprob = omp
    L = ["(* GENERATED on every run by harness/props/C08.py + C08_pyx.py + C08_scan.py.",
         "   (1) one term of MD.Sched.FrameLoop per control-flow path of every per-frame loop of mdtraj's cython sources",
         "       (_rmsd.pyx, drid.pyx, neighbors.pyx): `for i in prange(n_frames)` and its serial twin `for i in range(n_frames)`;",
         "   (2) the hand-written OpenMP frame loops (sasa.cpp:sasa, center_sse.h);",
         "   (3) the OpenMP clauses of the C++ that cython generated (the compiled file) matched, in textual order, against the",
         "       prange loops of the .pyx, and the clauses of the hand-written pragmas.",
         "   Per-run obligations: every term is disciplined; every PARALLEL term is also cursor-free (par_ok), so that",
         "   MD.Sched.FrameLoopPar.par_loop_schedule_free applies; no reduction clause / in-place scalar update in a prange body;",
         "   every scalar a prange body assigns is lastprivate in the generated pragma; every variable an omp loop body writes",
         "   and that is declared outside the region is in a private clause. *)",
         "From Coq Require Import String.", "From Coq Require Import List ZArith Bool.", "Import ListNotations.",
         "Require Import MD.Sched.FrameLoop.", "Open Scope Z_scope.", ""]
    names, par = [], []
    for name, rel, fn, kind, T in pterms + oterms:
        L.append("(* %s : %s loop of %s in %s" % (name, kind, fn, rel))
        L.append("   %s *)" % T.legend().replace("*)", "* )").replace("(*", "( *"))
        L.append("Definition %s : fprog :=\n  %s." % (name, T.coq()))
        L.append("")
        names.append(name)
        if kind in ("prange", "omp"):
            par.append(name)
    L.append("Definition pyx_loops : list (string * fprog) :=\n  [%s]." % ";\n   ".join('("%s"%%string, %s)' % (n, n) for n in names))
    L.append("Definition parallel_loops : list (string * fprog) :=\n  [%s]." % ";\n   ".join('("%s"%%string, %s)' % (n, n) for n in par))
    fmt = lambda cl: clist(["(%s, (%s, (%s, %s)))" % (cstr(w), clist([cstr(x) for x in a]), clist([cstr(x) for x in r]), cstr(sc))
                            for w, a, r, sc in cl])
    L.append("(* (prange at file:line, (lastprivate variables of the generated omp for, (reduction clauses, schedule clause))) *)")
    L.append("Definition prange_clauses : list (string * (list string * (list string * string))) :=\n  %s." % fmt(pclauses))
    L.append("(* (hand-written pragma, (private variables, (reduction clauses, schedule clause))) *)")
    L.append("Definition omp_clauses : list (string * (list string * (list string * string))) :=\n  %s." % fmt(oclauses))
    L.append("Definition prange_reductions : list string := %s." % clist([cstr(x) for x in pprob["reductions"] + oprob["reductions"]]))
    L.append("Definition prange_unprivatised : list string := %s." % clist([cstr(x) for x in pprob["unprivatised"]]))
    L.append("Definition prange_generated_mismatch : list string := %s." % clist([cstr(x) for x in pprob["count_mismatch"] + pprob["kind_mismatch"]]))
    L.append("Definition omp_unprivatised : list string := %s." % clist([cstr(x) for x in oprob["unprivatised"]]))
    L.append("")
    L.append("Lemma pyx_loops_disciplined : forallb (fun k => fdisc (snd k)) pyx_loops = true.\nProof. vm_compute. reflexivity. Qed.")
    L.append("Lemma parallel_loops_par_ok : forallb (fun k => par_ok (snd k)) parallel_loops = true.\nProof. vm_compute. reflexivity. Qed.")
    L.append("Lemma no_reductions : prange_reductions = [].\nProof. reflexivity. Qed.")
    L.append("Lemma prange_scalars_private : prange_unprivatised = [].\nProof. reflexivity. Qed.")
    L.append("Lemma prange_generated_in_step : prange_generated_mismatch = [].\nProof. reflexivity. Qed.")
    L.append("Lemma omp_written_variables_private : omp_unprivatised = [].\nProof. reflexivity. Qed.")
    return "\n".join(L) + "\n"


_STATIC = {}
LINTED = ("mdtraj/geometry/src/sasa.cpp", "mdtraj/geometry/src/neighborlist.cpp", "mdtraj/rmsd/src/center_sse.h")


def static_view():
    if "v" not in _STATIC:
        repo = common.REPO
        ops, buf = sasa_skeleton(os.path.join(repo, "mdtraj/geometry/src/sasa.cpp"))
        shared = []
        for rel in LINTED:
            shared += ["%s:%s" % (os.path.basename(rel), v) for v in shared_writes(os.path.join(repo, rel))]
        tags = [o[0] for o in ops]
        disciplined = tags[0] in ("zero", "set")
        _STATIC["v"] = {"ops": ops, "shared": shared, "disciplined": disciplined, "tags": tags}
    return _STATIC["v"]


def translate(ctx):
    ce = ctx.notes.setdefault("coverage_extra", {})
    # 1. every per-frame loop / per-call kernel -> a term of MD.Sched.FrameLoop (fail closed: file not refreshed)
    try:
        scanned = scan_kernels()
        statics = static_state()
        ctx.write_gen("Gen/SchedKernels.v", gen_kernels_text(scanned, statics))
        ce["kernel_files_static_state"] = statics
        ce["frame_loops_scanned_from_source"] = {n: len(T.ops) for n, _r, _m, _f, T in scanned}
        ce["percall_static_written"] = [s for _n, _r, m, f, T in scanned if m == "call" for s in T.shared]
    except Exception as e:
        ctx.notes["translator"] = "degraded (frame-loop scanner): %s" % e
        ctx.log("frame-loop scanner degraded:", e)
        ce["frame_loops_scanned_from_source"] = "degraded: %s" % e
    # 1b. cython per-frame loops, hand-written omp loops, OpenMP clauses (fail closed: file not refreshed)
    try:
        pyx, omp = scan_pyx(), scan_omp_cpp()
        ctx.write_gen("Gen/SchedPyx.v", gen_pyx_text(pyx, omp))
        ce["cython_frame_loops_scanned"] = {n: len(T.ops) for n, _r, _f, _k, T in pyx[0]}
        ce["omp_frame_loops_scanned"] = {n: len(T.ops) for n, _r, _f, _k, T in omp[0]}
        ce["prange_clauses_of_generated_cpp"] = {w: {"lastprivate": a, "reduction": r, "schedule": sc} for w, a, r, sc in pyx[1]}
        ce["omp_clauses_of_handwritten_cpp"] = {w: {"private": a, "reduction": r, "schedule": sc} for w, a, r, sc in omp[1]}
        ce["prange_problems"] = {k: v for k, v in list(pyx[2].items()) + [("omp_" + k, v) for k, v in omp[2].items()] if v}
    except Exception as e:
        ctx.notes["translator"] = (ctx.notes.get("translator", "") + " degraded (cython/omp scanner): %s" % e).strip()
        ctx.log("cython/omp scanner degraded:", e)
        ce["cython_frame_loops_scanned"] = "degraded: %s" % e
    # 2. the SASA loop skeleton and the omp shared-variable lint
    v = static_view()
    ctx.write_gen("Gen/SchedSasa.v", gen_text(v["ops"], v["shared"], "ops: %s" % " ".join(v["tags"])))
    ce["sasa_loop_skeleton_from_source"] = v["tags"]
    ce["variables_written_by_all_threads"] = v["shared"]


def diagnose_kernels(ctx):
    """When the build broke: which scanned kernel fails the discipline (evaluated by coqc on the generated terms alone)."""
    try:
        scanned = scan_kernels()
    except Exception as e:
        return "scanner: %s" % e
    defs = "\n".join("Definition %s : fprog :=\n  %s." % (n, T.coq()) for n, _r, _m, _f, T in scanned)
    expr = "[%s]" % "; ".join('("%s"%%string, fdisc %s)' % (n, n) for n, _r, _m, _f, T in scanned)
    rc, out = ctx.coq_eval(["MD.Sched.FrameLoop"], expr, prelude="Open Scope Z_scope.\n" + defs)
    bad = re.findall(r'\("(\w+)"%string,\s*false\)', out)
    stat = [s for _n, _r, m, f, T in scanned if m == "call" for s in ["%s:%s" % (f, v) for v in T.shared]]
    try:
        statics = static_state()
    except Exception as e:
        statics = "scanner: %s" % e
    res = {"undisciplined": bad, "percall_static_written": stat, "kernel_files_static_state": statics}
    # the cython / omp terms and clause checks of Gen/SchedPyx.v
    try:
        pyx, omp = scan_pyx(), scan_omp_cpp()
        terms = pyx[0] + omp[0]
        defs = "\n".join("Definition %s : fprog :=\n  %s." % (n, T.coq()) for n, _r, _f, _k, T in terms)
        expr = "[%s]" % "; ".join('("%s"%%string, %s %s)' % (n, "par_ok" if k in ("prange", "omp") else "fdisc", n)
                                  for n, _r, _f, k, T in terms)
        rc, out = ctx.coq_eval(["MD.Sched.FrameLoop"], expr, prelude="Open Scope Z_scope.\n" + defs)
        res["cython_or_omp_loops_undisciplined"] = re.findall(r'\("(\w+)"%string,\s*false\)', out)
        res["prange_problems"] = {k: v for k, v in list(pyx[2].items()) + [("omp_" + k, v) for k, v in omp[2].items()] if v}
    except Exception as e:
        res["cython_or_omp_loops_undisciplined"] = "scanner: %s" % e
    return res


# ------------------------------------------------------------------------------------------ environments / inputs
def trajs_for(ctx):
    quick = ctx.tier == "quick"
    rng = ctx.rng
    pdb = os.path.join(common.REPO, "tests/data/2EQQ.pdb")
    F = rng.choice([5, 6, 7])
    frames = sorted(rng.sample(range(20), F))
    rng.shuffle(frames)
    out = [{"id": "2EQQ", "kind": "file", "path": pdb, "frames": frames, "box": False},
           {"id": "rand-box", "kind": "random", "n_atoms": rng.choice([24, 40, 56]), "n_frames": rng.choice([4, 6, 9]),
            "seed": rng.randrange(10 ** 6), "box": True}]
    out.append({"id": "rand-nobox", "kind": "random", "n_atoms": rng.choice([33, 64]), "n_frames": rng.choice([3, 8, 12]),
                "seed": rng.randrange(10 ** 6), "box": False, "env_every": 2 if quick else 1})
    # cells that change kind and size from frame to frame; first frame rectangular in one, sheared in the other
    pats = list(CELL_PATTERNS)
    rng.shuffle(pats)
    first_o = [p for p in pats if p[0] == "O"][0]
    first_t = [p for p in pats if p[0] == "T"][0]
    out.append({"id": "cellmix-" + first_o, "kind": "random", "n_atoms": rng.choice([28, 44]), "n_frames": rng.choice([5, 6, 7]),
                "seed": rng.randrange(10 ** 6), "cell": first_o, "cell_seed": rng.randrange(10 ** 6), "only": PERIODIC})
    out.append({"id": "cellmix-" + first_t, "kind": "random", "n_atoms": rng.choice([28, 44]), "n_frames": rng.choice([5, 6, 7]),
                "seed": rng.randrange(10 ** 6), "cell": first_t, "cell_seed": rng.randrange(10 ** 6), "only": PERIODIC})
    for tr in out[-2:]:
        tr["env_every"] = 3 if quick else 1
    # a sheared cell in which one single component of the box matrix changes from frame to frame, all others fixed
    out.append({"id": "cellseries", "kind": "random", "n_atoms": rng.choice([30, 42]), "n_frames": 8 if quick else 14,
                "seed": rng.randrange(10 ** 6), "cell_series": "one-component", "cell_seed": rng.randrange(10 ** 6),
                "only": PERIODIC, "env_every": 3 if quick else 1})
    # cells given as lengths + angles, sizes 3 nm next to 20-40 nm, angles exactly 90 / a hair off 90 / oblique: the
    # lengths+angles -> box-vector conversion happens on every access for all frames of the trajectory at once
    pat = rng.choice(["sLXsOl", "LsOsXl", "sOLsXL"])
    out.append({"id": "cell-near90", "kind": "random", "n_atoms": rng.choice([28, 40]), "n_frames": rng.choice([6, 7, 8]),
                "seed": rng.randrange(10 ** 6), "cell_angles": pat, "cell_seed": rng.randrange(10 ** 6), "only": PERIODIC,
                "sub": True, "env_every": 3 if quick else 1})
    out.append({"id": "2EQQ-near90", "kind": "file", "path": pdb, "frames": sorted(rng.sample(range(20), 6)), "cell_angles": rng.choice(["sLsOXl", "LsXsOl"]),
                "cell_seed": rng.randrange(10 ** 6), "cell_size": [2.8, 3.6], "only": PERIODIC, "sub": True, "env_every": 4 if quick else 2})
    # the same sheared cell in every frame (what "has the box changed since the last call?" caches are written for):
    # only useful together with the call-history pass, so it goes through the history environments only
    out.append({"id": "cellconst", "kind": "random", "n_atoms": rng.choice([26, 38]), "n_frames": 4, "seed": rng.randrange(10 ** 6),
                "cell_series": "one-component", "cell_constant": True, "cell_seed": rng.randrange(10 ** 6), "only": PERIODIC,
                "env_every": 4 if quick else 5})
    # a large system for the numpy / BLAS based analyses (blocking and BLAS threading depend on the batch size)
    out.append({"id": "large", "kind": "random", "n_atoms": 1500 if quick else 3200, "n_frames": 9 if quick else 220,
                "seed": rng.randrange(10 ** 6), "box": True, "only": NUMERIC, "env_every": 3 if quick else 4})
    # rare events: >= 24 near-copies of one protein frame in which a few hydrogen bonds exist in exactly 1-2 frames
    out.append({"id": "rare-hbonds", "kind": "rare", "path": pdb, "frame": rng.randrange(20), "n_frames": 24 if quick else 48,
                "seed": rng.randrange(10 ** 6), "n_event_frames": rng.choice([1, 2]), "only": RARE_ONLY, "sub": True,
                "env_every": 4 if quick else 2})
    pf = sorted(rng.sample(range(20), 5))
    out.append({"id": "2EQQ-cellmix", "kind": "file", "path": pdb, "frames": pf, "cell": rng.choice(["OTTOT", "OOTTO"]),
                "cell_seed": rng.randrange(10 ** 6), "cell_size": [2.6, 3.6], "only": PERIODIC, "env_every": 3 if quick else 1})
    if not quick:
        for p in pats:
            if p not in (first_o, first_t):
                out.append({"id": "cellmix-" + p, "kind": "random", "n_atoms": 36, "n_frames": 9, "seed": rng.randrange(10 ** 6),
                            "cell": p, "cell_seed": rng.randrange(10 ** 6), "only": PERIODIC})
        out.append({"id": "2EQQ-cellmix-T", "kind": "file", "path": pdb, "frames": list(range(0, 20, 2)), "cell": "TOOTOT",
                    "cell_seed": rng.randrange(10 ** 6), "cell_size": [2.6, 3.6], "only": PERIODIC})
        out.append({"id": "2EQQ-all", "kind": "file", "path": pdb, "frames": list(range(20)), "box": False})
        out.append({"id": "one-frame", "kind": "random", "n_atoms": 32, "n_frames": 1, "seed": rng.randrange(10 ** 6), "box": True})
        out.append({"id": "rand-big", "kind": "random", "n_atoms": 400, "n_frames": 17, "seed": rng.randrange(10 ** 6), "box": True})
    other_protein = os.path.join(common.REPO, "tests/data/1bpi.pdb")
    for tr in out:
        if tr["kind"] in ("file", "rare"):
            tr["prime_protein"] = other_protein
        if not quick or tr["id"] in ("rand-box", "2EQQ"):
            tr["sub"] = True
    return out


def n_frames_of(spec):
    return len(spec["frames"]) if spec["kind"] == "file" else spec["n_frames"]


# analyses that prefilter / aggregate over the frames of a call, or whose per-frame result is a discrete event list
RARE_ONLY = ["wernet_nilsson", "baker_hubbard_1", "baker_hubbard_union", "kabsch_sander", "dssp", "contacts", "contacts_ca",
             "contacts_heavy_softmin", "neighbors", "neighbors_haystack", "neighborlist", "distances"]


def envs_for(ctx, fmax):
    quick = ctx.tier == "quick"
    threads = [1, 2, 3, 5, 8, 16, fmax + 3]
    scheds = ["static", "dynamic,1", "guided"]
    envs = []
    if quick:
        for i, t in enumerate(threads):
            envs.append({"OMP_NUM_THREADS": str(t), "OMP_SCHEDULE": scheds[i % 3]})
        for i, t in enumerate([2, 5, 16]):
            envs.append({"OMP_NUM_THREADS": str(t), "OMP_SCHEDULE": scheds[(i + 2) % 3]})
        envs.append({"OMP_NUM_THREADS": "2", "OMP_SCHEDULE": "static", "OMP_DYNAMIC": "true"})
        envs.append({"OMP_NUM_THREADS": "3", "OMP_SCHEDULE": "guided", "OMP_DYNAMIC": "true"})
        envs.append({"OMP_NUM_THREADS": "16", "OMP_SCHEDULE": "dynamic,1", "OMP_DYNAMIC": "true"})
        envs.append({"OMP_NUM_THREADS": "8", "OMP_SCHEDULE": "dynamic,1"})      # a second process with the same settings
    else:
        for t in threads:
            for s in scheds:
                envs.append({"OMP_NUM_THREADS": str(t), "OMP_SCHEDULE": s})
                if t in (2, 3, 16):
                    envs.append({"OMP_NUM_THREADS": str(t), "OMP_SCHEDULE": s, "OMP_DYNAMIC": "true"})
                if t in (3, 16):
                    envs.append({"OMP_NUM_THREADS": str(t), "OMP_SCHEDULE": s})      # run-to-run: same settings, new process
    return envs


def env_name(e):
    return "thr=%s,%s%s" % (e["OMP_NUM_THREADS"], e.get("OMP_SCHEDULE", "-"), ",dyn" if e.get("OMP_DYNAMIC") else "")


def run_env(ctx, env, trajs, analyses, repeats, perm_seed, timeout=900, history=False):
    e = dict(env)
    e["OMP_WAIT_POLICY"] = "passive"       # do not spin on an oversubscribed machine (does not affect results)
    for k in ("OPENBLAS_NUM_THREADS", "MKL_NUM_THREADS", "NUMEXPR_NUM_THREADS"):
        e[k] = env["OMP_NUM_THREADS"]       # numpy's BLAS follows the same thread count
    return ctx.run_impl("sched_impl.py", {"trajs": trajs, "analyses": analyses, "perm_seed": perm_seed, "repeats": repeats,
                                          "history": bool(history)},
                        env=e, timeout=timeout)["results"]


# ------------------------------------------------------------------------------------------ the sweep
def sweep(ctx, trajs, envs, analyses, repeats, perm_seed, history=None):
    """Returns nothing; reports through ctx."""
    base_alone = {}        # (traj, analysis) -> hashes of frames computed alone (must be the same in every environment)
    sasa_obs = []          # (env, traj id, analysis, n_frames, fresh-frame list, arithmetic ok)
    nf = {t["id"]: n_frames_of(t) for t in trajs}
    stats = {"triples": 0, "hash_comparisons": 0}
    dead = set()           # analyses that killed / hung the interpreter: reported once, then left out
    all_trajs = trajs
    # the environments are independent processes: run three at a time, evaluate in order
    from concurrent.futures import ThreadPoolExecutor

    def trajs_of(ei):
        # the special-purpose trajectories go through every k-th environment (always through the first)
        return [t for t in all_trajs if len(envs) <= 2 or ei % t.get("env_every", 1) == 0]

    # call-history pass (same analyses again after the process served other calls of the same functions): in a few
    # environments only - it is a property of the process, not of the OpenMP settings
    if history is None:
        hist_envs = {0, 4} if ctx.tier == "quick" else set(range(0, len(envs), 5))
    else:
        hist_envs = set(range(len(envs))) if history else set()

    def first_try(ei):
        try:
            return run_env(ctx, envs[ei], trajs_of(ei), list(analyses), repeats, perm_seed,
                           timeout=400 if ctx.tier == "quick" else 1500, history=ei in hist_envs)
        except (RuntimeError, subprocess.TimeoutExpired) as e:
            return e
    with ThreadPoolExecutor(max_workers=3) as pool:
        firsts = list(pool.map(first_try, range(len(envs))))
    for ei, env in enumerate(envs):
        live = [a for a in analyses if a not in dead]
        trajs = trajs_of(ei)
        try:
            if isinstance(firsts[ei], Exception):
                if dead:       # an analysis already known to crash was still in the first attempt: retry without it
                    res = run_env(ctx, env, trajs, live, repeats, perm_seed, timeout=400 if ctx.tier == "quick" else 1500,
                                  history=ei in hist_envs)
                else:
                    raise firsts[ei]
            else:
                res = firsts[ei]
                for tid in res:
                    for a in list(res[tid]):
                        if a in dead:
                            del res[tid][a]
        except (RuntimeError, subprocess.TimeoutExpired) as e:
            # the interpreter died or hangs (abort/segfault/deadlock inside a kernel): find the analysis and report it
            res = {}
            found = False
            for name in live:
                for tr in trajs:
                    if name in dead:
                        break
                    try:
                        r1 = run_env(ctx, env, [tr], [name], repeats, perm_seed, timeout=120, history=ei in hist_envs)
                        res.setdefault(tr["id"], {}).update(r1.get(tr["id"], {}))
                    except (RuntimeError, subprocess.TimeoutExpired) as e1:
                        found = True
                        dead.add(name)
                        ctx.fail("per-frame analysis kills or hangs the interpreter under an OpenMP environment (%s)" % name,
                                 {"env": env, "traj": tr, "analysis": name, "repeats": repeats, "perm_seed": perm_seed},
                                 observed=str(e1)[-300:], expected="a result", tags={"analysis": name, "kind": "crash", "explained_by": None})
            if not found:
                ctx.fail("the analyses kill the interpreter when run together under an OpenMP environment (not reproduced one by one)",
                         {"env": env, "traj": trajs[0], "analysis": live[0], "repeats": repeats, "perm_seed": perm_seed},
                         observed=str(e)[-300:], expected="results", tags={"kind": "crash", "explained_by": None})
        en = env_name(env)
        for tid, rr in res.items():
            for a, b in PARALLEL_FLAG_PAIRS:
                if a in rr and b in rr and "company" in rr[a] and "company" in rr[b] and rr[a]["company"] != rr[b]["company"]:
                    ctx.fail("per-frame result differs between parallel=True and parallel=False (%s)" % a,
                             {"env": env, "traj": [t for t in trajs if t["id"] == tid][0], "analysis": a, "repeats": repeats,
                              "perm_seed": perm_seed, "pair": b}, observed="hashes differ", expected="bit-identical",
                             tags={"analysis": a, "kind": "parallel_flag", "explained_by": None})
            for name, rec in rr.items():
                case = {"env": env, "traj": [t for t in all_trajs if t["id"] == tid][0], "analysis": name,
                        "repeats": repeats, "perm_seed": perm_seed, "history": ei in hist_envs}
                F = nf[tid]
                thr = int(env["OMP_NUM_THREADS"])
                ctx.count(case, nontrivial=F >= 2, bucket="%s/%s" % (name, en))
                stats["triples"] += 1
                if "err" in rec:
                    ctx.fail("per-frame analysis raises on a valid trajectory", case, observed=rec["err"], expected="a result",
                             tags={"analysis": name, "kind": "raises"})
                    continue
                stats["hash_comparisons"] += 3 * F + 1
                key = (tid, name)
                if key not in base_alone:
                    base_alone[key] = (rec["alone"], en)
                bad = []
                if rec["alone"] != base_alone[key][0]:
                    bad.append(("threads", "a frame computed alone differs between %s and %s" % (base_alone[key][1], en)))
                if not rec["repeat_equal"]:
                    bad.append(("repeat", "two identical calls in one process differ"))
                fresh = [i for i in range(F) if rec["company"][i] == rec["alone"][i]]
                fresh_p = [i for i in range(F) if rec["perm"][i] == rec["alone"][i]]
                if rec.get("history_equal") is False:
                    bad.append(("history", "the same call gives other bits after the process has served other calls of the same "
                                           "functions (other atom count / cell / parameters)"))
                if rec.get("sub_ok") is False:
                    bad.append(("subselection", "frames differ when a short sub-selection of the trajectory is analysed"))
                if len(fresh) != F:
                    bad.append(("alone", "frames %s differ from the same frames computed alone" % [i for i in range(F) if i not in fresh]))
                if len(fresh_p) != F:
                    bad.append(("perm", "frames %s differ in a permuted trajectory" % [i for i in range(F) if i not in fresh_p]))
                if not bad:
                    continue
                kinds = sorted({k for k, _ in bad})
                if "threads" in kinds:
                    case["base_env"] = envs[0]
                    case["base_history"] = 0 in hist_envs
                    case["context_trajs"] = list(all_trajs)
                if name in SASA and set(kinds) <= {"alone", "perm"}:
                    sasa_obs.append((env, tid, name, F, fresh, fresh_p, rec, case))
                    continue
                ctx.fail("per-frame result is not a function of the frame alone (%s: %s)" % (name, "+".join(kinds)), case,
                         observed={"what": [w for _, w in bad], "dmax_alone": rec.get("dmax_alone"), "dmax_perm": rec.get("dmax_perm")},
                         expected="bit-identical per-frame results", tags={"analysis": name, "kind": "+".join(kinds), "explained_by": None})
    # SASA deviations: are they exactly what the as-found loop predicts?
    if sasa_obs:
        explain_sasa(ctx, sasa_obs)
    ce = ctx.notes.setdefault("coverage_extra", {})
    for k, v in stats.items():
        ce[k] = ce.get(k, 0) + v
    ce["environments"] = sorted({env_name(e) for e in envs} | set(ce.get("environments", [])))
    return bool(sasa_obs)


def explain_sasa(ctx, obs):
    """The as-found kernel predicts: a frame is right iff it is the first one its thread runs (static schedule;
    the permuted trajectory is scheduled the same way, so the frame at permuted position k is right iff k is a block start)."""
    cases = []
    for (env, tid, name, F, fresh, fresh_p, rec, case) in obs:
        thr = int(env["OMP_NUM_THREADS"])
        fn = "static_fresh_matches" if env.get("OMP_DYNAMIC") else "static_fresh_exact"
        cases.append(("(%s, %s, %s, %s)" % (cstr(fn), cnat(F), cnat(thr), clist([cnat(i) for i in fresh])), "true"))
    prelude = ("Definition chk (c : string * nat * nat * list nat) : bool := let '(f, n, t, o) := c in "
               "if String.eqb f \"static_fresh_exact\" then static_fresh_exact n t o else static_fresh_matches n t o.")
    bad, errs = ctx.coq_mismatches(["MD.Sched.ParFor"], ("string * nat * nat * list nat", "bool"), "Bool.eqb", "chk", cases,
                                   prelude=prelude)
    if errs:
        ctx.break_("correspondence:coqc-evaluation", "\n".join(errs))
        return
    for i, (env, tid, name, F, fresh, fresh_p, rec, case) in enumerate(obs):
        arith = carry_arithmetic_ok(rec) if name == "sasa_atom" else True
        if i not in bad and arith:
            ctx.fail(DESC_SASA, case, observed={"frames_equal_to_alone": fresh, "dmax_alone": rec.get("dmax_alone")},
                     expected="every frame equal to the frame computed alone",
                     tags={"analysis": name, "explained_by": "sasa_cur", "kind": "alone+perm"})
        else:
            ctx.fail("shrake_rupley: per-frame result depends on company/order in a way the recorded carry-over does not explain",
                     case, observed={"frames_equal_to_alone": fresh, "arithmetic_matches_carry": arith},
                     expected="first frame of every thread (static schedule) equal, others carried",
                     tags={"analysis": name, "explained_by": None, "kind": "alone+perm"})


def carry_arithmetic_ok(rec):
    """The as-found loop gives company[f] = (company[f-1] + count) * k and alone[f] = count * k with the same
    k = c*r^2 > 0 for an atom in every frame, hence company[f] - alone[f] = k * company[f-1] for every carried frame.
    k is estimated per atom from the carried frame with the largest company[f-1] and the identity is then checked on all
    frames of that atom under the float32 bound 1e-6*company[f] + 1e-3*k*company[f-1].  (With several threads the
    predecessor in the thread is still frame f-1 for every carried frame: static blocks are contiguous.)"""
    comp, alone = rec["values"], rec["values_alone"]
    F = len(comp)
    n = len(comp[0]) if F else 0
    for j in range(n):
        carried = [f for f in range(1, F) if comp[f][j] != alone[f][j]]
        if not carried:
            continue
        fr = max(carried, key=lambda f: comp[f - 1][j])
        if comp[fr - 1][j] <= 0:
            return False
        k = (comp[fr][j] - alone[fr][j]) / comp[fr - 1][j]
        if k <= 0:
            return False
        for f in carried:
            if abs((comp[f][j] - alone[f][j]) - k * comp[f - 1][j]) > 1e-6 * abs(comp[f][j]) + 1e-3 * k * comp[f - 1][j] + 1e-12:
                return False
    return True


def static_findings(ctx):
    v = static_view()
    for s in v["shared"]:
        ctx.fail(DESC_SHARED, {"static": True, "variable": s}, observed="written inside '#pragma omp parallel' without being private",
                 expected="thread-private loop counters / scratch", tags={"kind": "shared_write", "variable": s})
    return v


def correspond(ctx):
    v = static_findings(ctx)
    trajs = trajs_for(ctx)
    fmax = max(n_frames_of(t) for t in trajs)
    envs = envs_for(ctx, fmax)
    ctx.log("environments:", len(envs), "trajectories:", len(trajs))
    carried = sweep(ctx, trajs, envs, ANALYSES, 2 if ctx.tier == "quick" else 3, ctx.rng.randrange(1000))
    # the source-derived skeleton and the observed behaviour must tell the same story
    if v["disciplined"] and carried:
        ctx.break_("correspondence:sasa-skeleton", "sasa.cpp's loop skeleton %s obeys the scratch discipline but the compiled "
                                                    "kernel carries state across frames" % v["tags"])
    if not v["disciplined"] and not carried:
        ctx.break_("correspondence:sasa-skeleton", "sasa.cpp's loop skeleton %s reads the buffer before writing it but no "
                                                    "carry-over was observed" % v["tags"])
    if any(b["name"].startswith("proof:") for b in ctx.broken):
        d = diagnose_kernels(ctx)
        ctx.notes.setdefault("coverage_extra", {})["frame_loop_diagnosis"] = d
        ctx.log("frame-loop diagnosis:", d)
        for b in ctx.broken:
            if b["name"].startswith("proof:"):
                b["detail"] = ("frame-loop terms regenerated from the sources: %s\n" % d) + b["detail"]
    if ctx.tier != "quick":
        stress_shared_counter(ctx)


def stress_shared_counter(ctx):
    """Thorough tier: compile the repository's sasa.cpp without optimisation (so that shared variables live in memory)
    and run many short frames on 16 threads; any entry that differs from the single-thread value is a data race made
    visible.  Only evidence for the static finding - the optimised build keeps the counter in a register."""
    repo = common.REPO
    shim = os.path.join(common.VERIF, "harness/shims/sasa_race.cpp")
    exe = os.path.join(ctx.tmp, "sasa_race")
    cmd = ["g++", "-O0", "--std=c++11", "-fopenmp", "-msse2", "-mssse3", "-w", "-I" + os.path.join(repo, "mdtraj/geometry/include"),
           "-I" + os.path.join(repo, "mdtraj/geometry/src"), "-I" + os.path.join(repo, "mdtraj/geometry/src/kernels"), shim, "-o", exe]
    r = subprocess.run(cmd, stdout=subprocess.PIPE, stderr=subprocess.STDOUT, text=True, timeout=300)
    if r.returncode != 0:
        ctx.log("race shim did not build:", r.stdout[-300:])
        return
    worst = 0
    for _ in range(3):
        e = dict(os.environ, OMP_NUM_THREADS="16")
        o = subprocess.run([exe], stdout=subprocess.PIPE, text=True, timeout=600, env=e).stdout
        m = re.search(r"mismatching entries: (\d+)", o)
        worst = max(worst, int(m.group(1)) if m else 0)
    ctx.notes.setdefault("coverage_extra", {})["O0_stress_mismatching_entries_16_threads"] = worst
    if worst:
        ctx.fail(DESC_SHARED, {"static": False, "shim": "harness/shims/sasa_race.cpp", "flags": "-O0", "threads": 16},
                 observed="%d entries differ from the single-thread result" % worst, expected="0",
                 tags={"kind": "shared_write", "variable": "sasa.cpp:j"})


def search(ctx, broken):
    # a broken proof/tie with no failure yet: widen the sweep (all thread counts x schedules, more repeats)
    trajs = trajs_for(ctx)
    fmax = max(n_frames_of(t) for t in trajs)
    tier, ctx.tier = ctx.tier, "thorough"
    try:
        envs = envs_for(ctx, fmax)
    finally:
        ctx.tier = tier
    sweep(ctx, trajs, envs[:24], ANALYSES, 3, ctx.rng.randrange(1000))


def replay(ctx, rec):
    c = rec["case"]
    if c.get("static") is not None:
        static_findings(ctx)
        if c.get("static") is False:
            stress_shared_counter(ctx)
        return
    names = [c["analysis"]] + ([c["pair"]] if c.get("pair") else [])
    if c.get("base_env") is not None and c["base_env"] != c["env"]:
        # a difference between two processes: rebuild both, each over the trajectories it had served
        trajs = c.get("context_trajs") or [c["traj"]]
        for tr in trajs:
            tr.pop("env_every", None)
        sweep(ctx, trajs, [c["base_env"], c["env"]], names, c.get("repeats", 2), c.get("perm_seed", 1),
              history=bool(c.get("base_history") or c.get("history")))
        return
    sweep(ctx, [c["traj"]], [c["env"]], names, c.get("repeats", 2), c.get("perm_seed", 1), history=bool(c.get("history")))
