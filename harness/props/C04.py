"""C04 — topology transformations preserve atoms, residues, chains and bonds; equal topologies
hash equal; a copy is independent.

Model: coq/Topo/{Model,Carriers,Run}.v (heap of Chain/Residue/Atom objects, bonds hold atom
locations; carriers as functions of the chain-wise value).  Theorems: coq/Props/C04.v.

Tie: random op histories (build a topology, then copy/deepcopy/pickle/subset/join/data frame/
.h5/.pdb round trips, then edits on either side) are executed on real mdtraj objects by
harness/impl/topo_impl.py and, inside coqc, by the model.  The model has one boolean per defect
found in today's code (false = as found, true = minimal repair).  The variant vector of the
implementation is determined by small probes; the implementation must then agree with that one
vector on ALL cases (the tie).  The property itself is the all-repaired model (about which the
theorems are proved): a case where the implementation deviates from it is a property failure,
tagged with the as-found flags that explain it; an unexplained deviation is a violation.
"""
import itertools

import os
import re
import subprocess

from common import COQ, cbool, clist, copt


def cz(n):           # Z_scope is open in the generated files
    n = int(n)
    return str(n) if n >= 0 else "(%d)" % n


def cnat(n):
    return "%d%%nat" % int(n)


def cstr(s):         # string_scope is open in the generated files
    return '"' + s.replace('"', '""') + '"'

LEVEL = "proof"
THEOREMS = "Props/C04.v"
EXTS = []
RULE = ("random topologies (1-3 chains with explicit/absent/empty/2-char chain ids, 0-3 residues per chain with "
        "repeated resSeq incl. 0 and negative, default resSeq, long names, segment ids, 0-4 atoms per residue with "
        "duplicate names, elements H/D (shared atomic number)/C/N/O/S/P/halogens/metals/two-letter symbols/virtual sites "
        "(compared by identity with the module singleton, name, atomic number and mass), absent/non-contiguous/duplicate/large serials, occasionally built out of "
        "chain order; residue names from the PDB writer's standard list next to hetero names, in 12% of the cases "
        "standard residues with the atom names of residues.xml (so that the reader regenerates standard bonds); typed/ordered/duplicate bonds across residues and chains; in a quarter of the cases a second "
        "independent topology, in another quarter a twin differing in at most one attribute or in bond insertion order) "
        "followed by 1-7 ops from "
        "{copy, copy.copy, deepcopy, Trajectory slice, pickle (protocol 2, highest, pickled Trajectory), subset(list/array/atom_slice), join/stack(keep_resSeq), "
        "to/from_dataframe, save+load .h5, save+load .pdb(ter) -- each also as a SECOND store into a carrier that already "
        "holds another (often ==-equal twin) topology: .h5 appended (mode='a'), rewritten, topology attribute set twice; the "
        "same .pdb path; data frames used repeatedly; the last stored topology must come back --, add_chain/add_residue/add_atom/add_bond/insert_atom/"
        "delete_atom_by_index on any topology}; subset index lists ascending (60%), descending or unsorted with repeated "
        "indices; hash() observer ops at random points of the history (ignored by the model) and a stream 'hash first, copy, edit both identically with every count restored'; .pdb and plain .h5 saves with 1-3 frames (MODEL/ENDMDL blocks, one CONECT block after the last model); observed: chain-wise dump with back pointers, _atoms/_residues list "
        "order, counters, bonds with identity facts, == and hash-equality matrices; a case is non-trivial when it "
        "has a transformation and at least two atoms; distinct by hash of the concrete op list.  On the live objects of "
        "every case, model-free: Atom.__eq__ = equality of the six fields of the model's atom_eqb, Bond ==/</<=/>/>= = "
        "comparisons of (index, index, float(type), order) with an independent type table, equal atoms/bonds/residue "
        "fields/chain indices hash equal, sorted(bonds) sorts by that tuple; md.load(file, atom_indices=k).topology = "
        "md.load(file).topology.subset(k) for .h5 and .pdb; from_dataframe with a 2-column bond array / bonds=None = "
        "from_dataframe of the 4-column array with type and order erased / of no bonds")
TRUSTED = ["harness/impl/topo_impl.py (concretises abstract ops against the live objects, dumps topologies)",
           "generator and flag probes in harness/props/C04.py",
           "bulk evaluation of the Gallina model uses its OCaml extraction (ExtrOcamlBasic/ExtrOcamlString, "
           "harness/impl/topo_driver.ml); every run cross-checks it against vm_compute inside coqc on the probe cases",
           "pandas, PyTables/HDF5, json, pickle are exercised, not modelled: the model describes what mdtraj puts in / takes out"]
ASSUMPTIONS = ["hash() is modelled by the tuples that are hashed, xor-combined; distinct tuples are taken to have distinct hashes",
               "PDB runs of the model stream: the model covers the writer (incl. the standardResidues CONECT filter) and the reader "
               "incl. create_standard_bonds with the table regenerated from residues.xml (coq/Gen/TopoStdBonds.v); NOT modelled are "
               "the reader's renaming tables pdbNames.xml (runs use canonical residue names and atom names that the tables leave "
               "unchanged), distance-based disulfide detection (atoms are written 1 nm apart), element guessing (existing symbols), "
               "hybrid-36/hex numbering (|resSeq| < 9999 or = 10005, serials < 10^5 after the modulo), empty residues",
               "an op that raises is assumed to leave existing objects unchanged (the generated guards keep raising ops to "
               "delete out of range and join(keep_resSeq=False) onto an empty topology, plus KeyErrors caused by aliasing)"]

FLAGS = ["cid_copy", "cid_join", "cid_subset", "repoint", "resseq0", "remove_id", "del_bonds", "hash",
         "conect_num", "conect_del", "h5_full", "df_serial"]
DESC = {
    "cid_copy": "Topology.copy()/deepcopy/Trajectory slicing loses every chain_id",
    "cid_join": "Topology.join()/Trajectory.stack loses the chain_id of the joined chains",
    "cid_subset": "Topology.subset()/atom_slice loses every chain_id",
    "repoint": "bonds of Topology.copy() point at the SOURCE's atoms (copy aliases the source)",
    "resseq0": "subset() replaces resSeq 0 by the residue index",
    "remove_id": "delete_atom_by_index removes the first EQUAL atom from the residue, not the atom itself",
    "del_bonds": "delete_atom_by_index leaves the bonds of the deleted atom in the topology",
    "hash": "topologies that compare equal hash differently (resSeq/segment_id/bond insertion order enter the hash only)",
    "conect_num": "PDB CONECT records use positional numbers while ATOM records use atom.serial (or start at 0 without TER)",
    "conect_del": "PDB CONECT continuation drops a bond of atoms with more than four partners",
    "h5_full": "HDF5 topology JSON drops serial, chain_id, bond type and bond order",
    "df_serial": "to_dataframe/from_dataframe turns a missing serial into float NaN when other atoms have serials "
                 "(a later save_pdb of a single-chain topology then raises ValueError)",
}

RES_NAMES = ["LIG", "XXA", "UNK", "MOL", "LONGN", "AB", "LIG", "ALA", "GLY", "HOH", "DA", "CYS"]
STD_NAMES = {"ALA", "GLY", "HOH", "DA", "CYS"}        # names in the PDB writer's standardResidues list
SAFE_ATOM_NAMES = ["C1", "C2", "M", "S1", "X9", "C1"]   # names the PDB reader's tables do not know
ATOM_NAMES = ["C1", "C2", "N", "O", "H", "H", "CA", "HX12L", "M", "S1"]
# H and D share an atomic number; VS is the virtual-site singleton (VS0: passed as element=None); two-letter symbols,
# metals, halogens
ELEMS = ["C", "N", "O", "H", "D", "S", "P", "VS", "VS0", "Cl", "Br", "F", "I", "Zn", "Fe", "Na", "Mg", "K", "Ca", "Se", "D", "H"]
CHAIN_IDS = [None, None, "A", "B", "X", "", "QR", "A"]
SEGS = ["", "", "S1", "SEGLONG"]
RESSEQS = [None, 0, 0, 1, 5, 5, 7, -3, 42, 10005]
TYPES = [None, None, "Single", "Double", "Triple", "Aromatic", "Amide"]
ORDERS = [None, None, 1, 2, 3]


# ---------------------------------------------------------------------------- translator
def translate(ctx):
    """coq/Gen/TopoStdBonds.v: the table create_standard_bonds() uses, regenerated from /repo's residues.xml."""
    import xml.etree.ElementTree as etree
    from common import REPO
    tree = etree.parse(os.path.join(REPO, "mdtraj/formats/pdb/data/residues.xml"))
    out = ["(* GENERATED by harness/props/C04.py:translate from mdtraj/formats/pdb/data/residues.xml - do not edit.",
           "   The bonds Topology.create_standard_bonds() adds per residue name: (from, to) atom names; a leading",
           "   '-' refers to the previous residue of the chain. *)",
           "From Coq Require Import String List.", "Import ListNotations.", "Open Scope string_scope.", "",
           "Definition std_bonds : list (string * list (string * string)) := ["]
    rows = []
    for res in tree.getroot().findall("Residue"):
        bonds = []
        for b in res.findall("Bond"):
            f, t = b.attrib["from"], b.attrib["to"]
            if f.startswith("+") or t.startswith("+") or '"' in f + t:
                raise ValueError("residues.xml: unsupported bond %r" % ((f, t),))
            bonds.append('("%s", "%s")' % (f, t))
        rows.append('  ("%s", [%s])' % (res.attrib["name"], "; ".join(bonds)))
    out.append(";\n".join(rows))
    out.append("].")
    ctx.write_gen("Gen/TopoStdBonds.v", "\n".join(out) + "\n")


# ---------------------------------------------------------------------------- generators
def gen_base(rng, slot, out_of_order):
    """Concrete ops building one topology in slot `slot`."""
    ops = [["new"]]
    nres = 0
    natoms = 0
    res_list = []
    nch = rng.choice([1, 1, 2, 2, 3])
    serial = rng.choice([None, 1, 10, 100003])
    for c in range(nch):
        ops.append(["add_chain", slot, rng.choice(CHAIN_IDS)])
        for _ in range(rng.choice([0, 1, 1, 2, 2, 3])):
            rname = rng.choice(RES_NAMES)
            ops.append(["add_residue", slot, c, rname, rng.choice(RESSEQS), rng.choice(SEGS)])
            pool = SAFE_ATOM_NAMES if rname in STD_NAMES else ATOM_NAMES
            rp = nres
            nres += 1
            res_list.append(rp)
            for _ in range(rng.choice([0, 1, 1, 2, 3, 4])):
                tgt = rp
                if out_of_order and rng.random() < 0.3:
                    tgt = rng.choice(res_list)
                ser = None
                if serial is not None and rng.random() < 0.85:
                    ser = serial
                    serial += rng.choice([0, 1, 1, 1, 2, 7])
                ops.append(["add_atom", slot, tgt, rng.choice(pool), rng.choice(ELEMS), ser])
                natoms += 1
    if natoms >= 2:
        for _ in range(rng.choice([0, 1, 2, 3, 5, 8])):
            i, j = rng.sample(range(natoms), 2)
            ty = rng.choice(TYPES)
            ops.append(["add_bond", slot, i, j, ty, rng.choice(ORDERS)])
    return ops


def gen_tail(rng, n):
    """Abstract ops (fractions are concretised by the runner against the live objects)."""
    ops = []
    f = rng.random
    for _ in range(n):
        k = rng.choice(["copy", "copy", "subset", "subset", "join", "pickle", "df", "h5", "pdb", "edit", "edit", "edit", "hash"])
        if k == "hash":
            ops.append(["hash", f()])
        elif k == "copy":
            ops.append(["copy", f(), rng.choice(["copy", "copy.copy", "deepcopy", "traj_slice"])])
        elif k == "subset":
            dens = rng.choice([0.3, 0.6, 0.9])
            # order of the index list: ascending, descending, or unsorted with repeated indices (the code tests
            # "atom.index in atom_indices", theorem subset_v_same_set)
            ops.append(["subset", f(), [rng.random() < dens for _ in range(16)], rng.choice(["list", "array", "atom_slice"]),
                        rng.choice(["asc", "asc", "asc", "desc", "dup"])])
        elif k == "join":
            ops.append(["join", f(), f(), rng.random() < 0.5, rng.choice(["join", "stack"])])
        elif k == "pdb":
            # frames: a multi-frame save writes MODEL/ENDMDL blocks and one CONECT block after the last model
            ops.append(["pdb", f(), rng.random() < 0.8, f() if rng.random() < 0.4 else None, rng.choice([1, 1, 2, 3])])
        elif k == "pickle":
            ops.append(["pickle", f(), rng.choice(["p2", "phigh", "traj"])])
        elif k == "df":
            ops.append(["df", f(), f() if rng.random() < 0.4 else None])
        elif k == "h5":
            ops.append(["h5", f(), f() if rng.random() < 0.5 else None, rng.choice(["a", "a", "w", "setter", "handle", "iter"]),
                        rng.choice([1, 1, 2, 3])])
        else:
            e = rng.choice(["insert_atom", "insert_atom", "delete", "delete", "add_bond", "add_atom", "add_residue",
                            "add_chain"])
            if e == "insert_atom":
                ops.append(["insert_atom", f(), f(), rng.choice(ATOM_NAMES), rng.choice(ELEMS),
                            None if rng.random() < 0.3 else f(), None if rng.random() < 0.4 else f(),
                            rng.choice([None, 7, 55])])
            elif e == "delete":
                ops.append(["delete", f(), f()])
            elif e == "add_bond":
                ops.append(["add_bond", f(), f(), f(), rng.choice(TYPES), rng.choice(ORDERS)])
            elif e == "add_atom":
                ops.append(["add_atom", f(), f(), rng.choice(ATOM_NAMES), rng.choice(ELEMS), rng.choice([None, 9, 77])])
            elif e == "add_residue":
                ops.append(["add_residue", f(), f(), rng.choice(RES_NAMES), rng.choice(RESSEQS), rng.choice(SEGS)])
            else:
                ops.append(["add_chain", f(), rng.choice(CHAIN_IDS)])
    return ops


def gen_twin(rng, base):
    """The same construction in slot 1 with (usually) one field changed: exercises == and hash on
    topologies that are equal or differ in exactly one attribute."""
    twin = [list(o) for o in base]
    for o in twin:
        if o[0] != "new":
            o[1] = 1
    cand = [i for i, o in enumerate(twin) if o[0] in ("add_atom", "add_residue", "add_chain", "add_bond")]
    if cand and rng.random() < 0.85:
        o = twin[rng.choice(cand)]
        if o[0] == "add_atom":
            k = rng.choice([3, 4, 5])
            o[k] = rng.choice(ATOM_NAMES) if k == 3 else rng.choice(ELEMS) if k == 4 else rng.choice([None, 3, 1234])
        elif o[0] == "add_residue":
            k = rng.choice([3, 4, 5])
            o[k] = rng.choice(RES_NAMES) if k == 3 else rng.choice(RESSEQS) if k == 4 else rng.choice(SEGS)
        elif o[0] == "add_chain":
            o[2] = rng.choice(CHAIN_IDS)
        else:
            k = rng.choice([4, 5])
            o[k] = rng.choice(TYPES) if k == 4 else rng.choice(ORDERS)
    if rng.random() < 0.3:      # same bonds, other insertion order
        bi = [i for i, o in enumerate(twin) if o[0] == "add_bond"]
        if len(bi) >= 2:
            vals = [twin[i] for i in bi]
            rng.shuffle(vals)
            for i, v in zip(bi, vals):
                twin[i] = v
    return twin


def gen_std_base(rng, tables):
    """Standard residues with the atom names of mdtraj's residues.xml next to hetero residues, explicit bonds of
    every kind (some of the standard ones, disulfide, standard-hetero, hetero-hetero, a non-standard
    standard-standard one); meant for the .pdb round trip, where the reader regenerates the standard bonds."""
    std_atoms = tables["std_atoms"]
    ops = [["new"]]
    atoms = []      # (res index, res name, atom name)
    nres = 0
    resseq = rng.choice([1, 20])
    for ci in range(rng.choice([1, 2, 2, 3])):
        ops.append(["add_chain", 0, rng.choice([None, "A", "B", "X"])])
        for _ in range(rng.choice([1, 2, 3])):
            if rng.random() < 0.65:
                name = rng.choice([n for n in PDB_STD if n in std_atoms])
                names = std_atoms[name][:rng.randint(2, min(8, len(std_atoms[name])))]
                if name == "CYS" and "SG" not in names:
                    names = names + ["SG"]
            else:
                name = rng.choice(tables["hetero_ok"])
                pool = HET_ATOMS.get(name, HET_ATOMS["default"])
                names = pool[:rng.randint(1, len(pool))]
            ops.append(["add_residue", 0, ci, name, resseq, rng.choice(["", "S1"])])
            for an in names:
                sym = "Zn" if an == "ZN" else an[0]
                ops.append(["add_atom", 0, nres, an, sym, None])
                atoms.append((nres, name, an))
            resseq += rng.choice([1, 1, 5])
            nres += 1
    n = len(atoms)
    if n >= 2:
        for _ in range(rng.choice([1, 2, 3, 4, 6])):
            i, j = rng.sample(range(n), 2)
            ops.append(["add_bond", 0, i, j, rng.choice(TYPES), rng.choice(ORDERS)])
        sg = [i for i, a in enumerate(atoms) if a[1] == "CYS" and a[2] == "SG"]
        if len(sg) >= 2 and rng.random() < 0.7:
            i, j = rng.sample(sg, 2)
            ops.append(["add_bond", 0, i, j, None, None])
    return ops


def gen_carrier_history(rng):
    """A topology and a twin that == cannot tell from it (other resSeq / segment id / serial / chain id, or the same
    bonds added in another order), then the twin is stored into a carrier that already holds the first one
    (.h5 appended / rewritten / attribute stored twice, the same .pdb path, data frames used repeatedly):
    what comes back must be the topology stored LAST."""
    base = gen_base(rng, 0, False)
    twin = [list(o) for o in base]
    for o in twin:
        if o[0] != "new":
            o[1] = 1
    for _ in range(rng.choice([1, 1, 2])):
        kind = rng.choice(["resSeq", "resSeq", "seg", "seg", "serial", "chain_id", "bond_order"])
        if kind in ("resSeq", "seg"):
            cand = [o for o in twin if o[0] == "add_residue"]
            if cand:
                o = rng.choice(cand)
                if kind == "resSeq":
                    o[4] = (o[4] or 0) + rng.choice([1, 10, 500])
                else:
                    o[5] = rng.choice([x for x in ["", "S1", "SEGB"] if x != o[5]])
        elif kind == "serial":
            cand = [o for o in twin if o[0] == "add_atom"]
            if cand:
                o = rng.choice(cand)
                o[5] = (o[5] or 0) + 1000
        elif kind == "chain_id":
            cand = [o for o in twin if o[0] == "add_chain"]
            if cand:
                o = rng.choice(cand)
                o[2] = rng.choice([x for x in ["A", "B", "Z"] if x != o[2]])
        else:
            bi = [i for i, o in enumerate(twin) if o[0] == "add_bond"]
            if len(bi) >= 2:
                vals = [twin[i] for i in bi][::-1]
                for i, v in zip(bi, vals):
                    twin[i] = v
    second, first = 0.75, 0.25          # with two topologies: slot 1 stored after slot 0
    car = rng.choice(["h5a", "h5a", "h5set", "h5set", "h5w", "pdb", "df"])
    tail = {"h5a": ["h5", second, first, "a"], "h5set": ["h5", second, first, "setter"], "h5w": ["h5", second, first, "w"],
            "pdb": ["pdb", second, rng.random() < 0.8, first], "df": ["df", second, first]}[car]
    return {"ops": base + twin, "tail": [tail] + gen_tail(rng, rng.randint(0, 2))}


def gen_hash_history(rng):
    """hash() is an observer inside the history: a topology is hashed (dict key) FIRST, a copy is taken, then both
    are edited identically by a sequence that restores every count (delete an atom, insert another one elsewhere)
    while renumbering bonded atoms; more observers at random points.  At the end the registers are ==-equal, so
    their hashes must agree -- including the side that was hashed before its edits."""
    while True:
        base = gen_base(rng, 0, False)
        natoms = sum(1 for o in base if o[0] == "add_atom")
        nres = sum(1 for o in base if o[0] == "add_residue")
        bonds = [(o[2], o[3]) for o in base if o[0] == "add_bond"]
        if natoms >= 3 and bonds:
            break
    bonded = {i for b in bonds for i in b}
    free = [i for i in range(natoms) if i not in bonded and i < max(bonded)]
    ops = list(base)
    ops.append(["hash", 0])
    ops.append(["copy", 0, rng.choice(["copy", "deepcopy"])])
    if rng.random() < 0.3:
        ops.append(["hash", 1])
    edits = []
    for _ in range(rng.choice([1, 1, 2])):
        i = rng.choice(free) if free and rng.random() < 0.8 else rng.randrange(natoms)
        j = rng.randrange(natoms)            # n_atoms - 1 atoms after the deletion: any index 0..n_atoms-1 is legal
        edits.append((i, [rng.randrange(nres), rng.choice(ATOM_NAMES), rng.choice(ELEMS), j, None, rng.choice([None, 7])]))
    order = rng.choice(["first0", "first1", "interleaved"])
    def seq(s):
        out = []
        for i, ins in edits:
            out.append(["delete", s, i])
            out.append(["insert_atom", s] + ins)
        return out
    if order == "first0":
        ops += seq(0) + seq(1)
    elif order == "first1":
        ops += seq(1) + seq(0)
    else:
        a, b = seq(0), seq(1)
        for x, y in zip(a, b):
            ops += [x, y]
    if rng.random() < 0.4:
        ops.append(["hash", rng.choice([0, 1])])
    if rng.random() < 0.4:
        ops.append(["copy", 0, "copy"])
    return {"ops": ops, "concrete": True}


def model_ops(ops):
    """The op list the model sees: hash observers are dropped (they have no status entry either)."""
    return [o for o in ops if o[0] != "hash"]


def gen_case(rng, tables=None):
    if tables is not None and rng.random() < 0.12:
        tail = [["pdb", 0.0, rng.random() < 0.7]] + gen_tail(rng, rng.randint(0, 3))
        return {"ops": gen_std_base(rng, tables), "tail": tail}
    base = gen_base(rng, 0, rng.random() < 0.15)
    r = rng.random()
    if r < 0.25:
        base = base + gen_base(rng, 1, False)
    elif r < 0.5:
        base = base + gen_twin(rng, base)
    return {"ops": base, "tail": gen_tail(rng, rng.randint(1, 7))}


def small_topologies(max_atoms):
    """All shapes with <= max_atoms atoms: compositions into residues, residues into chains; with a fixed
    labelling that makes every atom/residue/chain distinguishable, chain ids, one zero resSeq, a bond chain."""
    for n in range(1, max_atoms + 1):
        for cuts_r in itertools.product([0, 1], repeat=n - 1):          # residue boundaries between atoms
            sizes = []
            cur = 1
            for c in cuts_r:
                if c:
                    sizes.append(cur)
                    cur = 1
                else:
                    cur += 1
            sizes.append(cur)
            for cuts_c in itertools.product([0, 1], repeat=len(sizes) - 1):   # chain boundaries between residues
                ops = [["new"], ["add_chain", 0, "A"]]
                ch = 0
                a = 0
                for ri, sz in enumerate(sizes):
                    if ri > 0 and cuts_c[ri - 1]:
                        ch += 1
                        ops.append(["add_chain", 0, "BCD"[ch - 1]])
                    ops.append(["add_residue", 0, ch, "R%d" % ri + "X", [0, 7, 7, 3][ri], "S%d" % (ri % 2)])
                    for _ in range(sz):
                        ops.append(["add_atom", 0, ri, "C%d" % a, ["C", "N", "O", "VS"][a], 10 + 3 * a])
                        a += 1
                for i in range(n - 1):
                    ops.append(["add_bond", 0, i, i + 1, ["Single", None, "Double"][i], [1, None, 2][i]])
                if n >= 3:
                    ops.append(["add_bond", 0, n - 1, 0, "Aromatic", None])
                yield n, ops


# ---------------------------------------------------------------------------- Coq printers
def cflags(v):
    return "(Build_flags %s)" % " ".join(cbool(v[f]) for f in FLAGS)


def ctype(t):
    return "None" if t is None else "(Some %s)" % t


def csym(s):
    return cstr("VS" if s == "VS0" else s)


def coq_op(o):
    k = o[0]
    if k == "new":
        return "ONew"
    if k == "add_chain":
        return "OAddChain %s %s" % (cnat(o[1]), copt(o[2], cstr))
    if k == "add_residue":
        return "OAddResidue %s %s %s %s %s" % (cnat(o[1]), cnat(o[2]), cstr(o[3]), copt(o[4], cz), cstr(o[5]))
    if k == "add_atom":
        return "OAddAtom %s %s %s %s %s" % (cnat(o[1]), cnat(o[2]), cstr(o[3]), csym(o[4]), copt(o[5], cz))
    if k == "add_bond":
        return "OAddBond %s %s %s %s %s" % (cnat(o[1]), cnat(o[2]), cnat(o[3]), ctype(o[4]), copt(o[5], cnat))
    if k == "insert_atom":
        return "OInsertAtom %s %s %s %s %s %s %s" % (cnat(o[1]), cnat(o[2]), cstr(o[3]), csym(o[4]), copt(o[5], cnat),
                                                   copt(o[6], cnat), copt(o[7], cz))
    if k == "delete":
        return "ODelete %s %s" % (cnat(o[1]), cnat(o[2]))
    if k == "copy":
        return "OCopy %s" % cnat(o[1])
    if k == "subset":
        return "OSubset %s %s" % (cnat(o[1]), clist(o[2], cnat))
    if k == "join":
        return "OJoin %s %s %s" % (cnat(o[1]), cnat(o[2]), cbool(o[3]))
    if k == "pickle":
        return "OPickle %s" % cnat(o[1])
    if k == "df":
        return "ODataFrame %s" % cnat(o[1])
    if k == "h5":
        return "OH5 %s" % cnat(o[1])
    if k == "pdb":
        return "OPdb %s %s" % (cnat(o[1]), cbool(o[2]))
    raise ValueError(o)


def cjv(x):
    if x is None:
        return "JNone"
    if isinstance(x, bool):
        return "JB %s" % cbool(x)
    if isinstance(x, int):
        return "JN %s" % cz(x)
    if isinstance(x, str):
        return "JS %s" % cstr(x)
    return "JL [%s]" % "; ".join(cjv(y) for y in x)


def coq_case(v, ops):
    return "(%s, %s)" % (cflags(v), clist(["(%s)" % coq_op(o) for o in model_ops(ops)]))


REQ = ["MD.Topo.Model", "MD.Topo.Carriers", "MD.Topo.Run"]


HEADER = ["From Coq Require Import String Ascii.", "From Coq Require Import ZArith List Bool.",
          "Import ListNotations.", "Require Import MD.Topo.Model MD.Topo.Carriers MD.Topo.Run.",
          "Open Scope string_scope.", "Open Scope Z_scope."]


def run_coq_files(ctx, files, tag):
    """Run coqc on the files (6 at a time); returns (list of output tails after the tag, errors)."""
    outs, errs = [], []
    running = []
    todo = list(files)
    while todo or running:
        while todo and len(running) < 6:
            p = todo.pop(0)
            running.append(subprocess.Popen(["timeout", "1500", "coqc", "-Q", COQ, "MD", p], cwd=ctx.tmp,
                                            stdout=subprocess.PIPE, stderr=subprocess.STDOUT, text=True))
        pr = running.pop(0)
        out = pr.communicate()[0]
        i = out.find('"%s"' % tag)
        if pr.returncode != 0 or i < 0:
            errs.append(out[-3000:])
        else:
            outs.append(out[i:])
    return outs, errs


def model_agrees(ctx, jobs):
    """jobs: list of (flag vector, concrete ops, impl obs) -> list of bools (model output == obs)."""
    lines = HEADER + ["Definition cases : list (nat * (flags * list op) * jv) := ["]
    lines.append(";\n".join("(%d%%nat, %s, %s)" % (i, coq_case(v, ops), cjv(obs)) for i, (v, ops, obs) in enumerate(jobs)))
    lines += ["].", 'Definition tag := "AGREE".',
              "Eval vm_compute in (tag, map (fun c => fst (fst c)) (filter (fun c => jv_eqb (run_case (snd (fst c))) (snd c)) cases))."]
    p = os.path.join(ctx.tmp, "agree_%d.v" % len(os.listdir(ctx.tmp)))
    with open(p, "w") as fh:
        fh.write("\n".join(lines) + "\n")
    outs, errs = run_coq_files(ctx, [p], "AGREE")
    if errs:
        ctx.break_("correspondence:coqc-evaluation", "\n".join(errs))
        return None
    good = {int(x) for x in re.findall(r"(\d+)%nat", outs[0])}
    return [i in good for i in range(len(jobs))]


# ---------------------------------------------------------------------------- probes for the variant vector
def _b(slot, *ops):
    return [["new"]] + [o for o in ops]


PROBES = {
    "cid_copy": (["cid_copy"], [["new"], ["add_chain", 0, "X"], ["add_residue", 0, 0, "LIG", 4, ""],
                                ["add_atom", 0, 0, "C1", "C", 5], ["copy", 0, "copy"]]),
    "repoint": (["repoint"], [["new"], ["add_chain", 0, None], ["add_residue", 0, 0, "LIG", 4, ""],
                              ["add_atom", 0, 0, "C1", "C", 5], ["add_atom", 0, 0, "C2", "C", 6],
                              ["add_bond", 0, 0, 1, "Single", 1], ["copy", 0, "copy"]]),
    "cid_join": (["cid_copy", "cid_join"], [["new"], ["add_chain", 0, "X"], ["add_residue", 0, 0, "LIG", 4, ""],
                                            ["add_atom", 0, 0, "C1", "C", 5], ["join", 0, 0, True, "join"]]),
    "cid_subset": (["cid_subset"], [["new"], ["add_chain", 0, "X"], ["add_residue", 0, 0, "LIG", 4, ""],
                                    ["add_atom", 0, 0, "C1", "C", 5], ["subset", 0, [0], "list"]]),
    "resseq0": (["resseq0"], [["new"], ["add_chain", 0, None], ["add_residue", 0, 0, "LIG", 4, ""],
                              ["add_atom", 0, 0, "C1", "C", 5], ["add_residue", 0, 0, "LIG", 0, ""],
                              ["add_atom", 0, 1, "C1", "C", 6], ["subset", 0, [0, 1], "list"]]),
    "remove_id": (["remove_id"], [["new"], ["add_chain", 0, None], ["add_residue", 0, 0, "LIG", 4, ""],
                                  ["add_atom", 0, 0, "H", "H", 5], ["insert_atom", 0, 0, "H", "H", None, 0, 6],
                                  ["delete", 0, 0]]),
    "del_bonds": (["del_bonds"], [["new"], ["add_chain", 0, None], ["add_residue", 0, 0, "LIG", 4, ""],
                                  ["add_atom", 0, 0, "C1", "C", 5], ["add_atom", 0, 0, "C2", "C", 6],
                                  ["add_atom", 0, 0, "C3", "C", 7], ["add_bond", 0, 0, 1, None, None],
                                  ["add_bond", 0, 1, 2, None, None], ["delete", 0, 0]]),
    "hash": (["hash"], [["new"], ["add_chain", 0, None], ["add_residue", 0, 0, "LIG", 4, ""],
                        ["add_atom", 0, 0, "C1", "C", 5], ["new"], ["add_chain", 1, None],
                        ["add_residue", 1, 0, "LIG", 9, "S"], ["add_atom", 1, 0, "C1", "C", 5]]),
    "conect_num": (["conect_num"], [["new"], ["add_chain", 0, "A"], ["add_residue", 0, 0, "LIG", 4, ""],
                                    ["add_atom", 0, 0, "C1", "C", 5], ["add_atom", 0, 0, "C2", "C", 9],
                                    ["add_bond", 0, 0, 1, None, None], ["pdb", 0, True]]),
    "conect_del": (["conect_del"], [["new"], ["add_chain", 0, "A"], ["add_residue", 0, 0, "LIG", 4, ""]] +
                   [["add_atom", 0, 0, "C%d" % i, "C", None] for i in range(10)] +
                   [["add_bond", 0, i, j, None, None] for i, j in
                    [(0, 2), (0, 3), (0, 4), (1, 6), (1, 7), (1, 8), (0, 1), (0, 5), (1, 9)]] + [["pdb", 0, True]]),
    "h5_full": (["h5_full"], [["new"], ["add_chain", 0, "X"], ["add_residue", 0, 0, "LIG", 4, ""],
                              ["add_atom", 0, 0, "C1", "C", 5], ["add_atom", 0, 0, "C2", "C", 9],
                              ["add_bond", 0, 0, 1, "Double", 2], ["h5", 0]]),
    "df_serial": (["df_serial"], [["new"], ["add_chain", 0, None], ["add_residue", 0, 0, "LIG", 4, ""],
                                  ["add_atom", 0, 0, "C1", "C", 5], ["add_atom", 0, 0, "C2", "C", None], ["df", 0]]),
}
# the hash probe comes first: every probe with two topologies also shows the hash-equality matrix
PROBE_ORDER = ["hash", "cid_copy", "repoint", "cid_join", "cid_subset", "resseq0", "remove_id", "del_bonds",
               "conect_num", "conect_del", "h5_full", "df_serial"]


def run_impl(ctx, cases):
    res = ctx.run_impl("topo_impl.py", {"cases": cases})
    tot = ctx.notes.setdefault("coverage_extra", {}).setdefault("model_free_laws_evaluated", {})
    for k, v in (res.get("law_counts") or {}).items():
        tot[k] = tot.get(k, 0) + int(v)
    return res["results"]


def axes_of(ops):
    """Which of the axes added in the deepening round a concrete op list exercises (printed into the evidence)."""
    out = []
    for o in ops:
        if o[0] == "subset":
            k = [int(i) for i in o[2]]
            if len(set(k)) < len(k):
                out.append("subset:repeated-indices")
            elif k != sorted(k):
                out.append("subset:descending")
            else:
                out.append("subset:ascending")
        elif o[0] == "hash":
            out.append("hash-observer")
        elif o[0] == "pdb":
            out.append("pdb:frames=%d" % (o[4] if len(o) > 4 else 1))
        elif o[0] == "h5":
            mode = o[3] if len(o) > 3 else "w"
            plain = (o[2] if len(o) > 2 else None) is None and mode not in ("handle", "iter")
            out.append("h5:%s%s" % ("plain" if plain else mode, ",frames=%d" % o[4] if plain and len(o) > 4 else ""))
    return out


def detect_flags(ctx):
    names = PROBE_ORDER
    outs = run_impl(ctx, [{"ops": PROBES[n][1], "concrete": True} for n in names])
    jobs = []
    key = []
    for n, o in zip(names, outs):
        deps, ops = PROBES[n]
        deps = deps + [f for f in ("hash",) if f not in deps]
        for bits in itertools.product([False, True], repeat=len(deps)):
            v = {f: False for f in FLAGS}
            v.update(dict(zip(deps, bits)))
            jobs.append((v, ops, o["obs"]))
            key.append((n, dict(zip(deps, bits))))
    ok = model_agrees(ctx, jobs)            # vm_compute inside coqc
    if ok is None:
        return None
    ex = model_outputs(ctx, [(v, ops) for v, ops, _o in jobs])     # OCaml extraction of the same definitions
    if ex is None:
        return None
    for (v, ops, o), good, line in zip(jobs, ok, ex):
        if good != (line == show(o)):
            ctx.break_("correspondence:extraction-vs-vm_compute", "the extracted model and vm_compute disagree on %s" % ops)
    det = {}
    for n in names:
        cands = [k for (nn, k), good in zip(key, ok) if nn == n and good]
        cands = [k for k in cands if all(det.get(f, k[f]) == k[f] for f in k if f != n)]
        if len(cands) == 1 or (cands and all(c[n] == cands[0][n] for c in cands)):
            det[n] = cands[0][n]
        else:
            det[n] = False
            ctx.break_("correspondence:probe[%s]" % n,
                       "neither the as-found nor the repaired variant reproduces the implementation on the probe %s -> %s"
                       % (PROBES[n][1], outs[names.index(n)]["obs"]))
    return det


# ---------------------------------------------------------------------------- the check
def nontrivial(ops):
    kinds = {o[0] for o in ops}
    natoms = sum(1 for o in ops if o[0] in ("add_atom", "insert_atom"))
    return natoms >= 2 and bool(kinds & {"copy", "subset", "join", "pickle", "df", "h5", "pdb"})


def bucket(ops):
    kinds = [o[0] for o in ops if o[0] in ("copy", "subset", "join", "pickle", "df", "h5", "pdb")]
    edits = any(o[0] in ("insert_atom", "delete") for o in ops)
    return "%s%s" % ("+".join(sorted(set(kinds))) or "build-only", "/edit" if edits else "")


RELEVANT = {"cid_copy": {"copy", "join"}, "cid_join": {"join"}, "cid_subset": {"subset"}, "repoint": {"copy", "join"},
            "resseq0": {"subset"}, "remove_id": {"delete"}, "del_bonds": {"delete"}, "hash": None,
            "conect_num": {"pdb"}, "conect_del": {"pdb"}, "h5_full": {"h5"}, "df_serial": {"df"}}


# ---------------------------------------------------------------------------- extracted model (bulk evaluation)
def show(x):
    """Canonical rendering of an observation; harness/impl/topo_driver.ml renders the model's jv the same way."""
    if x is None:
        return "~"
    if isinstance(x, bool):
        return "T" if x else "F"
    if isinstance(x, int):
        return str(x)
    if isinstance(x, str):
        return "'" + x + "'"
    return "[" + ",".join(show(y) for y in x) + "]"


def line_op(o):
    def st(x):
        return "~" if x is None else "s:" + ("VS" if x == "VS0" else x)

    def nn(x):
        return "~" if x is None else str(int(x))
    k = o[0]
    if k == "new":
        return "new"
    if k == "add_chain":
        return "add_chain %d %s" % (o[1], st(o[2]))
    if k == "add_residue":
        return "add_residue %d %d %s %s %s" % (o[1], o[2], st(o[3]), nn(o[4]), st(o[5]))
    if k == "add_atom":
        return "add_atom %d %d %s %s %s" % (o[1], o[2], st(o[3]), st(o[4]), nn(o[5]))
    if k == "add_bond":
        return "add_bond %d %d %d %s %s" % (o[1], o[2], o[3], o[4] or "~", nn(o[5]))
    if k == "insert_atom":
        return "insert_atom %d %d %s %s %s %s %s" % (o[1], o[2], st(o[3]), st(o[4]), nn(o[5]), nn(o[6]), nn(o[7]))
    if k == "delete":
        return "delete %d %d" % (o[1], o[2])
    if k in ("copy", "pickle", "df", "h5"):
        return "%s %d" % (k, o[1])
    if k == "subset":
        return "subset %d l:%s" % (o[1], ",".join(str(int(i)) for i in o[2]))
    if k == "join":
        return "join %d %d %s" % (o[1], o[2], "T" if o[3] else "F")
    if k == "pdb":
        return "pdb %d %s" % (o[1], "T" if o[2] else "F")
    raise ValueError(o)


def build_driver(ctx):
    """Extract run_case from the compiled Coq model and compile the line driver (about 3 s)."""
    if getattr(ctx, "_c04_driver", None):
        return ctx._c04_driver
    d = os.path.join(ctx.tmp, "ocaml")
    os.makedirs(d, exist_ok=True)
    with open(os.path.join(d, "ex.v"), "w") as fh:
        fh.write("Require Import MD.Topo.Model MD.Topo.Carriers MD.Topo.Run.\nRequire Extraction.\n"
                 "Require Import ExtrOcamlBasic ExtrOcamlString.\nExtraction Language OCaml.\n"
                 'Extraction "topo_model.ml" run_case flags_of.\n')
    src = os.path.join(os.path.dirname(os.path.dirname(os.path.abspath(__file__))), "impl", "topo_driver.ml")
    with open(src) as fh, open(os.path.join(d, "topo_driver.ml"), "w") as out:
        out.write(fh.read())
    for cmd in (["timeout", "300", "coqc", "-Q", COQ, "MD", "ex.v"],
                ["timeout", "300", "ocamlfind", "ocamlopt", "-w", "-a", "topo_model.mli", "topo_model.ml",
                 "topo_driver.ml", "-o", "driver"]):
        r = subprocess.run(cmd, cwd=d, stdout=subprocess.PIPE, stderr=subprocess.STDOUT, text=True)
        if r.returncode != 0:
            ctx.break_("correspondence:model-extraction", r.stdout[-3000:])
            return None
    ctx._c04_driver = os.path.join(d, "driver")
    return ctx._c04_driver


def model_outputs(ctx, jobs):
    """jobs: list of (flag vector, concrete ops) -> list of rendered model observations (extracted model)."""
    drv = build_driver(ctx)
    if drv is None:
        return None
    text = "\n".join("%s|%s" % ("".join("T" if v[f] else "F" for f in FLAGS), ";".join(line_op(o) for o in model_ops(ops)))
                     for v, ops in jobs) + "\n"
    r = subprocess.run(["timeout", "1500", drv], input=text, stdout=subprocess.PIPE, stderr=subprocess.PIPE, text=True)
    lines = r.stdout.splitlines()
    if r.returncode != 0 or len(lines) != len(jobs):
        ctx.break_("correspondence:model-driver", "rc=%s lines=%d/%d %s" % (r.returncode, len(lines), len(jobs), r.stderr[-2000:]))
        return None
    return lines


def verdicts(ctx, det, items):
    """items: (ops, obs, candidate flag indices) -> list of (code, [flag indices]); same meaning as Topo.Run.verdict."""
    fix = {f: True for f in FLAGS}
    outs = model_outputs(ctx, [(fix, ops) for ops, _o, _c in items] + [(det, ops) for ops, _o, _c in items])
    if outs is None:
        return None
    n = len(items)
    want = [show(obs) for _ops, obs, _c in items]
    res = [None] * n
    follow = []
    for i, (ops, _obs, cand) in enumerate(items):
        if outs[i] == want[i]:
            res[i] = (0, [])
        elif outs[n + i] == want[i]:
            res[i] = (1, [])
            for fi in cand:
                v = dict(det)
                v[FLAGS[fi]] = True
                follow.append((i, fi, v))
        else:
            res[i] = (2, [])
    if follow:
        outs2 = model_outputs(ctx, [(v, items[i][0]) for i, _fi, v in follow])
        if outs2 is None:
            return None
        for (i, fi, _v), o in zip(follow, outs2):
            if o != want[i]:
                res[i][1].append(fi)
    return res


def check_cases(ctx, cases, det):
    """cases: list of {"ops": concrete prefix, "tail": abstract ops} or {"ops":..., "concrete": True}."""
    outs = run_impl(ctx, cases)
    items = []
    for o in outs:
        kinds = {op[0] for op in o["ops"]}
        cand = [i for i, f in enumerate(FLAGS) if not det[f] and (RELEVANT[f] is None or RELEVANT[f] & kinds)]
        items.append((o["ops"], o["obs"], cand))
    vs = verdicts(ctx, det, items)
    if vs is None:
        return
    unexplained = []
    dist = ctx.notes.setdefault("coverage_extra", {}).setdefault("op_axis_distribution", {})
    for i, (o, (code, resp)) in enumerate(zip(outs, vs)):
        ops = o["ops"]
        ctx.count({"ops": ops}, nontrivial=nontrivial(ops), bucket=bucket(ops))
        for a in axes_of(ops):
            dist[a] = dist.get(a, 0) + 1
        for msg in o.get("laws") or []:
            name = msg.split(":", 1)[0]
            ctx.fail("model-free law of the topology classes / carriers violated: %s" % name,
                     {"ops": ops, "concrete": True}, observed=msg,
                     expected="Atom/Bond/Residue/Chain comparisons and hashes as the model assumes them; "
                              "load(atom_indices) = subset of load; 2-column / absent bond arrays of from_dataframe",
                     tags={"defect": "law", "law": name})
        if code == 0:
            continue
        if code == 1:
            if not resp:       # the as-found vector explains the case but no single repair changes it
                resp = [None]
            for fi in resp:
                f = FLAGS[fi] if fi is not None else "combination"
                ctx.fail(DESC.get(f, "deviation from the all-repaired model explained only by several as-found variants together"),
                         {"ops": ops, "concrete": True}, observed=o["obs"],
                         expected="the all-repaired model (Coq run_case flags_fix)", tags={"defect": f})
        else:
            unexplained.append(i)
    for i in unexplained:
        ctx.fail("topology history: implementation deviates from every model variant (unexplained)",
                 {"ops": outs[i]["ops"], "concrete": True}, observed={"obs": outs[i]["obs"], "errors": outs[i]["errors"]},
                 expected="Coq run_case with the detected variant vector %s" % sorted(f for f in FLAGS if det[f]),
                 tags={"defect": "unexplained"})
    if unexplained:
        i = min(unexplained, key=lambda i: len(str(outs[i]["ops"])))
        ctx.break_("correspondence:topo-model",
                   "%d case(s) not reproduced by the model; smallest: %s" % (len(unexplained), outs[i]["ops"]))


# ---------------------------------------------------------------------------- PDB bond-graph oracle (standard residues)
# Outside the Coq model (the reader's residues.xml / pdbNames.xml machinery is not modelled): a direct oracle on
# the implementation.  Topologies mix standard residues (amino acids, water, nucleotides; atom names from mdtraj's
# residues.xml) with hetero residues; bonds: the standard ones (create_standard_bonds: inside residues and the
# peptide/backbone links, regenerated by the reader), disulfides, standard-hetero and hetero-hetero, within and
# across chains.  Oracle: the set of bonded index pairs after save_pdb + load_pdb equals the set before.
# What the PDB carrier cannot hold and is therefore excluded or ignored: bond type/order and duplicate bonds
# (compared as a set of pairs); bonds between two standard residues that are neither standard bonds nor SG-SG
# (the writer never lists them: not generated); residues merge when consecutive (resSeq, name) repeat and chains
# merge when ids repeat without TER (distinct resSeq, distinct chain ids); serials are left unset.
PDB_STD = ["ALA", "ASN", "CYS", "GLY", "HOH", "DA", "A", "CYS", "ASN"]
PDB_HET = ["NAG", "LIG", "ZN", "MAN", "UNL", "FUC"]
HET_ATOMS = {"ZN": ["ZN"], "default": ["C1", "C2", "O5", "N2", "C3"]}


def gen_pdbgraph(rng, tables, allow_no_ter, max_partners):
    std_atoms, hetero = tables["std_atoms"], tables["hetero_ok"]
    chains = []
    atoms = []          # (chain, res index global, resname, atomname, is_std)
    resseq = rng.choice([1, 11, 100])
    nres = 0
    ids = rng.sample(["A", "B", "C", "D", "X"], 4)
    use_ids = rng.random() < 0.7
    for ci in range(rng.choice([1, 2, 2, 3])):
        res = []
        for _ in range(rng.choice([1, 2, 3, 4])):
            if rng.random() < 0.6:
                name = rng.choice([n for n in PDB_STD if n in std_atoms])
                k = rng.randint(2, min(9, len(std_atoms[name])))
                names = std_atoms[name][:k]
                if name == "CYS" and "SG" not in names:
                    names = names + ["SG"]
                if name == "ASN" and rng.random() < 0.5:
                    names = [n for n in std_atoms[name] if n in ("N", "CA", "C", "O", "CB", "CG", "OD1", "ND2")]
            else:
                name = rng.choice(hetero)
                pool = HET_ATOMS.get(name, HET_ATOMS["default"])
                names = pool[:rng.randint(1, len(pool))]
            res.append([name, resseq, names])
            for an in names:
                atoms.append((ci, nres, name, an, name in std_atoms))
            resseq += rng.choice([1, 1, 2, 10])
            nres += 1
        chains.append({"id": ids[ci] if use_ids else None, "res": res})
    n = len(atoms)
    deg = [0] * n
    bonds = []

    def add(i, j):
        if i != j and deg[i] < max_partners and deg[j] < max_partners and [min(i, j), max(i, j)] not in bonds:
            bonds.append([min(i, j), max(i, j)])
            deg[i] += 1
            deg[j] += 1
    std = [i for i, a in enumerate(atoms) if a[4]]
    het = [i for i, a in enumerate(atoms) if not a[4]]
    sg = [i for i, a in enumerate(atoms) if a[2] == "CYS" and a[3] == "SG"]
    for _ in range(rng.choice([0, 1, 2])):                      # standard - hetero (any residues, any chains)
        if std and het:
            add(rng.choice(std), rng.choice(het))
    if std and het and rng.random() < 0.5:                       # the glycan-like link from a side chain
        side = [i for i in std if atoms[i][3] in ("ND2", "SG", "CB", "O", "N9")]
        if side:
            add(rng.choice(side), rng.choice(het))
    for _ in range(rng.choice([0, 1, 2, 3])):                    # hetero - hetero, inside and across residues/chains
        if len(het) >= 2:
            add(*rng.sample(het, 2))
    if len(sg) >= 2 and rng.random() < 0.7:                      # disulfide
        i, j = rng.sample(sg, 2)
        if atoms[i][1] != atoms[j][1]:
            add(i, j)
    return {"chains": chains, "bonds": bonds, "std_bonds": True,
            "ter": True if not allow_no_ter else rng.random() < 0.7, "standard_names": rng.random() < 0.7}


def check_pdbgraph(ctx, specs):
    res = ctx.run_impl("topo_impl.py", {"pdbgraph": specs})["pdbgraph"]
    for spec, r in zip(specs, res):
        kinds = set()
        names = [nm for ch in spec["chains"] for nm, _rs, ans in ch["res"] for _a in ans]
        for i, j in spec["bonds"]:
            a, b = names[i] in PDB_STD, names[j] in PDB_STD
            kinds.add("std-het" if a != b else ("std-std" if a else "het-het"))
        ctx.count({"pdbgraph": spec}, nontrivial=bool(spec["bonds"]), bucket="pdbgraph/" + ("+".join(sorted(kinds)) or "standard-only"))
        if "error" in r:
            ctx.fail("PDB save/load of a topology with standard and hetero residues raises", {"pdbgraph": spec}, observed=r,
                     expected="a round trip", tags={"defect": "pdb_bond_graph"})
        elif r["before"] != r["after"] or [a[:2] + a[3:] for a in r["atoms_before"]] != [a[:2] + a[3:] for a in r["atoms_after"]]:
            lost = [p for p in r["before"] if p not in r["after"]]
            extra = [p for p in r["after"] if p not in r["before"]]
            ctx.fail("PDB save/load does not preserve the bond graph (standard + hetero residues)", {"pdbgraph": spec},
                     observed={"lost": lost, "invented": extra, "atoms_after": r["atoms_after"]},
                     expected="the set of bonded atom-index pairs and the atom/residue/chain listing before the save",
                     tags={"defect": "pdb_bond_graph"})


def pdbgraph_stream(ctx, det):
    tables = ctx.run_impl("topo_impl.py", {"pdb_tables": [sorted(set(PDB_STD)), PDB_HET]})["tables"]
    n = 150 if ctx.tier == "quick" else 3000
    # as found, CONECT numbering is wrong without TER lines and hubs lose bonds: keep those axes for repaired trees
    specs = [gen_pdbgraph(ctx.rng, tables, det["conect_num"], 3 if det["conect_del"] else 2) for _ in range(n)]
    ctx.notes.setdefault("coverage_extra", {})["pdb_bond_graph_oracle_cases"] = n
    check_pdbgraph(ctx, specs)


def build_cases(ctx):
    rng = ctx.rng
    quick = ctx.tier == "quick"
    # the witnesses of the recorded findings are replayed first on every run
    cases = [{"ops": PROBES[n][1], "concrete": True} for n in PROBE_ORDER]
    tables = ctx.run_impl("topo_impl.py", {"pdb_tables": [sorted(set(PDB_STD)), PDB_HET]})["tables"]
    cases += [gen_case(rng, tables) for _ in range(500 if quick else 10000)]
    cases += [gen_carrier_history(rng) for _ in range(120 if quick else 2000)]
    cases += [gen_hash_history(rng) for _ in range(80 if quick else 1500)]
    # exhaustive small scope: every topology shape with <= 3 (quick) / 4 (thorough) atoms x every subset,
    # then an edit of the source and a copy of the subset
    for n, ops in small_topologies(3 if quick else 4):
        for mask in range(1 << n):
            keep = [i for i in range(n) if mask >> i & 1]
            cases.append({"ops": ops + [["subset", 0, keep, "list"], ["copy", 0, "copy"], ["delete", 0, 0],
                                        ["insert_atom", 1, 0, "Q", "S", 0, 0, 99] if keep else ["pickle", 0]],
                          "concrete": True})
    return cases


def correspond(ctx):
    det = detect_flags(ctx)
    if det is None:
        return
    ctx.notes.setdefault("coverage_extra", {})["variant_vector_of_implementation"] = {
        f: ("repaired" if det[f] else "as-found") for f in FLAGS}
    ctx.log("variant vector:", {f: det[f] for f in FLAGS})
    cases = build_cases(ctx)
    ctx.log("cases:", len(cases))
    chunk = 1000
    for i in range(0, len(cases), chunk):
        check_cases(ctx, cases[i:i + chunk], det)
    pdbgraph_stream(ctx, det)


def search(ctx, broken):
    # the correspondence stage already compares the implementation with the all-repaired model
    # (the property) on every case; the same stream is the search.
    pass


def replay(ctx, rec):
    det = detect_flags(ctx)
    if det is None:
        return
    c = rec["case"]
    if "pdbgraph" in c:
        check_pdbgraph(ctx, [c["pdbgraph"]])
        return
    check_cases(ctx, [{"ops": c["ops"], "concrete": True}], det)
