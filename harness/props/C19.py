"""C19 — incremental writing equals one-shot writing and survives a crash.

Model      coq/Writer/Model.v    writer state machines per family (append-only with a per-format policy, HDF5
                                 field arrays, NetCDF records at frame_index), md.load as [load], durability automaton
Theorems   coq/Props/C19.v       partition independence, ragged writes refused, refused writes atomic (refuted
                                 for hdf5.py / netcdf.py as found, proved for the repair), durability (partial)
Tie        every history is run through md.open(path,'w'|'a').write(...) on real files of all 11 streaming
           formats, the result codes of the writes and what md.load returns afterwards are compared inside coqc
           with the model variant assigned to the format; crash points are realised by a child process that
           os._exit()s or is SIGKILLed (fault enumeration) and compared with the automaton's crash images.
Property   checked directly on the implementation in the same run: partitioned == one-shot; a write whose
           schema differs from the file's is refused; after any history md.load returns exactly the accepted
           frames; after write+flush a killed writer's file loads with at least/exactly the flushed frames.
"""
import itertools

from common import cnat, clist, cbool

LEVEL = "proof"
THEOREMS = "Props/C19.v"
EXTS = ["xtc", "trr", "dcd", "dtr"]
RULE = ("histories of write calls: (a) every composition of n frames (n<=5 quick, n<=6 thorough) x 11 formats x "
        "{cell} x {time}; (b) ragged histories: 2-5 batches whose atom count / cell / time presence is perturbed at "
        "random; (c) HDF5 append mode on a file holding 0-3 frames; (d) crash points: after the k-th write, after "
        "flush, before close, flush before the first write / twice / with nothing written, and HDF5 append mode on an "
        "existing file, by os._exit and SIGKILL in a child process, for h5/nc/dcd/xtc. Non-trivial: more "
        "than one write call or a schema change or a crash; distinct by hash of (format, history)")
TRUSTED = ["harness/impl/writer_impl.py (feeds the writers, identifies frames by xyz[i,0,0], time and cell length)",
           "generator harness/props/C19.py; comparison with the model is done by vm_compute inside coqc",
           "durability: the automaton's buffering assumptions (HDF5 flush / netCDF sync / fflush for XDR write the "
           "library buffers to the OS; DCD writes through) are facts about libraries and the OS that the model "
           "states and the fault enumeration samples, they are not proved"]
ASSUMPTIONS = ["frames are identified by xyz[i,0,0], time=i, cell length i+2; the first batch of a history has 4 atoms",
               "a process kill (os._exit / SIGKILL) is the crash model: data handed to the OS survives; power loss "
               "and fsync semantics are outside",
               ".pdb cell information is excluded (one CRYST1 record per file, see C01)"]

FIX_H5, CUR_H5, FIX_NC, CUR_NC = 11, 10, 13, 12
# format -> (acceptable model variants: repaired first, then as-found)
FORMATS = {"h5": [FIX_H5, CUR_H5], "nc": [FIX_NC, CUR_NC], "xtc": [0], "trr": [0], "dcd": [1], "mdcrd": [9, 2],
           "xyz": [3], "lammpstrj": [4], "gro": [5], "pdb": [6], "dtr": [7]}
VNAME = {0: "pol_xdr", 1: "pol_dcd", 2: "pol_mdcrd", 3: "pol_xyz", 4: "pol_lammpstrj", 5: "pol_gro", 6: "pol_pdb",
         7: "pol_dtr", 8: "full_policy", 9: "pol_mdcrd_fix", 10: "h5_cur", 11: "h5_fix", 12: "nc_cur", 13: "nc_fix"}
STORES_TIME = {"h5", "nc", "xtc", "trr", "gro", "dtr"}
STORES_CELL = {"h5", "nc", "xtc", "trr", "gro", "dtr", "dcd", "mdcrd", "lammpstrj"}
REQ_CELL = {"lammpstrj", "dtr"}
REQ_TIME = {"dtr"}
CRASH_FORMATS = {"h5": True, "nc": False, "dcd": True, "xtc": False}   # value: writes reach the OS without flush()


def compositions(n):
    for bits in itertools.product([0, 1], repeat=n - 1):
        parts, cur = [], 1
        for b in bits:
            if b:
                parts.append(cur)
                cur = 1
            else:
                cur += 1
        parts.append(cur)
        yield parts


def W(ids, cell, time, atoms=4):
    return ["write", list(ids), bool(cell), bool(time), atoms]


def history_from_parts(parts, cell, time, start=10):
    ops, k = [], start
    for p in parts:
        ops.append(W(range(k, k + p), cell, time))
        k += p
    return ops


def build_cases(ctx):
    rng = ctx.rng
    quick = ctx.tier == "quick"
    cases = []
    # (a) compositions
    for fmt in FORMATS:
        for n in ([1, 2, 3, 5] if quick else [1, 2, 3, 4, 5, 6]):
            for parts in compositions(n):
                for cell in ((True, False) if fmt in STORES_CELL else (False,)):
                    for time in ((True, False) if fmt in STORES_TIME else (False,)):
                        if (fmt in REQ_CELL and not cell) or (fmt in REQ_TIME and not time):
                            if n != 2:
                                continue
                        cases.append({"kind": "partition", "fmt": fmt, "mode": "w", "pre": [],
                                      "ops": history_from_parts(parts, cell, time), "cell": cell, "time": time})
    # (b) ragged histories
    for fmt in FORMATS:
        for _ in range(30 if quick else 250):
            nb = rng.randint(2, 5)
            cell0 = True if fmt in REQ_CELL else (rng.random() < 0.6 and fmt in STORES_CELL)
            time0 = True if fmt in REQ_TIME else (rng.random() < 0.6 and fmt in STORES_TIME)
            ops, k = [], 10
            for j in range(nb):
                cell, time, atoms = cell0, time0, 4
                if j > 0 and rng.random() < 0.5:
                    what = rng.choice(["cell", "time", "atoms", "atoms"])
                    if what == "cell" and fmt in STORES_CELL:
                        cell = not cell0
                    elif what == "time" and fmt in STORES_TIME:
                        time = not time0
                    else:
                        atoms = rng.choice([3, 5])
                m = rng.randint(1, 3)
                ops.append(W(range(k, k + m), cell, time, atoms))
                k += m
            cases.append({"kind": "ragged", "fmt": fmt, "mode": "w", "pre": [], "ops": ops})
    # fixed probes: the historical witnesses always run
    for fmt in FORMATS:
        c0, t0 = fmt in STORES_CELL, fmt in STORES_TIME
        cases.insert(0, {"kind": "ragged", "fmt": fmt, "mode": "w", "pre": [],
                         "ops": [W([10, 11], c0, t0), W([12, 13], c0, False), W([14], c0, t0)]})
        cases.insert(0, {"kind": "ragged", "fmt": fmt, "mode": "w", "pre": [],
                         "ops": [W([10, 11], c0, t0), W([12, 13], False, t0), W([14, 15], c0, t0)]})
        cases.insert(0, {"kind": "ragged", "fmt": fmt, "mode": "w", "pre": [],
                         "ops": [W([10, 11], c0, t0), W([12, 13], c0, t0, 5)]})
    # (c) HDF5 append mode
    for pre in ([[], [1, 2]] if quick else [[], [1], [1, 2, 3]]):
        for n in ([3] if quick else [2, 3, 4]):
            for parts in compositions(n):
                cases.append({"kind": "partition", "fmt": "h5", "mode": "a", "pre": pre,
                              "ops": history_from_parts(parts, True, True), "cell": True, "time": True})
        cases.append({"kind": "ragged", "fmt": "h5", "mode": "a", "pre": pre,
                      "ops": [W([10, 11], True, True), W([12], True, False), W([13], True, True)]})
    # (d) crash points
    crash = []
    for fmt, through in CRASH_FORMATS.items():
        for how in (["exit", "kill"] if not quick else ["kill"]):
            for n_writes in ([1, 3] if quick else [1, 2, 3, 4]):
                for flush_after in range(0, n_writes + 1):
                    # writes 1..n_writes (2 frames each); flush() after write number flush_after (0 = never); crash
                    ops, k = [], 10
                    for w in range(1, n_writes + 1):
                        ops.append(W(range(k, k + 2), True, fmt != "dcd"))
                        k += 2
                        if w == flush_after:
                            ops.append(["flush"])
                    ops.append(["crash", how])
                    crash.append({"kind": "crash", "fmt": fmt, "mode": "w", "pre": [], "ops": ops})
        # crash right after open, and between close and exit (nothing may be lost after close)
        crash.append({"kind": "crash", "fmt": fmt, "mode": "w", "pre": [], "ops": [["crash", "kill"]]})
        crash.append({"kind": "crash", "fmt": fmt, "mode": "w", "pre": [],
                      "ops": [W([10, 11, 12], True, fmt != "dcd"), ["close"], ["crash", "kill"]]})
        # other uses of flush(): before the first write (nothing initialised yet), twice in a row, with nothing
        # written since the last one
        t = fmt != "dcd"
        crash.append({"kind": "crash", "fmt": fmt, "mode": "w", "pre": [],
                      "ops": [["flush"], W([10, 11], True, t), ["flush"], ["crash", "kill"]]})
        crash.append({"kind": "crash", "fmt": fmt, "mode": "w", "pre": [],
                      "ops": [W([10, 11], True, t), ["flush"], ["flush"], W([12], True, t), ["flush"], ["flush"],
                              ["crash", "kill"]]})
        if not quick:
            crash.append({"kind": "crash", "fmt": fmt, "mode": "w", "pre": [],
                          "ops": [["flush"], ["flush"], W([10], True, t), ["crash", "exit"]]})
            crash.append({"kind": "crash", "fmt": fmt, "mode": "w", "pre": [],
                          "ops": [W([10, 11], True, t), ["flush"], W([12, 13], True, t), ["flush"], ["flush"],
                                  W([14], True, t), ["crash", "exit"]]})
    # HDF5 append mode: an EXISTING file is opened with 'a'; its old frames and every appended+flushed frame
    # must survive a kill (per-mode behaviour of flush()/write())
    for pre in ([[1, 2]] if quick else [[1, 2], [1], []]):
        for how in (["kill"] if quick else ["kill", "exit"]):
            A = lambda ops: crash.append({"kind": "crash", "fmt": "h5", "mode": "a", "pre": pre, "ops": ops + [["crash", how]]})
            A([])                                                         # right after open(..., 'a')
            A([["flush"]])                                                # flush with nothing written
            A([W([10, 11], True, True)])                                  # write() flushes by itself
            A([W([10, 11], True, True), ["flush"]])
            A([W([10, 11], True, True), ["flush"], W([12], True, True), ["flush"]])
            if not quick:
                A([W([10], True, True), ["flush"], W([11, 12], True, True)])
                A([W([10], True, True), W([11], True, True), W([12], True, True), ["flush"], ["flush"]])
                A([W([10, 11], True, True), ["close"]])
    return cases + crash


# ------------------------------------------------------------------ Coq printers
def coq_batch(op):
    return "{| b_ids := %s; b_atoms := %s; b_cell := %s; b_time := %s |}" % (
        clist([cnat(i) for i in op[1]]), cnat(op[4]), cbool(op[2]), cbool(op[3]))


def coq_ob(x):
    if x is None:
        return "ONone"
    return "OBad" if x < 0 else "(OVal %s)" % cnat(x)


def impl_load_to_coq(fmt, load, o=None, ws=None):
    """canonical form of what md.load returned.  Two conventions (both sides of the comparison use them):
    a file into which no write was accepted counts as an empty file; a file into which frames of different
    atom counts were written is corrupt whatever a lenient text loader makes of it."""
    if o is not None and ws is not None:
        oks = [op for op, x in zip(ws, o["ops"]) if "ok" in x]
        if not oks:
            return "(Some [])"
        if len({op[4] for op in oks}) > 1:
            return "None"
    if "load_err" in load or any(i < 0 for i in load["frames"]) or load.get("n_atoms") != 4:
        return "None"
    rows = []
    for k, i in enumerate(load["frames"]):
        t = load["time"][k]
        c = None if load["cell"] is None else load["cell"][k]
        rows.append("(%s, %s, %s)" % (cnat(i), coq_ob(t), coq_ob(c)))
    return "(Some %s)" % clist(rows)


def impl_results(o, n_writes):
    rs = []
    for x in o["ops"][:n_writes]:
        rs.append("Ok" if "ok" in x else "Refused")
    return clist(rs)


def write_ops(c):
    return [op for op in c["ops"] if op[0] == "write"]


def expected_accept(c):
    """the property's own rule: the first batch (that satisfies the format's required fields) fixes the schema,
    later batches are accepted iff they have exactly that schema"""
    fmt, sch, acc = c["fmt"], None, []
    for op in write_ops(c):
        s = (op[4], op[2], op[3])
        if sch is None:
            if (fmt in REQ_CELL and not op[2]) or (fmt in REQ_TIME and not op[3]):
                acc.append(False)
                continue
            sch = s
            acc.append(True)
        else:
            acc.append(s == sch)
    return acc, sch


def expected_obs(c, acc, sch):
    """what md.load must return when exactly the accepted frames are in the file"""
    fmt = c["fmt"]
    ids = list(c.get("pre") or [])
    for op, a in zip(write_ops(c), acc):
        if a:
            ids += op[1]
    if c.get("pre"):
        has_t, has_c = True, True
    else:
        has_t = bool(sch and sch[2])
        has_c = bool(sch and sch[1])
    time = [i if (has_t and fmt in STORES_TIME) else k for k, i in enumerate(ids)]
    cell = [i for i in ids] if (has_c and fmt in STORES_CELL) else None
    return {"frames": ids, "time": time, "cell": cell}


def run_cases(ctx, cases):
    res = ctx.run_impl("writer_impl.py", {"cases": cases})["cases"]
    hist = [(c, o) for c, o in zip(cases, res) if c["kind"] != "crash"]
    crash = [(c, o) for c, o in zip(cases, res) if c["kind"] == "crash"]
    # ---------------- tie: model variant of the format reproduces result codes and md.load
    jobs, coqcases = [], []
    for ci, (c, o) in enumerate(hist):
        ws = write_ops(c)
        inp_h = clist([coq_batch(op) for op in ws])
        exp = "(%s, %s)" % (impl_results(o, len(ws)), impl_load_to_coq(c["fmt"], o["load"], o, ws))
        for v in FORMATS[c["fmt"]]:
            jobs.append((ci, v))
            coqcases.append(("(%s, %s, %s)" % (cnat(v), clist([cnat(i) for i in c["pre"]]), inp_h), exp))
    bad, errs = ctx.coq_mismatches(["MD.Writer.Model"], ("nat * list nat * list batch", "list res * option (list orow)"),
                                   "case_eqb", "run_case", coqcases)
    if errs:
        ctx.break_("correspondence:coqc-evaluation", "\n".join(errs))
        return
    badset = {jobs[i] for i in bad}
    explained = {}
    for fmt, variants in FORMATS.items():
        idx = [i for i, (c, _o) in enumerate(hist) if c["fmt"] == fmt]
        if not idx:
            continue
        agree = None
        for v in variants:
            if all((i, v) not in badset for i in idx):
                agree = v
                break
        explained[fmt] = agree
        if agree is None:
            worst = min(variants, key=lambda v: sum((i, v) in badset for i in idx))
            ex = sorted((i for i in idx if (i, worst) in badset), key=lambda i: len(str(hist[i][0]["ops"])))[0]
            ctx.break_("correspondence:writer-model[%s]" % fmt,
                       "no model variant %s reproduces the implementation; e.g. %s -> %s" % (
                           [VNAME[v] for v in variants], hist[ex][0], hist[ex][1]))
            ctx.notes.setdefault("tie_examples", []).append({"case": hist[ex][0], "impl": hist[ex][1]})
    ctx.notes.setdefault("coverage_extra", {}).setdefault("model_variant_matching_impl", {}).update(
        {f: (VNAME[v] if v is not None else None) for f, v in explained.items()})
    # ---------------- the property on the implementation
    oneshot = {}
    def explained_case(i, fmt):
        """the first acceptable variant that reproduces the implementation on THIS case (failures are attributed
        case by case, so that a replay of one case gets the same tags as the full run; the tie itself is
        'one variant reproduces all cases' and is reported above)"""
        for v in FORMATS[fmt]:
            if (i, v) not in badset:
                return v
        return None

    for hi, (c, o) in enumerate(hist):
        ws = write_ops(c)
        nontrivial = len(ws) > 1
        ctx.count({"fmt": c["fmt"], "mode": c["mode"], "pre": c["pre"], "ops": c["ops"]}, nontrivial=nontrivial,
                  bucket="%s/%s" % (c["fmt"], c["kind"]))
        fmt = c["fmt"]
        vn = VNAME.get(explained_case(hi, fmt))
        acc, sch = expected_accept(c)
        got = [("ok" in x) for x in o["ops"][:len(ws)]]
        want = expected_obs(c, acc, sch)
        load = o["load"]
        got_obs = None if "load_err" in load else {"frames": load["frames"], "time": load["time"], "cell": load["cell"]}
        if c.get("pre") and sch is not None and (sch != (4, True, True)):
            pass
        ragged_kinds = set()
        for op, a, g in zip(ws, acc, got):
            if g and not a:
                s = (op[4], op[2], op[3])
                if sch and s[0] != sch[0]:
                    ragged_kinds.add("atoms")
                if sch and s[1] != sch[1]:
                    ragged_kinds.add("cell")
                if sch and s[2] != sch[2]:
                    ragged_kinds.add("time")
        tags = {"fmt": fmt, "explained_by": vn, "kind": c["kind"]}
        if got != acc:
            if any(a and not g for a, g in zip(acc, got)):
                ctx.fail("%s: a write with the file's own schema was refused" % fmt, c, observed=o, expected=acc,
                         tags=dict(tags, what="refuses_valid"))
            else:
                ctx.fail("%s: a ragged write (%s changed) was accepted" % (fmt, "/".join(sorted(ragged_kinds))), c,
                         observed=o, expected=acc, tags=dict(tags, what="ragged_accepted", ragged=sorted(ragged_kinds)))
        elif not any(acc) and not c.get("pre"):
            pass            # nothing was accepted: no file / an empty file, nothing to load
        elif got_obs != want:
            only_time = (got_obs is not None and got_obs["frames"] == want["frames"] and got_obs["cell"] == want["cell"])
            if only_time:
                ctx.fail("%s: the stored times depend on how the frames were split into write calls" % fmt, c,
                         observed=load, expected=want, tags=dict(tags, what="time_partition"))
            elif c["kind"] == "partition" or all(acc):
                ctx.fail("%s: incremental writing differs from one-shot writing" % fmt, c, observed=load, expected=want,
                         tags=dict(tags, what="partition", with_time=c.get("time"), with_cell=c.get("cell")))
            else:
                ctx.fail("%s: after a refused write the file no longer loads with exactly the accepted frames" % fmt, c,
                         observed=load, expected=want, tags=dict(tags, what="refused_not_atomic"))
        if c["kind"] == "partition" and c["mode"] == "w":
            key = (fmt, c["cell"], c["time"], sum(len(op[1]) for op in ws))
            if len(ws) == 1:
                oneshot[key] = got_obs
    for hi, (c, o) in enumerate(hist):
        # partitioned result against the implementation's own one-shot result (needs no expectation of mine)
        if c["kind"] == "partition" and c["mode"] == "w":
            ws = write_ops(c)
            key = (c["fmt"], c["cell"], c["time"], sum(len(op[1]) for op in ws))
            load = o["load"]
            got_obs = None if "load_err" in load else {"frames": load["frames"], "time": load["time"], "cell": load["cell"]}
            if key in oneshot and oneshot[key] != got_obs and all("ok" in x for x in o["ops"][:len(ws)]):
                one = oneshot[key]
                only_time = (one is not None and got_obs is not None and one["frames"] == got_obs["frames"]
                             and one["cell"] == got_obs["cell"])
                ctx.fail(("%s: the stored times depend on how the frames were split into write calls" if only_time
                          else "%s: incremental writing differs from one-shot writing") % c["fmt"], c, observed=load,
                         expected=one, tags={"fmt": c["fmt"], "explained_by": VNAME.get(explained_case(hi, c["fmt"])),
                                             "kind": "partition", "what": "time_partition" if only_time else "partition",
                                             "with_time": c.get("time"), "with_cell": c.get("cell")})
    # ---------------- crash points (fault enumeration) against the automaton
    ccases, cidx = [], []
    fe = ctx.notes.setdefault("coverage_extra", {}).setdefault("fault_enumeration", {"crash_points": 0, "by_format": {}})
    fe["crash_points"] += len(crash)
    for c, _o in crash:
        fe["by_format"][c["fmt"]] = fe["by_format"].get(c["fmt"], 0) + 1
    fe["method"] = "child process runs the history and is terminated by os._exit / SIGKILL at the crash point; parent md.load()s"
    for i, (c, o) in enumerate(crash):
        ctx.count({"fmt": c["fmt"], "mode": c.get("mode"), "pre": c.get("pre"), "ops": c["ops"]}, nontrivial=True,
                  bucket="%s/crash%s" % (c["fmt"], "-append" if c.get("mode") == "a" else ""))
        load = o["load"]
        fmt = c["fmt"]
        dops, flushed, written, since = [], [], [], []
        if c.get("pre"):
            # the frames already in the file were written and closed by an earlier handle
            dops += ["DWrite %s" % clist([cnat(x) for x in c["pre"]]), "DClose"]
            flushed += c["pre"]
            written += c["pre"]
        for op in c["ops"]:
            if op[0] == "write":
                dops.append("DWrite %s" % clist([cnat(x) for x in op[1]]))
                written += op[1]
                since += op[1]
                if CRASH_FORMATS[fmt]:
                    flushed += since
                    since = []
            elif op[0] == "flush":
                dops.append("DFlush")
                flushed += since
                since = []
            elif op[0] == "close":
                dops.append("DClose")
                flushed += since
                since = []
        got = None if "load_err" in load else load["frames"]
        tags = {"fmt": fmt, "kind": "crash", "how": c["ops"][-1][1], "mode": c.get("mode", "w")}
        if not written:
            continue        # nothing written: any outcome (no file, unreadable empty file) is acceptable
        if got is None:
            if flushed:
                ctx.fail("%s: after write+flush a killed writer leaves a file that does not load" % fmt, c, observed=load,
                         expected={"at_least": flushed}, tags=dict(tags, what="crash_unloadable"))
            continue
        if got[:len(flushed)] != flushed or got != written[:len(got)]:
            ctx.fail("%s: after write+flush a killed writer lost frames (or the file holds frames never written)" % fmt,
                     c, observed=load, expected={"at_least": flushed, "prefix_of": written},
                     tags=dict(tags, what="crash_lost"))
        ccases.append(("(%s, %s, %s)" % (cbool(CRASH_FORMATS[fmt]), clist(dops), clist([cnat(x) for x in got])), "true"))
        cidx.append(i)
    if ccases:
        prel = ("Definition crash_ok (c : bool * list dop * list nat) : bool := let '(a, ops, got) := c in "
                "existsb (list_eqb Nat.eqb got) (crash_images (drun a ops)).")
        badc, errc = ctx.coq_mismatches(["MD.Writer.Model"], ("bool * list dop * list nat", "bool"), "Bool.eqb",
                                        "crash_ok", ccases, prelude=prel)
        if errc:
            ctx.break_("correspondence:coqc-evaluation(crash)", "\n".join(errc))
        for b in badc:
            c, o = crash[cidx[b]]
            ctx.break_("correspondence:durability-automaton[%s]" % c["fmt"],
                       "the file after the crash is not one of the automaton's crash images: %s -> %s" % (c, o["load"]))


def correspond(ctx):
    cases = build_cases(ctx)
    ctx.log("cases:", len(cases))
    run_cases(ctx, cases)


def search(ctx, broken):
    # the correspondence stage already checks the property itself on every case; widen the grid when quick
    if ctx.tier == "thorough":
        return
    old = ctx.tier
    ctx.tier = "thorough"
    try:
        cases = build_cases(ctx)
    finally:
        ctx.tier = old
    run_cases(ctx, cases)


def replay(ctx, rec):
    c = rec["case"]
    c.setdefault("pre", [])
    c.setdefault("mode", "w")
    run_cases(ctx, [c])
