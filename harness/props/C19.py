"""C19 — incremental writing equals one-shot writing and survives a crash.

Model      coq/Writer/Model.v    writer state machines per family (append-only with a per-format policy, HDF5
                                 field arrays, NetCDF records at frame_index), md.load as [load], durability automaton
Theorems   coq/Props/C19.v       partition independence, ragged writes refused, refused writes atomic (refuted
                                 for hdf5.py / netcdf.py as found, proved for the repair), durability (partial)
Tie        every history is run through md.open(path,'w'|'a').write(...) on real files of all 11 streaming
           formats, the result codes of the writes and what md.load returns afterwards are compared inside coqc
           with the model variant assigned to the format; crash points are realised by a child process that
           os._exit()s or is SIGKILLed (fault enumeration) and compared with the automaton's crash images.
Property   checked directly on the implementation in the same run: partitioned == one-shot; a write whose
           schema differs from the file's is refused; after any history md.load returns exactly the accepted
           frames; after write+flush a killed writer's file loads with at least/exactly the flushed frames.
"""
import itertools

from common import cnat, clist, cbool, cstr

LEVEL = "proof"
THEOREMS = "Props/C19.v"
EXTS = ["xtc", "trr", "dcd", "dtr"]
EXTRA_TARGETS = ("Gen/WriterPrograms.vo", "Gen/WriterProgramsChecks.vo")
RULE = ("histories of write calls: (a) every composition of n frames (n<=5 quick, n<=6 thorough) x 11 formats x "
        "{cell} x {time}; (b) ragged histories: 2-5 batches whose atom count / cell / time presence is perturbed at "
        "random; (c) HDF5 append mode on a file holding 0-3 frames; (d) crash points: after the k-th write, after "
        "flush, before close, flush before the first write / twice / with nothing written, and HDF5 append mode on an "
        "existing file, by os._exit and SIGKILL in a child process, for h5/nc/dcd/xtc; (e) partitions with an EMPTY part "
        "(a write call carrying no frame) at every position; (f) the reporter shape: one frame per call handed over "
        "without the frame axis, alone and mixed with batched calls, and with flush after every call + kill; (g) the same "
        "singleton histories and crash points driven through DCDReporter / NetCDFReporter / XTCReporter.report() "
        "(OpenMM's unit module replaced by a stand-in); (h) per-frame cells whose kind (orthogonal / triclinic) changes inside "
        "one write call and between calls, lengths AND angles compared frame by frame, 8 formats x every composition. Non-trivial: more "
        "than one write call or a schema change or a crash; distinct by hash of (format, history, driver)")
TRUSTED = ["harness/impl/writer_impl.py (feeds the writers, identifies frames by xyz[i,0,0], time and cell length)",
           "generator harness/props/C19.py; comparison with the model is done by vm_compute inside coqc",
           "durability: the automaton's buffering assumptions (HDF5 flush / netCDF sync / fflush for XDR write the "
           "library buffers to the OS; DCD writes through) are facts about libraries and the OS that the model "
           "states and the fault enumeration samples, they are not proved"]
ASSUMPTIONS = ["frames are identified by xyz[i,0,0], time=i, cell length i+2; the first batch of a history has 4 atoms",
               "a process kill (os._exit / SIGKILL) is the crash model: data handed to the OS survives; power loss "
               "and fsync semantics are outside",
               ".pdb cell information is excluded (one CRYST1 record per file, see C01)"]

FIX_H5, CUR_H5, FIX_NC, CUR_NC = 11, 10, 13, 12
# format -> (acceptable model variants: repaired first, then as-found)
FORMATS = {"h5": [FIX_H5, CUR_H5], "nc": [FIX_NC, CUR_NC], "xtc": [0], "trr": [0], "dcd": [1], "mdcrd": [9, 2],
           "xyz": [3], "lammpstrj": [4], "gro": [5], "pdb": [6], "dtr": [7]}
VNAME = {0: "pol_xdr", 1: "pol_dcd", 2: "pol_mdcrd", 3: "pol_xyz", 4: "pol_lammpstrj", 5: "pol_gro", 6: "pol_pdb",
         7: "pol_dtr", 8: "full_policy", 9: "pol_mdcrd_fix", 10: "h5_cur", 11: "h5_fix", 12: "nc_cur", 13: "nc_fix"}
STORES_TIME = {"h5", "nc", "xtc", "trr", "gro", "dtr"}
STORES_CELL = {"h5", "nc", "xtc", "trr", "gro", "dtr", "dcd", "mdcrd", "lammpstrj"}
REQ_CELL = {"lammpstrj", "dtr"}
REQ_TIME = {"dtr"}
CRASH_FORMATS = {"h5": True, "nc": False, "dcd": True, "xtc": False}   # value: writes reach the OS without flush()
SQUEEZABLE = {"h5", "nc", "xtc", "trr", "dcd", "mdcrd", "lammpstrj", "dtr"}   # write() accepts one frame without the frame axis
# reporters that can be driven without OpenMM (format, cell, time as the reporter passes them); HDF5Reporter needs an
# OpenMM topology object
# formats that store a full (triclinic) cell per frame (mdcrd stores lengths only, xyz none, pdb is out of scope)
SHEARABLE = {"h5", "nc", "xtc", "trr", "dcd", "dtr", "lammpstrj", "gro"}
REPORTERS = [("dcd", True, False), ("nc", True, True), ("nc", False, True), ("nc", False, False), ("xtc", True, True)]


def compositions(n):
    for bits in itertools.product([0, 1], repeat=n - 1):
        parts, cur = [], 1
        for b in bits:
            if b:
                parts.append(cur)
                cur = 1
            else:
                cur += 1
        parts.append(cur)
        yield parts


def W(ids, cell, time, atoms=4):
    return ["write", list(ids), bool(cell), bool(time), atoms]


def history_from_parts(parts, cell, time, start=10):
    ops, k = [], start
    for p in parts:
        ops.append(W(range(k, k + p), cell, time))
        k += p
    return ops


def build_cases(ctx):
    rng = ctx.rng
    quick = ctx.tier == "quick"
    cases = []
    # (a) compositions
    for fmt in FORMATS:
        for n in ([1, 2, 3, 5] if quick else [1, 2, 3, 4, 5, 6]):
            for parts in compositions(n):
                for cell in ((True, False) if fmt in STORES_CELL else (False,)):
                    for time in ((True, False) if fmt in STORES_TIME else (False,)):
                        if (fmt in REQ_CELL and not cell) or (fmt in REQ_TIME and not time):
                            if n != 2:
                                continue
                        cases.append({"kind": "partition", "fmt": fmt, "mode": "w", "pre": [],
                                      "ops": history_from_parts(parts, cell, time), "cell": cell, "time": time})
    # (a2) partitions with EMPTY parts (a write call that carries no frame: the theorems quantify over every list of
    # parts, empty ones included) and (a3) the reporter shape: one frame per call, handed over without the frame axis
    for fmt in FORMATS:
        for cell in ((True, False) if fmt in STORES_CELL else (False,)):
            for time in ((True, False) if fmt in STORES_TIME else (False,)):
                if (fmt in REQ_CELL and not cell) or (fmt in REQ_TIME and not time):
                    continue
                base = [[2, 1], [1, 1, 1]] if quick else [[3], [2, 1], [1, 2], [1, 1, 1], [2, 2]]
                for parts in base:
                    for pos in range(len(parts) + 1):
                        if quick and pos == 1 and len(parts) == 3:
                            continue
                        pp = parts[:pos] + [0] + parts[pos:]
                        cases.append({"kind": "partition", "fmt": fmt, "mode": "w", "pre": [], "empty_part": True,
                                      "ops": history_from_parts(pp, cell, time), "cell": cell, "time": time})
                if fmt in SQUEEZABLE:
                    for n in ((3,) if quick else (1, 2, 3, 5)):
                        ops = [W([10 + k], cell, time) + [True] for k in range(n)]
                        cases.append({"kind": "partition", "fmt": fmt, "mode": "w", "pre": [], "squeezed": True,
                                      "ops": ops, "cell": cell, "time": time})
                    # squeezed and batched calls mixed
                    ops = [W([10], cell, time) + [True], W([11, 12], cell, time), W([13], cell, time) + [True]]
                    cases.append({"kind": "partition", "fmt": fmt, "mode": "w", "pre": [], "squeezed": True,
                                  "ops": ops, "cell": cell, "time": time})
    # (a5) per-frame cells whose KIND changes inside one write call and between calls: frames with an odd (even) id
    # have a triclinic cell (85/80/75 degrees), the others an orthogonal one; md.load must return, frame by frame, the
    # lengths AND angles handed in, for every partition and for the one-shot write
    for fmt in sorted(SHEARABLE):
        for shear in ("odd", "even"):
            comps = []
            for n in ((3,) if quick else (2, 3, 4, 5)):
                comps += list(compositions(n))
            if quick:
                comps += [[4], [1, 3], [2, 2], [3, 1]]
            for parts in comps:
                cases.append({"kind": "partition", "fmt": fmt, "mode": "w", "pre": [], "shear": shear,
                              "ops": history_from_parts(parts, True, fmt in STORES_TIME), "cell": True,
                              "time": fmt in STORES_TIME})
    # (a4) the same singleton histories driven through mdtraj's reporters (report() = write one frame + flush)
    for fmt, cell, time in REPORTERS:
        for n in ((3,) if quick else (1, 2, 3, 5)):
            cases.append({"kind": "partition", "fmt": fmt, "mode": "w", "pre": [], "squeezed": True, "via": "reporter",
                          "ops": [W([10 + k], cell, time) + [True] for k in range(n)], "cell": cell, "time": time})
    # (b) ragged histories
    for fmt in FORMATS:
        for _ in range(30 if quick else 250):
            nb = rng.randint(2, 5)
            cell0 = True if fmt in REQ_CELL else (rng.random() < 0.6 and fmt in STORES_CELL)
            time0 = True if fmt in REQ_TIME else (rng.random() < 0.6 and fmt in STORES_TIME)
            ops, k = [], 10
            for j in range(nb):
                cell, time, atoms = cell0, time0, 4
                if j > 0 and rng.random() < 0.5:
                    what = rng.choice(["cell", "time", "atoms", "atoms"])
                    if what == "cell" and fmt in STORES_CELL:
                        cell = not cell0
                    elif what == "time" and fmt in STORES_TIME:
                        time = not time0
                    else:
                        atoms = rng.choice([3, 5])
                m = rng.randint(1, 3)
                ops.append(W(range(k, k + m), cell, time, atoms))
                k += m
            cases.append({"kind": "ragged", "fmt": fmt, "mode": "w", "pre": [], "ops": ops})
    # fixed probes: the historical witnesses always run
    for fmt in FORMATS:
        c0, t0 = fmt in STORES_CELL, fmt in STORES_TIME
        cases.insert(0, {"kind": "ragged", "fmt": fmt, "mode": "w", "pre": [],
                         "ops": [W([10, 11], c0, t0), W([12, 13], c0, False), W([14], c0, t0)]})
        cases.insert(0, {"kind": "ragged", "fmt": fmt, "mode": "w", "pre": [],
                         "ops": [W([10, 11], c0, t0), W([12, 13], False, t0), W([14, 15], c0, t0)]})
        cases.insert(0, {"kind": "ragged", "fmt": fmt, "mode": "w", "pre": [],
                         "ops": [W([10, 11], c0, t0), W([12, 13], c0, t0, 5)]})
    # (c) HDF5 append mode
    for pre in ([[], [1, 2]] if quick else [[], [1], [1, 2, 3]]):
        for n in ([3] if quick else [2, 3, 4]):
            for parts in compositions(n):
                cases.append({"kind": "partition", "fmt": "h5", "mode": "a", "pre": pre,
                              "ops": history_from_parts(parts, True, True), "cell": True, "time": True})
        cases.append({"kind": "ragged", "fmt": "h5", "mode": "a", "pre": pre,
                      "ops": [W([10, 11], True, True), W([12], True, False), W([13], True, True)]})
    # (d) crash points
    crash = []
    for fmt, through in CRASH_FORMATS.items():
        for how in (["exit", "kill"] if not quick else ["kill"]):
            for n_writes in ([1, 3] if quick else [1, 2, 3, 4]):
                for flush_after in range(0, n_writes + 1):
                    # writes 1..n_writes (2 frames each); flush() after write number flush_after (0 = never); crash
                    ops, k = [], 10
                    for w in range(1, n_writes + 1):
                        ops.append(W(range(k, k + 2), True, fmt != "dcd"))
                        k += 2
                        if w == flush_after:
                            ops.append(["flush"])
                    ops.append(["crash", how])
                    crash.append({"kind": "crash", "fmt": fmt, "mode": "w", "pre": [], "ops": ops})
        # crash right after open, and between close and exit (nothing may be lost after close)
        crash.append({"kind": "crash", "fmt": fmt, "mode": "w", "pre": [], "ops": [["crash", "kill"]]})
        crash.append({"kind": "crash", "fmt": fmt, "mode": "w", "pre": [],
                      "ops": [W([10, 11, 12], True, fmt != "dcd"), ["close"], ["crash", "kill"]]})
        # other uses of flush(): before the first write (nothing initialised yet), twice in a row, with nothing
        # written since the last one
        t = fmt != "dcd"
        crash.append({"kind": "crash", "fmt": fmt, "mode": "w", "pre": [],
                      "ops": [["flush"], W([10, 11], True, t), ["flush"], ["crash", "kill"]]})
        crash.append({"kind": "crash", "fmt": fmt, "mode": "w", "pre": [],
                      "ops": [W([10, 11], True, t), ["flush"], ["flush"], W([12], True, t), ["flush"], ["flush"],
                              ["crash", "kill"]]})
        if not quick:
            crash.append({"kind": "crash", "fmt": fmt, "mode": "w", "pre": [],
                          "ops": [["flush"], ["flush"], W([10], True, t), ["crash", "exit"]]})
            crash.append({"kind": "crash", "fmt": fmt, "mode": "w", "pre": [],
                          "ops": [W([10, 11], True, t), ["flush"], W([12, 13], True, t), ["flush"], ["flush"],
                                  W([14], True, t), ["crash", "exit"]]})
    # the reporter loop (mdtraj/reporters/basereporter.py:report): one frame per call without the frame axis, flush()
    # after every call, killed between two reports
    for fmt in CRASH_FORMATS:
        for n in ((3,) if quick else (1, 2, 5)):
            ops = []
            for k in range(n):
                ops += [W([10 + k], True, fmt != "dcd") + [True], ["flush"]]
            crash.append({"kind": "crash", "fmt": fmt, "mode": "w", "pre": [], "ops": ops + [["crash", "kill"]],
                          "squeezed": True})
            crash.append({"kind": "crash", "fmt": fmt, "mode": "w", "pre": [], "squeezed": True,
                          "ops": ops + [W([10 + n], True, fmt != "dcd") + [True], ["crash", "kill"]]})
    # the same loop driven through mdtraj's own reporters (DCDReporter, NetCDFReporter, XTCReporter; OpenMM's unit module
    # replaced by a stand-in): report() x n, killed between two reports / after close
    for fmt, cell, time in REPORTERS:
        if not (cell and (time or fmt == "dcd")):
            continue
        for n in ((2,) if quick else (1, 2, 4, 9)):
            ops = []
            for k in range(n):
                ops += [W([10 + k], cell, time) + [True], ["flush"]]
            crash.append({"kind": "crash", "fmt": fmt, "mode": "w", "pre": [], "via": "reporter", "squeezed": True,
                          "ops": ops + [["crash", "kill"]]})
        crash.append({"kind": "crash", "fmt": fmt, "mode": "w", "pre": [], "via": "reporter", "squeezed": True,
                      "ops": [W([10], cell, time) + [True], ["flush"], W([11], cell, time) + [True], ["flush"], ["close"],
                              ["crash", "kill"]]})
    # XTCReporter(append=True) continues an EXISTING file: its old frames and every reported frame must survive a kill at
    # any operation boundary (right after the reporter is constructed, after the k-th report)
    for pre in ([[1, 2]] if quick else [[1, 2], [1], [1, 2, 3, 4, 5]]):
        for n in ((0, 1) if quick else (0, 1, 2, 3)):
            ops = []
            for k in range(n):
                ops += [W([10 + k], True, True) + [True], ["flush"]]
            crash.append({"kind": "crash", "fmt": "xtc", "mode": "a", "pre": pre, "via": "reporter", "squeezed": True,
                          "ops": ops + [["crash", "kill"]]})
        crash.append({"kind": "crash", "fmt": "xtc", "mode": "a", "pre": pre, "via": "reporter", "squeezed": True,
                      "ops": [W([10], True, True) + [True], ["flush"], ["close"], ["crash", "kill"]]})
    # long runs: total frame counts that cross 8, 16, 32 (header refresh intervals, library chunk sizes, stdio buffer
    # sizes), written one frame per call and several frames per call, every write followed by flush() where the
    # format buffers, killed after the last write
    counts = [9, 11, 17, 23] if quick else list(range(1, 41))
    for fmt, through in CRASH_FORMATS.items():
        for N in counts:
            for chunk in ((1, 4) if quick else (1, 3, 5)):
                if chunk > 1 and N <= chunk:
                    continue
                ops, k = [], 10
                while k < 10 + N:
                    m = min(chunk, 10 + N - k)
                    ops.append(W(range(k, k + m), True, fmt != "dcd"))
                    k += m
                    if not through:
                        ops.append(["flush"])
                how = "kill" if (quick or N % 2) else "exit"
                crash.append({"kind": "crash", "fmt": fmt, "mode": "w", "pre": [], "ops": ops + [["crash", how]],
                              "long": True})
    # HDF5 append mode: an EXISTING file is opened with 'a'; its old frames and every appended+flushed frame
    # must survive a kill (per-mode behaviour of flush()/write())
    for pre in ([[1, 2]] if quick else [[1, 2], [1], []]):
        for how in (["kill"] if quick else ["kill", "exit"]):
            A = lambda ops: crash.append({"kind": "crash", "fmt": "h5", "mode": "a", "pre": pre, "ops": ops + [["crash", how]]})
            A([])                                                         # right after open(..., 'a')
            A([["flush"]])                                                # flush with nothing written
            A([W([10, 11], True, True)])                                  # write() flushes by itself
            A([W([10, 11], True, True), ["flush"]])
            A([W([10, 11], True, True), ["flush"], W([12], True, True), ["flush"]])
            if not quick:
                A([W([10], True, True), ["flush"], W([11, 12], True, True)])
                A([W([10], True, True), W([11], True, True), W([12], True, True), ["flush"], ["flush"]])
                A([W([10, 11], True, True), ["close"]])
    return cases + crash


# ------------------------------------------------------------------ Coq printers
def coq_batch(op):
    return "{| b_ids := %s; b_atoms := %s; b_cell := %s; b_time := %s |}" % (
        clist([cnat(i) for i in op[1]]), cnat(op[4]), cbool(op[2]), cbool(op[3]))


def coq_ob(x):
    if x is None:
        return "ONone"
    return "OBad" if x < 0 else "(OVal %s)" % cnat(x)


def impl_load_to_coq(fmt, load, o=None, ws=None):
    """canonical form of what md.load returned.  Two conventions (both sides of the comparison use them):
    a file into which no write was accepted counts as an empty file; a file into which frames of different
    atom counts were written is corrupt whatever a lenient text loader makes of it."""
    if o is not None and ws is not None:
        oks = [op for op, x in zip(ws, o["ops"]) if "ok" in x]
        if not oks:
            return "(Some [])"
        if len({op[4] for op in oks}) > 1:
            return "None"
    if "load_err" in load or any(i < 0 for i in load["frames"]) or load.get("n_atoms") != 4:
        return "None"
    rows = []
    for k, i in enumerate(load["frames"]):
        t = load["time"][k]
        c = None if load["cell"] is None else load["cell"][k]
        rows.append("(%s, %s, %s)" % (cnat(i), coq_ob(t), coq_ob(c)))
    return "(Some %s)" % clist(rows)


def impl_results(o, n_writes):
    rs = []
    for x in o["ops"][:n_writes]:
        rs.append("Ok" if "ok" in x else "Refused")
    return clist(rs)


def write_ops(c):
    return [op for op in c["ops"] if op[0] == "write"]


def expected_accept(c):
    """the property's own rule: the first batch (that satisfies the format's required fields) fixes the schema,
    later batches are accepted iff they have exactly that schema"""
    fmt, sch, acc = c["fmt"], None, []
    for op in write_ops(c):
        s = (op[4], op[2], op[3])
        if sch is None:
            if (fmt in REQ_CELL and not op[2]) or (fmt in REQ_TIME and not op[3]):
                acc.append(False)
                continue
            sch = s
            acc.append(True)
        else:
            acc.append(s == sch)
    return acc, sch


def expected_obs(c, acc, sch):
    """what md.load must return when exactly the accepted frames are in the file"""
    fmt = c["fmt"]
    ids = list(c.get("pre") or [])
    for op, a in zip(write_ops(c), acc):
        if a:
            ids += op[1]
    if c.get("pre"):
        has_t, has_c = True, True
    else:
        has_t = bool(sch and sch[2])
        has_c = bool(sch and sch[1])
    time = [i if (has_t and fmt in STORES_TIME) else k for k, i in enumerate(ids)]
    cell = [i for i in ids] if (has_c and fmt in STORES_CELL) else None
    return {"frames": ids, "time": time, "cell": cell}


def run_cases(ctx, cases):
    res = ctx.run_impl("writer_impl.py", {"cases": cases})["cases"]
    ctx.log("implementation ran %d cases" % len(cases))
    hist = [(c, o) for c, o in zip(cases, res) if c["kind"] != "crash"]
    crash = [(c, o) for c, o in zip(cases, res) if c["kind"] == "crash"]
    # ---------------- tie: model variant of the format reproduces result codes and md.load
    jobs, coqcases = [], []
    for ci, (c, o) in enumerate(hist):
        ws = write_ops(c)
        inp_h = clist([coq_batch(op) for op in ws])
        exp = "(%s, %s)" % (impl_results(o, len(ws)), impl_load_to_coq(c["fmt"], o["load"], o, ws))
        for v in FORMATS[c["fmt"]]:
            jobs.append((ci, v))
            coqcases.append(("(%s, %s, %s)" % (cnat(v), clist([cnat(i) for i in c["pre"]]), inp_h), exp))
    bad, errs = ctx.coq_mismatches(["MD.Writer.Model"], ("nat * list nat * list batch", "list res * option (list orow)"),
                                   "case_eqb", "run_case", coqcases)
    if errs:
        ctx.break_("correspondence:coqc-evaluation", "\n".join(errs))
        return
    ctx.log("hand models evaluated on %d (case, variant) pairs" % len(coqcases))
    badset = {jobs[i] for i in bad}
    # the translated write() programs (Gen/WriterPrograms.v) must reproduce the implementation too: this is the
    # tie of the reflection theorems (validates-before-mutation, schema-complete) to the code
    gcases = []
    for ci, (c, o) in enumerate(hist):
        ws = write_ops(c)
        gcases.append(("(%s, %s, %s)" % (cstr(c["fmt"]), clist([cnat(i) for i in c["pre"]]),
                                        clist([coq_batch(op) for op in ws])),
                       "(%s, %s)" % (impl_results(o, len(ws)), impl_load_to_coq(c["fmt"], o["load"], o, ws))))
    gbad, gerrs = ctx.coq_mismatches(["MD.Writer.Model", "MD.Gen.WriterPrograms"],
                                     ("string * list nat * list batch", "list res * option (list orow)"),
                                     "case_eqb", "run_gen", gcases)
    ctx.log("translated programs evaluated on %d cases" % len(gcases))
    if gerrs:
        ctx.break_("correspondence:coqc-evaluation(write programs)", "\n".join(gerrs))
    else:
        byf = {}
        for i in gbad:
            byf.setdefault(hist[i][0]["fmt"], []).append(i)
        for fmt, ii in sorted(byf.items()):
            ex = sorted(ii, key=lambda i: len(str(hist[i][0]["ops"])))[0]
            ctx.break_("correspondence:write-program[%s]" % fmt,
                       "the program translated from %s.write does not reproduce the implementation on %d cases; "
                       "e.g. %s -> %s" % (fmt, len(ii), hist[ex][0], hist[ex][1]))
        ctx.notes.setdefault("coverage_extra", {})["write_programs_matching_impl"] = sorted(
            f for f in FORMATS if f not in byf and any(c["fmt"] == f for c, _o in hist))
    explained = {}
    for fmt, variants in FORMATS.items():
        idx = [i for i, (c, _o) in enumerate(hist) if c["fmt"] == fmt]
        if not idx:
            continue
        agree = None
        for v in variants:
            if all((i, v) not in badset for i in idx):
                agree = v
                break
        explained[fmt] = agree
        if agree is None:
            worst = min(variants, key=lambda v: sum((i, v) in badset for i in idx))
            ex = sorted((i for i in idx if (i, worst) in badset), key=lambda i: len(str(hist[i][0]["ops"])))[0]
            ctx.break_("correspondence:writer-model[%s]" % fmt,
                       "no model variant %s reproduces the implementation; e.g. %s -> %s" % (
                           [VNAME[v] for v in variants], hist[ex][0], hist[ex][1]))
            ctx.notes.setdefault("tie_examples", []).append({"case": hist[ex][0], "impl": hist[ex][1]})
    ctx.notes.setdefault("coverage_extra", {}).setdefault("model_variant_matching_impl", {}).update(
        {f: (VNAME[v] if v is not None else None) for f, v in explained.items()})
    # ---------------- the property on the implementation
    oneshot = {}
    def explained_case(i, fmt):
        """the first acceptable variant that reproduces the implementation on THIS case (failures are attributed
        case by case, so that a replay of one case gets the same tags as the full run; the tie itself is
        'one variant reproduces all cases' and is reported above)"""
        for v in FORMATS[fmt]:
            if (i, v) not in badset:
                return v
        return None

    for hi, (c, o) in enumerate(hist):
        ws = write_ops(c)
        nontrivial = len(ws) > 1
        ctx.count({"fmt": c["fmt"], "mode": c["mode"], "pre": c["pre"], "ops": c["ops"], "via": c.get("via", "file object"),
                   "shear": c.get("shear")},
                  nontrivial=nontrivial,
                  bucket="%s/%s%s" % (c["fmt"], c["kind"], "-reporter" if c.get("via") else "-emptypart" if c.get("empty_part")
                                      else "-cellkind" if c.get("shear") else "-squeezed" if c.get("squeezed") else ""))
        fmt = c["fmt"]
        vn = VNAME.get(explained_case(hi, fmt))
        acc, sch = expected_accept(c)
        got = [("ok" in x) for x in o["ops"][:len(ws)]]
        want = expected_obs(c, acc, sch)
        load = o["load"]
        got_obs = None if "load_err" in load else {"frames": load["frames"], "time": load["time"], "cell": load["cell"]}
        if c.get("pre") and sch is not None and (sch != (4, True, True)):
            pass
        ragged_kinds = set()
        for op, a, g in zip(ws, acc, got):
            if g and not a:
                s = (op[4], op[2], op[3])
                if sch and s[0] != sch[0]:
                    ragged_kinds.add("atoms")
                if sch and s[1] != sch[1]:
                    ragged_kinds.add("cell")
                if sch and s[2] != sch[2]:
                    ragged_kinds.add("time")
        tags = {"fmt": fmt, "explained_by": vn, "kind": c["kind"]}
        if got != acc:
            if any(a and not g for a, g in zip(acc, got)):
                ctx.fail("%s: a write with the file's own schema was refused" % fmt, c, observed=o, expected=acc,
                         tags=dict(tags, what="refuses_valid"))
            else:
                ctx.fail("%s: a ragged write (%s changed) was accepted" % (fmt, "/".join(sorted(ragged_kinds))), c,
                         observed=o, expected=acc, tags=dict(tags, what="ragged_accepted", ragged=sorted(ragged_kinds)))
        elif not any(acc) and not c.get("pre"):
            pass            # nothing was accepted: no file / an empty file, nothing to load
        elif got_obs != want:
            only_time = (got_obs is not None and got_obs["frames"] == want["frames"] and got_obs["cell"] == want["cell"])
            if only_time:
                ctx.fail("%s: the stored times depend on how the frames were split into write calls" % fmt, c,
                         observed=load, expected=want, tags=dict(tags, what="time_partition"))
            elif c.get("shear") and got_obs is not None and got_obs["frames"] == want["frames"] and got_obs["time"] == want["time"]:
                ctx.fail("%s: a frame is loaded with a cell (lengths/angles) other than the one handed to write() when the kind "
                         "of cell changes between the frames of a call" % fmt, c, observed=load, expected=want,
                         tags=dict(tags, what="cell_kind"))
            elif c["kind"] == "partition" or all(acc):
                ctx.fail("%s: incremental writing differs from one-shot writing" % fmt, c, observed=load, expected=want,
                         tags=dict(tags, what="partition", with_time=c.get("time"), with_cell=c.get("cell")))
            else:
                ctx.fail("%s: after a refused write the file no longer loads with exactly the accepted frames" % fmt, c,
                         observed=load, expected=want, tags=dict(tags, what="refused_not_atomic"))
        if c["kind"] == "partition" and c["mode"] == "w":
            key = (fmt, c["cell"], c["time"], sum(len(op[1]) for op in ws), c.get("shear"))
            if len(ws) == 1:
                oneshot[key] = got_obs
    for hi, (c, o) in enumerate(hist):
        # partitioned result against the implementation's own one-shot result (needs no expectation of mine)
        if c["kind"] == "partition" and c["mode"] == "w":
            ws = write_ops(c)
            key = (c["fmt"], c["cell"], c["time"], sum(len(op[1]) for op in ws), c.get("shear"))
            load = o["load"]
            got_obs = None if "load_err" in load else {"frames": load["frames"], "time": load["time"], "cell": load["cell"]}
            if key in oneshot and oneshot[key] != got_obs and all("ok" in x for x in o["ops"][:len(ws)]):
                one = oneshot[key]
                only_time = (one is not None and got_obs is not None and one["frames"] == got_obs["frames"]
                             and one["cell"] == got_obs["cell"])
                ctx.fail(("%s: the stored times depend on how the frames were split into write calls" if only_time
                          else "%s: incremental writing differs from one-shot writing") % c["fmt"], c, observed=load,
                         expected=one, tags={"fmt": c["fmt"], "explained_by": VNAME.get(explained_case(hi, c["fmt"])),
                                             "kind": "partition", "what": "time_partition" if only_time else "partition",
                                             "with_time": c.get("time"), "with_cell": c.get("cell")})
    # ---------------- crash points (fault enumeration) against the automaton
    ccases, cidx = [], []
    fe = ctx.notes.setdefault("coverage_extra", {}).setdefault("fault_enumeration", {"crash_points": 0, "by_format": {}})
    fe["crash_points"] += len(crash)
    for c, _o in crash:
        fe["by_format"][c["fmt"]] = fe["by_format"].get(c["fmt"], 0) + 1
    fe["method"] = "child process runs the history and is terminated by os._exit / SIGKILL at the crash point; parent md.load()s"
    for i, (c, o) in enumerate(crash):
        ctx.count({"fmt": c["fmt"], "mode": c.get("mode"), "pre": c.get("pre"), "ops": c["ops"],
                   "via": c.get("via", "file object")}, nontrivial=True,
                  bucket="%s/crash%s" % (c["fmt"], "-reporter" if c.get("via") else "-append" if c.get("mode") == "a" else ""))
        load = o["load"]
        fmt = c["fmt"]
        dops, flushed, written, since = [], [], [], []
        if c.get("pre"):
            # the frames already in the file were written and closed by an earlier handle
            dops += ["DWrite %s" % clist([cnat(x) for x in c["pre"]]), "DClose"]
            flushed += c["pre"]
            written += c["pre"]
        for op in c["ops"]:
            if op[0] == "write":
                dops.append("DWrite %s" % clist([cnat(x) for x in op[1]]))
                written += op[1]
                since += op[1]
                if CRASH_FORMATS[fmt]:
                    flushed += since
                    since = []
            elif op[0] == "flush":
                dops.append("DFlush")
                flushed += since
                since = []
            elif op[0] == "close":
                dops.append("DClose")
                flushed += since
                since = []
        got = None if "load_err" in load else load["frames"]
        tags = {"fmt": fmt, "kind": "crash", "how": c["ops"][-1][1], "mode": c.get("mode", "w"), "via": c.get("via", "file object"),
                "n_writes": sum(1 for op in c["ops"] if op[0] == "write")}
        if not written:
            continue        # nothing written: any outcome (no file, unreadable empty file) is acceptable
        if got is None:
            if flushed:
                ctx.fail("%s: after write+flush a killed writer leaves a file that does not load" % fmt, c, observed=load,
                         expected={"at_least": flushed}, tags=dict(tags, what="crash_unloadable"))
            continue
        if got[:len(flushed)] != flushed or got != written[:len(got)]:
            ctx.fail("%s: after write+flush a killed writer lost frames (or the file holds frames never written)" % fmt,
                     c, observed=load, expected={"at_least": flushed, "prefix_of": written},
                     tags=dict(tags, what="crash_lost"))
        ccases.append(("(%s, %s, %s)" % (cbool(CRASH_FORMATS[fmt]), clist(dops), clist([cnat(x) for x in got])), "true"))
        cidx.append(i)
    hcases, hidx = [], []
    for i, (c, o) in enumerate(crash):
        if c["fmt"] != "dcd" or "load_err" in o["load"]:
            continue
        dops = []
        for op in c["ops"]:
            if op[0] == "write":
                dops.append("DWrite %s" % clist([cnat(x) for x in op[1]]))
            elif op[0] == "close":
                dops.append("DClose")
        if not any(d.startswith("DWrite") for d in dops):
            continue
        # the writer as found: header refreshed after every frame (1), reader recomputes the count (false)
        hcases.append(("(dcd_header_every, false, %s, %s)" % (clist(dops), clist([cnat(x) for x in o["load"]["frames"]])), "true"))
        hidx.append(i)
    if hcases:
        badh, errh = ctx.coq_mismatches(["MD.Writer.Model", "MD.Writer.Dsl", "MD.Gen.WriterPrograms"],
                                        ("nat * bool * list dop * list nat", "bool"), "Bool.eqb",
                                        "header_crash_ok", hcases)
        if errh:
            ctx.break_("correspondence:coqc-evaluation(header)", "\n".join(errh))
        for b in badh[:3]:
            c, o = crash[hidx[b]]
            ctx.break_("correspondence:header-count-automaton[dcd]",
                       "after the kill the file does not load with the frames of all completed writes, as the automaton "
                       "with a header refreshed after every frame says: %d written -> %s loaded" % (
                           sum(len(op[1]) for op in c["ops"] if op[0] == "write"), len(o["load"]["frames"])))
    if ccases:
        prel = ("Definition crash_ok (c : bool * list dop * list nat) : bool := let '(a, ops, got) := c in "
                "existsb (list_eqb Nat.eqb got) (crash_images (drun a ops)).")
        badc, errc = ctx.coq_mismatches(["MD.Writer.Model"], ("bool * list dop * list nat", "bool"), "Bool.eqb",
                                        "crash_ok", ccases, prelude=prel)
        if errc:
            ctx.break_("correspondence:coqc-evaluation(crash)", "\n".join(errc))
        for b in badc:
            c, o = crash[cidx[b]]
            ctx.break_("correspondence:durability-automaton[%s]" % c["fmt"],
                       "the file after the crash is not one of the automaton's crash images: %s -> %s" % (c, o["load"]))


def checker_verdicts(ctx):
    """the reflection checkers' verdict on the write() programs translated from today's source: a format whose
    write() does not test every field of its API against the file (or never records a schema) fails the
    property by the checker's own theorem; reported like any other failure (known findings match by tags)"""
    rc, out = ctx.coq_eval(["MD.Writer.Model", "MD.Writer.Dsl", "MD.Gen.WriterPrograms"], "verdicts2")
    if rc != 0:
        ctx.break_("reflection:verdicts", out[-1500:])
        return
    rows = _re.findall(r'\("(\w+)"(?:%string)?\s*,\s*(true|false)\s*,\s*(\[[^\]]*\]|nil)\s*,\s*(true|false)\)', out, _re.S)
    if len(rows) != len(WRITERS):
        ctx.break_("reflection:verdicts", "unparsed: " + out[-800:])
        return
    table = {}
    for fmt, vbm, unc, ini in rows:
        unc = _re.findall(r'"(\w+)"', unc)
        table[fmt] = {"validates_before_mutation": vbm == "true", "untested_fields": unc, "records_schema": ini == "true"}
        asfound = VNAME.get(FORMATS[fmt][-1])
        tags = {"fmt": fmt, "explained_by": asfound, "kind": "verdict"}
        if vbm != "true":
            ctx.fail("%s: write() mutates the file before a schema test (checker verdict on today's source)" % fmt,
                     {"kind": "verdict", "fmt": fmt}, observed=table[fmt], expected="check_vbm = true",
                     tags=dict(tags, what="mutation_before_validation"))
        if ini != "true":
            ctx.fail("%s: write() never records a schema, every call is a first write (checker verdict on today's source)"
                     % fmt, {"kind": "verdict", "fmt": fmt}, observed=table[fmt], expected="check_init = true",
                     tags=dict(tags, what="no_schema_recorded"))
        if unc:
            ctx.fail("%s: write() does not test %s against the file's schema (checker verdict on today's source)"
                     % (fmt, "/".join(unc)), {"kind": "verdict", "fmt": fmt}, observed=table[fmt],
                     expected="check_complete = true", tags=dict(tags, what="schema_incomplete", ragged=sorted(unc)))
    ctx.notes.setdefault("coverage_extra", {})["checker_verdicts"] = table


def correspond(ctx):
    checker_verdicts(ctx)
    cases = build_cases(ctx)
    ctx.log("cases:", len(cases))
    run_cases(ctx, cases)


def search(ctx, broken):
    # the correspondence stage already checks the property itself on every case; widen the grid when quick
    if ctx.tier == "thorough":
        return
    old = ctx.tier
    ctx.tier = "thorough"
    try:
        cases = build_cases(ctx)
    finally:
        ctx.tier = old
    run_cases(ctx, cases)


def replay(ctx, rec):
    c = rec["case"]
    if c.get("kind") == "verdict":
        checker_verdicts(ctx)
        ctx.failures = [f for f in ctx.failures if f["case"].get("fmt") == c.get("fmt")]
        return
    c.setdefault("pre", [])
    c.setdefault("mode", "w")
    run_cases(ctx, [c])


# ============================================================================ translator of the write() methods
# Python `ast` over the write method of every streaming writer  ->  a [wprog] of coq/Writer/Dsl.v, in program order.
# What it recognises (everything else that involves the schema makes it give up = degraded for that format):
#   Require f   x = ensure_type(x, ..., can_be_none=False) for a cell/time argument;  `if a is None or b is None: raise`
#   Check f sd  an `if ...: raise` (no mutation inside) whose accumulated condition mentions the object's state
#               (`self...`) and a field: n_atoms/shape[1] -> FAtoms, *cell*/*box* -> FCell, time(s) -> FTime;
#               direction from `<arg> is None` (Missing) / `<arg> is not None` (Extra); a local variable assigned
#               under such a condition carries it to the `if local is not None: raise` that follows;
#               inside try/except-with-raise, a mutation of field f is preceded by an implicit Check f Extra
#               (KeyError / NoSuchNodeError of the container); array containers (h5, nc) check the per-frame
#               shape before they append/assign coordinates (implicit Check FAtoms Both)
#   IfFirst     `if self._needs_initialization:`, `if self._needs_write_initialization:`,
#               `if self._w_has_box is None:`, `if self.frame_counter == 0:`
#   Init        inside it: self._initialize_*(...), assignments to attributes of self
#   Mutate m    x.append(..) on a node of the file, self._fh.write / self._file.write / print(.., file=..),
#               self._write*(..), self.write_*(..), `self._handle.variables[..][..] = ..`; a loop over frames that
#               mutates is ONE Mutate MRows; a loop over a literal list of field names is unrolled
#   Commit      self._frame_index += .. / self.frame_counter += ..  (also inside the called self._write for .pyx)
# Raises that depend on values only (overflow of %8.3f, NaN positions, sorted times) are not schema tests: ignored.
import ast as _ast
import os as _os
import re as _re
import textwrap as _tw

from common import REPO as _REPO


class WOutside(Exception):
    pass


WRITERS = [
    # key, file, class, is_pyx, container (array library checks shapes), layout name in Coq
    ("h5", "mdtraj/formats/hdf5.py", "HDF5TrajectoryFile", False, True, None),
    ("nc", "mdtraj/formats/netcdf.py", "NetCDFTrajectoryFile", False, True, None),
    ("xtc", "mdtraj/formats/xtc/xtc.pyx", "XTCTrajectoryFile", True, False, "pol_xdr"),
    ("trr", "mdtraj/formats/xtc/trr.pyx", "TRRTrajectoryFile", True, False, "pol_xdr"),
    ("dcd", "mdtraj/formats/dcd/dcd.pyx", "DCDTrajectoryFile", True, False, "pol_dcd"),
    ("mdcrd", "mdtraj/formats/mdcrd.py", "MDCRDTrajectoryFile", False, False, "pol_mdcrd"),
    ("xyz", "mdtraj/formats/xyzfile.py", "XYZTrajectoryFile", False, False, "pol_xyz"),
    ("lammpstrj", "mdtraj/formats/lammpstrj.py", "LAMMPSTrajectoryFile", False, False, "pol_lammpstrj"),
    ("gro", "mdtraj/formats/gro.py", "GroTrajectoryFile", False, False, "pol_gro"),
    ("pdb", "mdtraj/formats/pdb/pdbfile.py", "PDBTrajectoryFile", False, False, "pol_pdb"),
    ("dtr", "mdtraj/formats/dtr/dtr.pyx", "DTRTrajectoryFile", True, False, "pol_dtr"),
]
FIRST_ATTRS = {"_needs_initialization", "_needs_write_initialization", "_w_has_box", "frame_counter"}
COUNTER_ATTRS = {"_frame_index", "frame_counter"}
FIELD_ELEMENT = {"coordinates": ("FAtoms", "MCoords"), "xyz": ("FAtoms", "MCoords"), "time": ("FTime", "MTime"),
                 "cell_lengths": ("FCell", "MCell"), "cell_angles": ("FCell", "MOther")}


def _dotted(n):
    if isinstance(n, _ast.Name):
        return n.id
    if isinstance(n, _ast.Attribute):
        b = _dotted(n.value)
        return None if b is None else b + "." + n.attr
    return None


def _field_of_name(name):
    n = name.lower()
    if n in ("n_atoms", "_n_atoms", "natoms"):
        return "FAtoms"
    if "cell" in n or "box" in n:
        return "FCell"
    if n in ("time", "times"):
        return "FTime"
    return None


class WTr:
    def __init__(self, container, helpers):
        self.container = container
        self.helpers = helpers          # name -> source text of other methods of the class (for Commit inside _write)
        self.taint = {}                 # local name -> set of (field, side or None), needs self mention already seen

    # ---- expression facts
    @staticmethod
    def _walk_pruned(node):
        """ast.walk without the `self.<first-write attribute> is [not] None` guards (they say whether the file has a
        schema, not what the schema is)"""
        todo = [node]
        while todo:
            n = todo.pop()
            if isinstance(n, _ast.Compare) and isinstance(n.left, _ast.Attribute) and n.left.attr in FIRST_ATTRS \
                    and len(n.comparators) == 1 and isinstance(n.comparators[0], _ast.Constant) \
                    and n.comparators[0].value is None:
                continue
            yield n
            todo.extend(_ast.iter_child_nodes(n))

    def fields(self, node):
        out = set()
        for n in self._walk_pruned(node):
            if isinstance(n, _ast.Name):
                f = _field_of_name(n.id)
                if f:
                    out.add(f)
            elif isinstance(n, _ast.Attribute):
                f = _field_of_name(n.attr)
                if f:
                    out.add(f)
            elif isinstance(n, _ast.Constant) and isinstance(n.value, str) and n.value in FIELD_ELEMENT:
                if n.value not in ("coordinates", "xyz"):
                    out.add(FIELD_ELEMENT[n.value][0])
            elif isinstance(n, _ast.Subscript) and isinstance(n.value, _ast.Attribute) and n.value.attr == "shape":
                sl = n.slice
                if isinstance(sl, _ast.Constant) and sl.value == 1:
                    out.add("FAtoms")
                elif isinstance(sl, _ast.Slice) and self.container:
                    out.add("FAtoms")            # node.shape[1:] != contents.shape[1:]
        return out

    def self_mention(self, node):
        return any(isinstance(n, _ast.Name) and n.id == "self" for n in _ast.walk(node))

    def sides(self, node):
        """{field: set of sides} from `<x> is None` / `<x> is not None` where x names a field argument"""
        out = {}
        for n in _ast.walk(node):
            if isinstance(n, _ast.Compare) and len(n.ops) == 1 and isinstance(n.comparators[0], _ast.Constant) \
                    and n.comparators[0].value is None and isinstance(n.left, _ast.Name):
                f = _field_of_name(n.left.id) or self.loopvar_field.get(n.left.id)
                if f is None:
                    continue
                if isinstance(n.ops[0], _ast.Is):
                    out.setdefault(f, set()).add("Missing")
                elif isinstance(n.ops[0], _ast.IsNot):
                    out.setdefault(f, set()).add("Extra")
        return out

    loopvar_field = {}

    def is_mutation_call(self, c):
        d = _dotted(c.func) or ""
        if isinstance(c.func, _ast.Attribute):
            a = c.func.attr
            if a == "append" and (self.self_mention(c.func.value) or "node" in (_dotted(c.func.value) or "")):
                return True
            if a == "write" and d.split(".")[-2:-1] and d.split(".")[-2] in ("_fh", "_file", "fh"):
                return True
            if d.startswith("self.") and (a.startswith("_write") or a.startswith("write_")):
                return True
        if d == "print" and any(k.arg == "file" for k in c.keywords):
            return True
        if d in ("write_timestep", "xdrlib.write_xtc", "trrlib.write_trr"):
            return True
        return False

    def has_mutation(self, node):
        for n in _ast.walk(node):
            if isinstance(n, _ast.Call) and self.is_mutation_call(n):
                return True
            if isinstance(n, (_ast.Assign, _ast.AugAssign)):
                tg = n.targets if isinstance(n, _ast.Assign) else [n.target]
                for t in tg:
                    if isinstance(t, _ast.Subscript) and self.self_mention(t):
                        return True
        return False

    def has_raise(self, node):
        return any(isinstance(n, (_ast.Raise, _ast.Assert)) for n in _ast.walk(node))

    def mut_kind(self, node):
        names = set()
        for n in _ast.walk(node):
            if isinstance(n, _ast.Constant) and isinstance(n.value, str) and n.value in FIELD_ELEMENT:
                names.add(FIELD_ELEMENT[n.value][1])
        if len(names) == 1:
            return names.pop()
        fs = self.fields(node)
        coords = any(isinstance(n, _ast.Name) and n.id in ("xyz", "coordinates", "positions", "coord", "line")
                     for n in _ast.walk(node))
        if self.container and not coords and not fs:
            return "MOther"                     # an array of the container that is outside the model (lambda, ...)
        if coords or len(fs) > 1 or not fs:
            return "MRows"
        return {"FTime": "MTime", "FCell": "MCell", "FAtoms": "MRows"}[fs.pop()]

    # ---- statements
    def block(self, stmts, ctx):
        out = []
        for s in stmts:
            out += self.stmt(s, ctx)
        return out

    def checks_from_test(self, test_nodes, stmt):
        """schema tests implied by an `if ...: raise` whose accumulated conditions are test_nodes"""
        fs, selfm, sd = set(), False, {}
        for t in test_nodes:
            fs |= self.fields(t)
            selfm = selfm or self.self_mention(t)
            for f, ss in self.sides(t).items():
                sd.setdefault(f, set()).update(ss)
            for n in _ast.walk(t):
                if isinstance(n, _ast.Name) and n.id in self.taint:
                    for (f, side) in self.taint[n.id]:
                        fs.add(f)
                        selfm = True
                        if side:
                            sd.setdefault(f, set()).add(side)
        if not fs:
            return []
        if not selfm:
            # a test of the arguments alone: `if a is None or b is None: raise` requires them; anything else
            # (both-or-neither, value checks) is not a schema test
            own = test_nodes[-1]
            if isinstance(own, _ast.BoolOp) and isinstance(own.op, _ast.Or) or isinstance(own, _ast.Compare):
                parts = own.values if isinstance(own, _ast.BoolOp) else [own]
                req = []
                for p in parts:
                    if isinstance(p, _ast.Compare) and len(p.ops) == 1 and isinstance(p.ops[0], _ast.Is) \
                            and isinstance(p.comparators[0], _ast.Constant) and p.comparators[0].value is None \
                            and isinstance(p.left, _ast.Name) and _field_of_name(p.left.id) in ("FCell", "FTime"):
                        req.append(_field_of_name(p.left.id))
                    else:
                        return []
                return [("Require", f) for f in dict.fromkeys(req)] if len(test_nodes) == 1 else []
            return []
        out = []
        for f in sorted(fs):
            if f == "FAtoms":
                out.append(("Check", f, "Both"))
            else:
                ss = sd.get(f, set())
                if len(ss) == 1:
                    out.append(("Check", f, next(iter(ss))))
                elif len(ss) == 2:
                    out.append(("Check", f, "Both"))
                else:
                    raise WOutside("direction of the %s test on line %d" % (f, stmt.lineno))
        return out

    def stmt(self, s, ctx):
        tests = ctx["tests"]
        if isinstance(s, _ast.Expr) and isinstance(s.value, _ast.Constant):
            return []
        if isinstance(s, (_ast.Pass, _ast.Import, _ast.ImportFrom, _ast.Return)):
            return []
        if isinstance(s, _ast.Raise):
            return self.checks_from_test(tests, s) if tests else []
        if isinstance(s, _ast.Assert):
            return []
        if isinstance(s, _ast.If):
            return self.if_stmt(s, ctx)
        if isinstance(s, (_ast.For, _ast.While)):
            return self.loop(s, ctx)
        if isinstance(s, _ast.Try):
            raising = any(self.has_raise(h) for h in s.handlers)
            c2 = dict(ctx, in_try=ctx["in_try"] or raising)
            out = self.block(s.body, c2)
            for h in s.handlers:
                if self.has_mutation(h):
                    raise WOutside("mutation in an except handler")
            out += self.block(s.orelse, ctx) + self.block(s.finalbody, ctx)
            return out
        if isinstance(s, _ast.With):
            return self.block(s.body, ctx)
        if isinstance(s, (_ast.Assign, _ast.AugAssign, _ast.AnnAssign)):
            tg = s.targets if isinstance(s, _ast.Assign) else [s.target]
            val = s.value
            # counters
            for t in tg:
                d = _dotted(t) or ""
                if d.startswith("self.") and d.split(".")[-1] in COUNTER_ATTRS and isinstance(s, _ast.AugAssign):
                    return [("Commit",)]
            # ensure_type(..., can_be_none=False) on a field argument
            if isinstance(val, _ast.Call) and (_dotted(val.func) or "").endswith("ensure_type") and val.args:
                kws = {k.arg: k.value for k in val.keywords}
                cbn = kws.get("can_be_none")
                a0 = val.args[0]
                if isinstance(cbn, _ast.Constant) and cbn.value is False and isinstance(a0, _ast.Name):
                    f = _field_of_name(a0.id)
                    if f in ("FCell", "FTime") and not any(tn for tn in tests):
                        return [("Require", f)]
                return []
            # mutation by subscript assignment into the file's variables
            for t in tg:
                if isinstance(t, _ast.Subscript) and self.self_mention(t):
                    return self.mutation(s, ctx)
            if val is not None and any(isinstance(n, _ast.Call) and self.is_mutation_call(n) for n in _ast.walk(val)):
                return self.mutation(s, ctx)
            # self.<attr> = ...  inside a first-write block is the schema being recorded
            if any((_dotted(t) or "").startswith("self.") for t in tg):
                return [("Init",)] if ctx["in_first"] else []
            # taint of locals assigned under schema conditions
            for t in tg:
                if isinstance(t, _ast.Name):
                    fs, selfm, sd = set(), False, {}
                    for tn in tests:
                        fs |= self.fields(tn)
                        selfm = selfm or self.self_mention(tn)
                        for f, ss in self.sides(tn).items():
                            sd.setdefault(f, set()).update(ss)
                    if fs and selfm and not (isinstance(val, _ast.Constant) and val.value is None):
                        for f in fs:
                            ss = sd.get(f, {None})
                            for side in ss:
                                self.taint.setdefault(t.id, set()).add((f, side))
            return []
        if isinstance(s, _ast.Expr) and isinstance(s.value, _ast.Call):
            c = s.value
            d = _dotted(c.func) or ""
            if d.startswith("self._initialize"):
                return [("Init",)]
            if self.is_mutation_call(c):
                return self.mutation(s, ctx)
            if d.startswith("self.") and d not in ("self.flush", "self._validate_open", "self.close"):
                argn = {n.id for a in list(c.args) + [k.value for k in c.keywords] for n in _ast.walk(a)
                        if isinstance(n, _ast.Name)}
                if any(_field_of_name(x) or x in ("xyz", "coordinates", "positions") for x in argn):
                    raise WOutside("call %s(...) receives the data of the write call (line %d)" % (d, s.lineno))
            return []
        if isinstance(s, (_ast.Expr, _ast.Delete, _ast.Global)):
            return []
        raise WOutside("statement %s on line %d" % (type(s).__name__, s.lineno))

    def mutation(self, s, ctx):
        kind = self.mut_kind(s)
        if ctx["in_first"] and kind == "MRows":
            kind = "MOther"                     # a title / header line written once
        out = []
        if kind == "MCoords" and self.container:
            out.append(("Check", "FAtoms", "Both"))
        if ctx["in_try"] and kind in ("MTime", "MCell"):
            out.append(("Check", {"MTime": "FTime", "MCell": "FCell"}[kind], "Extra"))
        out.append(("Mutate", kind))
        # a helper of a .pyx class that advances the frame counter itself
        for n in _ast.walk(s):
            if isinstance(n, _ast.Call):
                d = _dotted(n.func) or ""
                if d.startswith("self._write") and d.split(".")[-1] in self.helpers:
                    if _re.search(r"self\.(?:%s)\s*\+=" % "|".join(COUNTER_ATTRS), self.helpers[d.split(".")[-1]]):
                        out.append(("Commit",))
        return out

    def is_first_test(self, t):
        """+1: the test is true on a first write (`self._needs_initialization`, `self._w_has_box is None`,
        `self.frame_counter == 0`); -1: it is true on later writes (`not ...`, `is not None`, `!= 0`, `> 0`);
        0: not a first-write test"""
        names = {n.attr for n in _ast.walk(t) if isinstance(n, _ast.Attribute) and isinstance(n.value, _ast.Name)
                 and n.value.id == "self"}
        args = {n.id for n in _ast.walk(t) if isinstance(n, _ast.Name) and n.id != "self"}
        if not names or not names <= FIRST_ATTRS or (args - {"None", "True", "False"}):
            return 0
        if isinstance(t, _ast.UnaryOp) and isinstance(t.op, _ast.Not):
            return -self.is_first_test(t.operand)
        if isinstance(t, _ast.Attribute):
            return 1 if t.attr in ("_needs_initialization", "_needs_write_initialization") else 0
        if isinstance(t, _ast.Compare) and len(t.ops) == 1 and isinstance(t.comparators[0], _ast.Constant) \
                and isinstance(t.left, _ast.Attribute):
            v, op = t.comparators[0].value, t.ops[0]
            if t.left.attr == "_w_has_box" and v is None:
                return 1 if isinstance(op, (_ast.Is, _ast.Eq)) else (-1 if isinstance(op, (_ast.IsNot, _ast.NotEq)) else 0)
            if t.left.attr == "frame_counter" and v == 0:
                return 1 if isinstance(op, _ast.Eq) else (-1 if isinstance(op, (_ast.NotEq, _ast.Gt)) else 0)
            if t.left.attr in ("_needs_initialization", "_needs_write_initialization") and isinstance(v, bool):
                pos = isinstance(op, (_ast.Is, _ast.Eq)) == v
                return 1 if pos else -1
        return 0

    def if_stmt(self, s, ctx):
        tests = ctx["tests"]
        pol = self.is_first_test(s.test)
        if pol:
            first_body, later_body = (s.body, s.orelse) if pol > 0 else (s.orelse, s.body)
            a = self.block(first_body, dict(ctx, in_first=True))
            c = self.block(later_body, ctx)
            # the attribute the test reads must be updated by the first write (in the block itself, or, for a
            # frame counter, by the Commit of the method / its helper); otherwise the file never leaves the
            # "first write" state and no schema is ever recorded: no Init
            attrs = {n.attr for n in _ast.walk(s.test) if isinstance(n, _ast.Attribute) and n.attr in FIRST_ATTRS}
            assigned = set()
            for n in _ast.walk(s):
                if isinstance(n, (_ast.Assign, _ast.AugAssign)):
                    for t in (n.targets if isinstance(n, _ast.Assign) else [n.target]):
                        if isinstance(t, _ast.Attribute) and isinstance(t.value, _ast.Name) and t.value.id == "self":
                            assigned.add(t.attr)
            for n in _ast.walk(s):
                if isinstance(n, _ast.Call) and (_dotted(n.func) or "").startswith("self._initialize"):
                    assigned |= attrs          # _initialize_write / _initialize_headers set their own flags
            if "frame_counter" in attrs and ctx.get("commits"):
                assigned.add("frame_counter")
            if not (attrs <= assigned):
                a = [x for x in a if x != ("Init",)]
            return [("IfFirst", a, c)]
        mut = self.has_mutation(s)
        if not mut and self.has_raise(s):
            out = self.block(s.body, dict(ctx, tests=tests + [s.test]))
            out += self.block(s.orelse, ctx)
            return out
        if mut:
            if self.has_raise(s) and (self.fields(s.test) and self.self_mention(s.test)):
                raise WOutside("schema test mixed with a mutation on line %d" % s.lineno)
            return self.block(s.body, ctx) + self.block(s.orelse, ctx)
        # neither raise nor mutation: locals may get tainted
        return self.block(s.body, dict(ctx, tests=tests + [s.test])) + self.block(s.orelse, dict(ctx, tests=tests + [s.test]))

    def loop(self, s, ctx):
        if isinstance(s, _ast.For) and isinstance(s.iter, (_ast.List, _ast.Tuple)) and s.iter.elts:
            # a loop over a literal list of field names (or of (name, value) pairs): unrolled
            out = []
            for e in s.iter.elts:
                name = None
                if isinstance(e, _ast.Constant) and isinstance(e.value, str):
                    name = e.value
                elif isinstance(e, _ast.Tuple) and e.elts and isinstance(e.elts[0], _ast.Constant):
                    name = e.elts[0].value
                if name is None:
                    raise WOutside("loop over a literal that is not a list of field names (line %d)" % s.lineno)
                if name not in FIELD_ELEMENT:
                    continue                      # velocities, kineticEnergy ...: fields outside the model
                f, m = FIELD_ELEMENT[name]
                out += self.unrolled(s, f, m, ctx)
            return out
        if self.has_mutation(s):
            for n in _ast.walk(s):
                if isinstance(n, _ast.If) and self.has_raise(n) and self.fields(n.test) and self.self_mention(n.test):
                    raise WOutside("schema test inside a frame loop (line %d)" % n.lineno)
            return [("Mutate", "MRows")]
        return []

    def unrolled(self, loop, f, m, ctx):
        """one iteration of a field loop for field f: tests become Check f <side>, mutations Mutate m"""
        # loop targets (value variable) and locals assigned from locals()[name] stand for the field's argument
        tv = set()
        tg = loop.target
        for n in _ast.walk(tg):
            if isinstance(n, _ast.Name):
                tv.add(n.id)
        for n in _ast.walk(loop):
            if isinstance(n, _ast.Assign) and isinstance(n.targets[0], _ast.Name) and isinstance(n.value, _ast.Subscript) \
                    and (_dotted(getattr(n.value.value, "func", None)) == "locals"):
                tv.add(n.targets[0].id)
        old = WTr.loopvar_field
        WTr.loopvar_field = {v: f for v in tv}
        try:
            out = []
            for st in loop.body:
                out += self.unrolled_stmt(st, f, m, ctx, [])
            return out
        finally:
            WTr.loopvar_field = old

    def unrolled_stmt(self, st, f, m, ctx, tests):
        if isinstance(st, _ast.If):
            if self.has_mutation(st):
                out = []
                if m == "MCoords" and self.container:
                    out.append(("Check", "FAtoms", "Both"))
                elif ctx["in_try"] and f != "FAtoms":
                    out.append(("Check", f, "Extra"))
                out.append(("Mutate", m))
                return out
            if self.has_raise(st):
                ss = set()
                for t in tests + [st.test]:
                    for _f, s2 in self.sides(t).items():
                        ss |= s2
                shape = any(isinstance(n, _ast.Attribute) and n.attr == "shape" for n in _ast.walk(st.test))
                if f == "FAtoms":
                    return [("Check", "FAtoms", "Both")] if shape else []
                if shape:
                    return []                      # per-frame shape of time/cell arrays: not the schema
                if len(ss) == 1:
                    return [("Check", f, next(iter(ss)))]
                if len(ss) == 2:
                    return [("Check", f, "Both")]
                raise WOutside("direction of a test in a field loop (line %d)" % st.lineno)
            return []
        if isinstance(st, _ast.Try):
            raising = any(self.has_raise(h) for h in st.handlers)
            out = []
            for x in st.body:
                out += self.unrolled_stmt(x, f, m, dict(ctx, in_try=ctx["in_try"] or raising), tests)
            return out
        if self.has_mutation(st):
            out = []
            if m == "MCoords" and self.container:
                out.append(("Check", "FAtoms", "Both"))
            elif ctx["in_try"] and f != "FAtoms":
                out.append(("Check", f, "Extra"))
            out.append(("Mutate", m))
            return out
        return []


def _extract_method(text, cls, name):
    m = _re.search(r"^(cdef\s+)?class\s+%s\b.*?:\s*$" % _re.escape(cls), text, _re.M)
    if not m:
        raise WOutside("class %s not found" % cls)
    body = text[m.end():]
    nxt = _re.search(r"^(?:cdef\s+)?class\s+\w+", body, _re.M)
    if nxt:
        body = body[:nxt.start()]
    d = _re.search(r"^([ \t]+)(?:def|cdef|cpdef)\s+(?:\w+\s+)?%s\s*\(" % _re.escape(name), body, _re.M)
    if not d:
        return None
    ind = len(d.group(1))
    lines = body[d.start():].splitlines()
    out = [lines[0]]
    in_sig = not lines[0].rstrip().endswith(":")
    for ln in lines[1:]:
        if in_sig:
            out.append(ln)
            if ln.rstrip().endswith(":"):
                in_sig = False
            continue
        if ln.strip() and (len(ln) - len(ln.lstrip())) <= ind:
            break
        out.append(ln)
    return _tw.dedent("\n".join(out))


def _strip_pyx(src):
    out = []
    for line in src.splitlines():
        if _re.match(r"\s*cdef\s+(?!class)", line) and not _re.match(r"\s*cdef\s+\w+\s*\(", line):
            continue
        line = _re.sub(r"^(\s*)c?p?def\s+(?:\w+\s+)?(\w+\s*\()", r"\1def \2", line) if _re.match(r"\s*(cdef|cpdef)\s", line) else line
        line = _re.sub(r"np\.ndarray\[[^\]]*\]\s+", "", line)
        line = _re.sub(r"\b(?:unsigned\s+)?(?:char|int|float|double|long|bint|object|int64_t)\s*\*?\s+(?=\w+\s*[,=)])", "", line)
        line = _re.sub(r"(?<!\bis)\s+not None(?=\s*[,)])", "", line)
        line = _re.sub(r"<[A-Za-z_][\w\s.]*\**>", "", line)
        line = _re.sub(r"&(?=[A-Za-z_])", "", line)
        out.append(line)
    return "\n".join(out)


def _seqterm(steps):
    def one(x):
        if x[0] == "IfFirst":
            return "(IfFirst %s %s)" % (_seqterm(x[1]), _seqterm(x[2]))
        if x[0] == "Check":
            return "(Check %s %s)" % (x[1], x[2])
        if x[0] == "Require":
            return "(Require %s)" % x[1]
        if x[0] == "Mutate":
            return "(Mutate %s)" % x[1]
        return x[0]
    if not steps:
        return "Skip"
    r = one(steps[-1])
    for x in reversed(steps[:-1]):
        r = "(Seq %s %s)" % (one(x), r)
    return r


def translate_writer(repo, entry):
    key, rel, cls, is_pyx, container, _lay = entry
    with open(_os.path.join(repo, rel)) as fh:
        text = fh.read()
    src = _extract_method(text, cls, "write")
    if src is None:
        raise WOutside("%s.write not found" % cls)
    helpers = {}
    for h in ("_write", "_write_frame"):
        hs = _extract_method(text, cls, h)
        if hs:
            helpers[h] = hs
    if is_pyx:
        src = _strip_pyx(src)
    try:
        fn = _ast.parse(src).body[0]
    except SyntaxError as e:
        raise WOutside("cannot parse %s.write: %s" % (cls, e))
    params = [a.arg for a in fn.args.args]
    api = ["FAtoms"]
    if any(_field_of_name(p) == "FCell" for p in params):
        api.append("FCell")
    if any(_field_of_name(p) == "FTime" for p in params):
        api.append("FTime")
    tr = WTr(container, helpers)
    commits = bool(_re.search(r"self\.(?:%s)\s*\+=" % "|".join(COUNTER_ATTRS), src + "".join(helpers.values())))
    steps = tr.block(fn.body, {"tests": [], "in_try": False, "in_first": False, "commits": commits})
    def dedupe(steps):
        out = []
        for x in steps:
            if x[0] == "IfFirst":
                x = ("IfFirst", dedupe(x[1]), dedupe(x[2]))
            if out and out[-1] == x and x[0] in ("Init", "Commit", "Require", "Check"):
                continue
            if x == ("Mutate", "MRows") and x in out:
                continue                        # the prints of one frame (MODEL, ATOM lines, ENDMDL) are one mutation
            out.append(x)
        return out
    # layout facts readable from the source: does the signature carry time / cell, is the default time the index
    # within the call (.pdb: one CRYST1 record per file, its cell is outside this property, see C01)
    allsrc = src + "".join(helpers.values())
    LAYOUT_FACTS[key] = ("FTime" in api, "FCell" in api and key != "pdb",
                         bool(_re.search(r"if\s+time\s+is\s+None\s*:\s*\n\s*time\s*=\s*(?:np|numpy)\.arange\(", allsrc)))
    return dedupe(steps), api


LAYOUT_FACTS = {}


def dcd_header_every(repo):
    """how often write_dcdstep (dcdplugin.c) brings the frame count in the DCD header (NSET, at NFILE_POS) up to date:
    1 when `fio_fseek(fd, NFILE_POS, ..); fio_write_int32(fd, curframe);` stands at the top level of the function
    body (every time step).  Anything else (a condition around it, a helper) is outside this recogniser."""
    with open(_os.path.join(repo, "mdtraj/formats/dcd/src/dcdplugin.c")) as fh:
        text = fh.read()
    text = _re.sub(r"/\*.*?\*/", " ", text, flags=_re.S)
    m = _re.search(r"static\s+int\s+write_dcdstep\s*\([^)]*\)\s*\{", text)
    if not m:
        raise WOutside("write_dcdstep not found in dcdplugin.c")
    depth, i, body_top = 1, m.end(), []
    while i < len(text) and depth > 0:
        ch = text[i]
        if ch == "{":
            depth += 1
        elif ch == "}":
            depth -= 1
        body_top.append(ch if depth == 1 else " ")
        i += 1
    top = "".join(body_top)
    stmts = [x.strip() for x in top.split(";")]
    for a, b in zip(stmts, stmts[1:]):
        if _re.fullmatch(r"fio_fseek\s*\(\s*fd\s*,\s*NFILE_POS\s*,\s*FIO_SEEK_SET\s*\)", a) and \
                _re.fullmatch(r"fio_write_int32\s*\(\s*fd\s*,\s*curframe\s*\)", b):
            return 1
    raise WOutside("write_dcdstep does not refresh the header count unconditionally at its top level")


def build_writer_gen(repo):
    """returns (definitions file text, obligations file text, info)"""
    lines = ["(* GENERATED by harness/props/C19.py from the write() methods of mdtraj on every run. Do not edit. *)",
             "From Coq Require Import List String Bool.", "Import ListNotations.",
             "Require Import MD.Writer.Model MD.Writer.Dsl MD.Writer.WriterReference.",
             "Local Open Scope string_scope.", ""]
    info = {"degraded": {}, "translated": []}
    rows = []
    for entry in WRITERS:
        key, rel, cls, is_pyx, container, lay = entry
        try:
            steps, api = translate_writer(repo, entry)
            lines.append("Definition %s_write : wprog :=\n  %s." % (key, _seqterm(steps)))
            lines.append("Definition %s_api : list field := %s." % (key, clist(api)))
            if lay:
                lines.append("Definition %s_layout_facts : bool * bool * bool := (%s, %s, %s)." % (
                    (key,) + tuple(cbool(x) for x in LAYOUT_FACTS[key])))
            info["translated"].append(key)
        except WOutside as e:
            info["degraded"][key] = str(e)
            lines.append("Definition %s_write : wprog := WriterReference.%s_write.  (* degraded: %s *)" % (
                key, key, str(e).replace("*", "x")))
            lines.append("Definition %s_api : list field := WriterReference.%s_api." % (key, key))
            if lay:
                lines.append("Definition %s_layout_facts : bool * bool * bool := "
                             "(store_time %s, store_cell %s, time_index_default %s)." % (key, lay, lay, lay))
        rows.append('("%s", %s_write, %s_api)' % (key, key, key))
        lines.append("")
    try:
        hev = dcd_header_every(repo)
        lines.append("(* dcdplugin.c:write_dcdstep rewrites the frame count of the header after every %d-th time step *)" % hev)
        lines.append("Definition dcd_header_every : nat := %d." % hev)
        info["dcd_header_every"] = hev
    except (WOutside, OSError) as e:
        info["degraded"]["dcd_header_every"] = str(e)
        lines.append("Definition dcd_header_every : nat := 1.  (* degraded: %s *)" % str(e).replace("*", "x"))
        info["dcd_header_every"] = 1
    lines.append("")
    lines.append("Definition writers : list (string * wprog * list field) :=\n  [%s]." % ";\n   ".join(rows))
    lines.append("")
    lines.append("(* verdicts of the checkers on today's source, read by the harness *)")
    lines.append("Definition verdicts : list (string * bool * bool * bool) :=\n"
                 "  map (fun x => let '(n, p, api) := x in (n, check_vbm p, check_complete api p, check_init p)) writers.")
    lines.append("")
    lines.append("Definition fname (f : field) : string := match f with FAtoms => \"atoms\" | FCell => \"cell\" | FTime => \"time\" end.")
    lines.append("Definition verdicts2 : list (string * bool * list string * bool) :=\n"
                 "  map (fun x => let '(n, p, api) := x in (n, check_vbm p, "
                 "map fname (filter (fun f => negb (cov Extra f p && cov Missing f p)) api), check_init p)) writers.")
    lines.append("")
    lines.append("(* the meaning of the translated programs on the histories of the correspondence run *)")
    lines.append("Definition run_gen (c : string * list nat * list batch) : list res * option (list orow) :=")
    lines.append("  let '(fmt, pre, h) := c in")
    lines.append("  let preb := {| b_ids := pre; b_atoms := 4; b_cell := true; b_time := true |} in")
    lines.append("  let h' := match pre with [] => h | _ => preb :: h end in")
    lines.append("  let drop (r : list res * option (list orow)) := match pre with [] => r | _ => (tl (fst r), snd r) end in")
    lines.append("  drop (")
    for entry in WRITERS:
        key, lay = entry[0], entry[5]
        if key == "h5":
            body = "let '(rs, st) := run (sem h5_bk h5_write) h' h5init in (rs, h5_load st)"
        elif key == "nc":
            body = "let '(rs, st) := run (sem nc_bk nc_write) h' ncinit in (rs, nc_load st)"
        else:
            body = "let '(rs, st) := run (sem (stream_bk %s) %s_write) h' sinit in (rs, sload st)" % (lay, key)
        lines.append('    if String.eqb fmt "%s" then (%s) else' % (key, body))
    lines.append("    ([], None)).")
    obl = ["(* GENERATED by harness/props/C19.py: obligations about Gen/WriterPrograms.v, re-proved on every run. *)",
           "From Coq Require Import List String Bool.", "Import ListNotations.",
           "Require Import MD.Writer.Model MD.Writer.Dsl MD.Writer.Reflect MD.Writer.SemEq MD.Gen.WriterPrograms.", ""]
    for entry in WRITERS:
        key, lay = entry[0], entry[5]
        obl.append("Lemma vbm_%s : check_vbm %s_write = true. Proof. vm_compute. reflexivity. Qed." % (key, key))
        if lay:
            obl.append("Lemma sem_%s : stream_sim %s %s_write. Proof. sem_stream_eq. Qed." % (key, lay, key))
            obl.append("Lemma lay_%s : layout_agrees %s %s_layout_facts = true. Proof. vm_compute. reflexivity. Qed." % (key, lay, key))
    obl.append("Lemma sem_h5 : forall b st, sem h5_bk h5_write b st = h5_fix b st. Proof. sem_h5_eq. Qed.")
    obl.append("Lemma sem_nc : forall b st, n_fi st <= List.length (n_rows st) -> sem nc_bk nc_write b st = nc_fix b st. "
               "Proof. sem_nc_eq. Qed.")
    obl.append("Lemma dcd_header_every_frame : dcd_header_every = 1. Proof. reflexivity. Qed.")
    obl.append("Lemma all_vbm : forallb (fun x => check_vbm (snd (fst x))) writers = true. Proof. vm_compute. reflexivity. Qed.")
    return "\n".join(lines) + "\n", "\n".join(obl) + "\n", info


def translate(ctx):
    defs, obl, info = build_writer_gen(_REPO)
    ctx.write_gen("Gen/WriterPrograms.v", defs)
    ctx.write_gen("Gen/WriterProgramsChecks.v", obl)
    ctx.notes.setdefault("coverage_extra", {})["translator"] = {
        "writers_translated": info["translated"], "degraded": info["degraded"],
        "reflection_lemmas_in_Gen": len(_re.findall(r"^Lemma ", obl, _re.M))}
    if info["degraded"]:
        ctx.notes["translator"] = "degraded: %s" % info["degraded"]
        ctx.log("translator degraded for", info["degraded"])
