"""C07 -- angles and dihedrals equal their geometric definitions, periodic or not; the named backbone and
side-chain torsions use the documented atoms.

  translate  : anglekernels.h / dihedralkernels.h (pattern-anchored statements + a small expression parser),
               dihedral.py:_dihedral and angle.py:_angle (Python ast, typed mini-evaluator) and the
               PHI/PSI/OMEGA/CHI1..5 tables -> coq/Gen/GeomFormulas.v (modules Zg, Rg, Tables).
  correspond : md.compute_angles / compute_dihedrals (opt x periodic x cell kinds) on grid coordinates against
               exact rational (cos; p1, p2) with minimum-image bond vectors found by brute force over lattice
               images; the Gallina (p1^2-sign, p2) are evaluated by vm_compute on the same integers;
               md.compute_phi/psi/omega/chi1..5 index lists compared exactly with the Gallina atom_sequence
               on generated protein topologies.
"""
import ast
import math
import os
import re
from fractions import Fraction

import numpy as np

from common import REPO, cz, cnat, clist, cstr

LEVEL = "proof"
THEOREMS = "Props/C07.v"
EXTRA_TARGETS = ("Gen/GeomFormulas.vo",)
EXTS = ["_geometry"]

ANGLE_H = "mdtraj/geometry/src/kernels/anglekernels.h"
DIHED_H = "mdtraj/geometry/src/kernels/dihedralkernels.h"
DIHED_PY = "mdtraj/geometry/dihedral.py"
ANGLE_PY = "mdtraj/geometry/angle.py"


class TranslateError(Exception):
    pass


# =====================================================================================
#  C kernels
# =====================================================================================
def strip_c(text):
    text = re.sub(r"/\*.*?\*/", " ", text, flags=re.S)
    text = re.sub(r"//[^\n]*", "", text)
    text = re.sub(r"^\s*#.*$", "", text, flags=re.M)
    return text


def kernel_body(text):
    """the single function body of a kernel header (three alternative signatures precede it)."""
    text = strip_c(text)
    i = text.find("{")
    if i < 0:
        raise TranslateError("no function body")
    sigs = text[:i]
    depth, k = 0, i
    while k < len(text):
        if text[k] == "{":
            depth += 1
        elif text[k] == "}":
            depth -= 1
            if depth == 0:
                break
        k += 1
    if text[k + 1:].strip():
        raise TranslateError("text after the kernel body")
    return sigs, text[i + 1:k]


TOK = re.compile(r"\s*(?:(\d+\.\d*f?|\.\d+f?|\d+f?)|([A-Za-z_]\w*)|(.))")


def tokens(s):
    out = []
    pos = 0
    s = s.strip()
    while pos < len(s):
        m = TOK.match(s, pos)
        if not m:
            raise TranslateError("cannot tokenize %r" % s[pos:pos + 20])
        pos = m.end()
        if m.group(1):
            out.append(("num", m.group(1)))
        elif m.group(2):
            out.append(("id", m.group(2)))
        elif m.group(3).strip():
            out.append(("op", m.group(3)))
    return out


class CExpr:
    """expr := term (('+'|'-') term)* ; term := unary (('*'|'/') unary)* ; casts (float) ignored."""

    def __init__(self, toks):
        self.t, self.i = toks, 0

    def peek(self):
        return self.t[self.i] if self.i < len(self.t) else ("eof", "")

    def eat(self, v=None):
        tk = self.peek()
        if v is not None and tk[1] != v:
            raise TranslateError("expected %r found %r" % (v, tk[1]))
        self.i += 1
        return tk

    def parse(self):
        e = self.expr()
        if self.peek()[0] != "eof":
            raise TranslateError("trailing tokens in expression: %r" % (self.t[self.i:],))
        return e

    def expr(self):
        a = self.term()
        while self.peek()[1] in ("+", "-"):
            op = self.eat()[1]
            a = ("bin", op, a, self.term())
        return a

    def term(self):
        a = self.unary()
        while self.peek()[1] in ("*", "/"):
            op = self.eat()[1]
            a = ("bin", op, a, self.unary())
        return a

    def unary(self):
        if self.peek()[1] == "-":
            self.eat()
            return ("neg", self.unary())
        return self.atom()

    def atom(self):
        k, v = self.peek()
        if v == "(":
            nxt = self.t[self.i + 1] if self.i + 1 < len(self.t) else ("", "")
            nx2 = self.t[self.i + 2] if self.i + 2 < len(self.t) else ("", "")
            if nxt[1] in ("float", "double") and nx2[1] == ")":
                self.i += 3
                return self.unary()
            self.eat("(")
            e = self.expr()
            self.eat(")")
            return e
        if k == "num":
            self.eat()
            return ("num", v)
        if k == "id":
            self.eat()
            if self.peek()[1] == "(":
                self.eat("(")
                args = [self.expr()]
                while self.peek()[1] == ",":
                    self.eat()
                    args.append(self.expr())
                self.eat(")")
                return ("call", v, args)
            if self.peek()[1] == "[":
                self.eat("[")
                ix = self.expr()
                self.eat("]")
                return ("idx", v, ix)
            return ("var", v)
        raise TranslateError("unexpected token %r" % v)


def lin_index(e, var):
    """index expression a*var + b  ->  (a, b)"""
    if e[0] == "num":
        return 0, int(e[1])
    if e[0] == "var" and e[1] == var:
        return 1, 0
    if e[0] == "bin" and e[1] == "*" and e[2][0] == "num" and e[3] == ("var", var):
        return int(e[2][1]), 0
    if e[0] == "bin" and e[1] == "+":
        a1, b1 = lin_index(e[2], var)
        a2, b2 = lin_index(e[3], var)
        return a1 + a2, b1 + b2
    raise TranslateError("index expression outside the grammar: %r" % (e,))


def c_statements(body):
    """flat list of the simple statements of the innermost loops (braces of for/if removed)."""
    return [s.strip() for s in re.split(r"[;{}]", body) if s.strip()]


def parse_kernel(text, idx_array, width, n_pairs):
    """Common skeleton of anglekernels.h / dihedralkernels.h."""
    sigs, body = kernel_body(text)
    m = re.search(r"int\s+pairs\[(\d+)\]\s*=\s*\{([^}]*)\}", body)
    if not m or int(m.group(1)) != 2 * n_pairs:
        raise TranslateError("pairs[] initialiser not found")
    pos = []
    for item in m.group(2).split(","):
        e = CExpr(tokens(item)).parse()
        if e[0] != "idx" or e[1] != idx_array:
            raise TranslateError("pairs entry %r" % item)
        a, b = lin_index(e[2], "i")
        if a != width or not (0 <= b < width):
            raise TranslateError("pairs entry %r" % item)
        pos.append(b)
    pairs = [(pos[2 * k], pos[2 * k + 1]) for k in range(n_pairs)]
    # the three displacement kernels must be called with the same layout
    calls = re.findall(r"\b(dist_mic_triclinic|dist_mic|dist)\s*\(([^;]*)\)\s*;", body)
    if sorted(c[0] for c in calls) != ["dist", "dist_mic", "dist_mic_triclinic"]:
        raise TranslateError("expected one call each of dist, dist_mic, dist_mic_triclinic")
    for name, args in calls:
        a = [x.strip() for x in args.split(",")]
        want = ["xyz", "pairs"] + (["box_matrix"] if name != "dist" else []) + ["&distances[0]", "&displacements[0]", "n_frames", "n_atoms", str(n_pairs)]
        if a != want:
            raise TranslateError("call of %s has arguments %s" % (name, a))
    stmts = c_statements(body)
    vecs = {}
    rest = []
    inner = False
    for s in stmts:
        mv = re.match(r"^fvec4\s+(\w+)\s*\((.*)\)$", s)
        if mv and "displacements" in mv.group(2):
            comps = [CExpr(tokens(x)).parse() for x in mv.group(2).split(",")]
            if len(comps) != 4 or comps[3] != ("num", "0"):
                raise TranslateError("fvec4 constructor %r" % s)
            offs = []
            for c in comps[:3]:
                if c[0] != "idx" or c[1] != "displacements":
                    raise TranslateError("fvec4 constructor %r" % s)
                a, b = lin_index(c[2], "j")
                if a != 3 * n_pairs:
                    raise TranslateError("fvec4 constructor %r" % s)
                offs.append(b)
            if offs[0] % 3 or offs != [offs[0], offs[0] + 1, offs[0] + 2]:
                raise TranslateError("fvec4 constructor %r" % s)
            vecs[mv.group(1)] = offs[0] // 3
            inner = True
            continue
        if inner:
            rest.append(s)
    return pairs, vecs, rest


def dist_ref(e, n_pairs):
    if e[0] == "idx" and e[1] == "distances":
        a, b = lin_index(e[2], "j")
        if a == n_pairs and 0 <= b < n_pairs:
            return b
    return None


class Emit:
    """typed symbolic values: ('vec', text) | ('scal', text, is_poly)"""

    def __init__(self, mode, n_pairs):
        self.mode, self.n_pairs = mode, n_pairs
        self.env = {}

    def num(self, txt):
        f = Fraction(txt.rstrip("f"))
        if f.denominator != 1:
            raise TranslateError("non-integer literal")
        n = int(f)
        return "%d" % n if n >= 0 else "(%d)" % n

    def ex(self, e):
        if e[0] == "var":
            if e[1] not in self.env:
                raise TranslateError("unknown variable %s" % e[1])
            return self.env[e[1]]
        if e[0] == "num":
            return ("scal", self.num(e[1]))
        k = dist_ref(e, self.n_pairs)
        if k is not None:
            return ("scal", "d%d" % (k + 1))
        if e[0] == "call" and e[1] == "cross" and len(e[2]) == 2:
            a, b = self.ex(e[2][0]), self.ex(e[2][1])
            if a[0] != "vec" or b[0] != "vec":
                raise TranslateError("cross of non-vectors")
            return ("vec", "(cross %s %s)" % (a[1], b[1]))
        if e[0] == "call" and e[1] == "dot3" and len(e[2]) == 2:
            a, b = self.ex(e[2][0]), self.ex(e[2][1])
            if a[0] != "vec" or b[0] != "vec":
                raise TranslateError("dot3 of non-vectors")
            return ("scal", "(dot %s %s)" % (a[1], b[1]))
        if e[0] == "bin" and e[1] in "*+-":
            a, b = self.ex(e[2]), self.ex(e[3])
            if a[0] != "scal" or b[0] != "scal":
                raise TranslateError("arithmetic on vectors is outside the grammar")
            return ("scal", "(%s %s %s)" % (a[1], e[1], b[1]))
        raise TranslateError("expression outside the grammar: %r" % (e,))


def translate_dihedral_kernel(text):
    pairs, vecs, rest = parse_kernel(text, "quartets", 4, 3)
    if sorted(vecs.values()) != [0, 1, 2]:
        raise TranslateError("three displacement vectors expected")
    defs = {}
    em = Emit("Z", 3)
    for name, k in vecs.items():
        em.env[name] = ("vec", "b%d" % (k + 1))
    result = None
    order = []
    for s in rest:
        m = re.match(r"^(fvec4|float)\s+(\w+)\s*=\s*(.*)$", s)
        if m:
            val = em.ex(CExpr(tokens(m.group(3))).parse())
            if (m.group(1) == "fvec4") != (val[0] == "vec"):
                raise TranslateError("type of %s" % m.group(2))
            defs[m.group(2)] = val
            order.append(m.group(2))
            em.env[m.group(2)] = (val[0], "(k_%s b1 b2 b3 d1 d2 d3)" % m.group(2))
            continue
        m = re.match(r"^out\s*\[(.*)\]\s*=\s*(.*)$", s)
        if m:
            e = CExpr(tokens(m.group(2))).parse()
            if e[0] != "call" or e[1] != "atan2f" or len(e[2]) != 2 or e[2][0][0] != "var" or e[2][1][0] != "var":
                raise TranslateError("result is not atan2f(var, var)")
            result = (e[2][0][1], e[2][1][1])
            continue
        raise TranslateError("statement outside the grammar: %r" % s)
    if result is None or result[0] not in defs or result[1] not in defs:
        raise TranslateError("no atan2f result")
    return {"pairs": pairs, "defs": defs, "order": order, "result": result}


def translate_angle_kernel(text):
    pairs, vecs, rest = parse_kernel(text, "triplets", 3, 2)
    if sorted(vecs.values()) != [0, 1]:
        raise TranslateError("two displacement vectors expected")
    em = Emit("Z", 2)
    for name, k in vecs.items():
        em.env[name] = ("vec", "b%d" % (k + 1))
    num = den = None
    clips = []
    fn = None
    cosvar = None
    anglevar = None
    i = 0
    while i < len(rest):
        s = rest[i]
        m = re.match(r"^float\s+(\w+)\s*=\s*(.*)$", s)
        if m and cosvar is None:
            e = CExpr(tokens(m.group(2))).parse()
            if e[0] != "bin" or e[1] != "/":
                raise TranslateError("cosine is not a quotient")
            num, den = em.ex(e[2]), em.ex(e[3])
            cosvar = m.group(1)
        elif re.match(r"^if\s*\(", s):
            mc = re.match(r"^if\s*\(\s*%s\s*(<|>)\s*(-?)1\.0f\s*\)$" % re.escape(cosvar or "?"), s)
            nxt = rest[i + 1] if i + 1 < len(rest) else ""
            ma = re.match(r"^%s\s*=\s*(-?)1\.0f$" % re.escape(cosvar or "?"), nxt)
            if not mc or not ma or mc.group(2) != ma.group(1) or (mc.group(1) == "<") != (mc.group(2) == "-"):
                raise TranslateError("clipping statement outside the grammar: %r %r" % (s, nxt))
            clips.append(-1 if mc.group(2) == "-" else 1)
            i += 1
        elif m:
            e = CExpr(tokens(m.group(2))).parse()
            if e[0] != "call" or e[1] not in ("acos", "acosf") or e[2] != [("var", cosvar)]:
                raise TranslateError("angle is not acos(cosine)")
            fn = "acos"
            anglevar = m.group(1)
        elif re.match(r"^out\s*\[", s):
            mo = re.match(r"^out\s*\[(.*)\]\s*=\s*(\w+)$", s)
            if not mo or mo.group(2) != anglevar:
                raise TranslateError("result statement %r" % s)
        else:
            raise TranslateError("statement outside the grammar: %r" % s)
        i += 1
    if num is None or sorted(clips) != [-1, 1] or fn != "acos":
        raise TranslateError("angle kernel incomplete (cosine, two clips, acos expected)")
    return {"pairs": pairs, "num": num, "den": den}


# =====================================================================================
#  Python reference implementations (ast)
# =====================================================================================
def py_function(tree, name):
    for node in tree.body:
        if isinstance(node, ast.FunctionDef) and node.name == name:
            return node
    raise TranslateError("function %s not found" % name)


class PyEval:
    """typed mini-evaluator: values are ('vec', text) | ('vprod', a, b) | ('scal', text) | ('pairs', [i, j])"""

    def __init__(self, index_arg):
        self.env = {}
        self.index_arg = index_arg
        self.pairs = []
        self.nvec = 0

    def ev(self, n):
        if isinstance(n, ast.Name):
            if n.id not in self.env:
                raise TranslateError("unknown name %s" % n.id)
            return self.env[n.id]
        if isinstance(n, ast.Constant) and isinstance(n.value, (int, float)):
            return ("const", n.value)
        if isinstance(n, ast.UnaryOp) and isinstance(n.op, ast.USub):
            v = self.ev(n.operand)
            if v[0] == "const":
                return ("const", -v[1])
        if isinstance(n, ast.Subscript):
            base = n.value
            if isinstance(base, ast.Name) and base.id == self.index_arg:
                sl = n.slice
                if (isinstance(sl, ast.Tuple) and len(sl.elts) == 2 and isinstance(sl.elts[0], ast.Slice)
                        and isinstance(sl.elts[1], ast.List) and len(sl.elts[1].elts) == 2):
                    ij = [e.value for e in sl.elts[1].elts]
                    return ("pairs", ij)
                raise TranslateError("index selection outside the grammar")
            v = self.ev(base)
            sl = n.slice
            if (v[0] == "scal" and isinstance(sl, ast.Tuple) and len(sl.elts) == 2 and isinstance(sl.elts[0], ast.Constant)
                    and sl.elts[0].value is Ellipsis and ast.unparse(sl.elts[1]) == "np.newaxis"):
                return v          # broadcasting of a per-frame scalar
            raise TranslateError("subscript outside the grammar")
        if isinstance(n, ast.BinOp):
            a, b = self.ev(n.left), self.ev(n.right)
            if isinstance(n.op, ast.Mult):
                if a[0] == "vec" and b[0] == "vec":
                    return ("vprod", a[1], b[1])
                if a[0] == "scal" and b[0] == "scal":
                    return ("scal", "(%s * %s)" % (a[1], b[1]))
            if isinstance(n.op, ast.Pow):
                if a[0] == "vec" and b == ("const", 2):
                    return ("vprod", a[1], a[1])
                if a[0] == "scal" and b == ("const", 0.5):
                    return ("scal", "(sqrt %s)" % a[1])
            if isinstance(n.op, ast.Div) and a[0] == "vec" and b[0] == "scal":
                return ("vec", "(vdiv %s %s)" % (a[1], b[1]))
            raise TranslateError("binary operation outside the grammar: %s" % ast.unparse(n))
        if isinstance(n, ast.Call):
            f = ast.unparse(n.func)
            if f == "distance.compute_displacements":
                kw = {k.arg: ast.unparse(k.value) for k in n.keywords}
                if len(n.args) != 2 or kw != {"periodic": "periodic", "opt": "False"}:
                    raise TranslateError("compute_displacements call outside the grammar")
                p = self.ev(n.args[1])
                if p[0] != "pairs":
                    raise TranslateError("compute_displacements on something that is not a pair selection")
                self.pairs.append(tuple(p[1]))
                return ("vec", "b%d" % len(self.pairs))
            if f == "np.cross" and len(n.args) == 2:
                a, b = self.ev(n.args[0]), self.ev(n.args[1])
                if a[0] == "vec" and b[0] == "vec":
                    return ("vec", "(cross %s %s)" % (a[1], b[1]))
            if f.endswith(".sum") and len(n.args) == 1 and ast.unparse(n.args[0]) == "-1":
                v = self.ev(n.func.value)
                if v[0] == "vprod":
                    return ("scal", "(dot %s %s)" % (v[1], v[2]))
            if f == "np.sqrt" and len(n.args) == 1:
                v = self.ev(n.args[0])
                if v[0] == "scal":
                    return ("scal", "(sqrt %s)" % v[1])
            if f == "np.clip" and len(n.args) == 3:
                v = self.ev(n.args[0])
                lo, hi = self.ev(n.args[1]), self.ev(n.args[2])
                if v[0] == "scal" and lo == ("const", -1.0) and hi == ("const", 1.0):
                    return ("clipped", v[1])
            raise TranslateError("call outside the grammar: %s" % ast.unparse(n))
        raise TranslateError("expression outside the grammar: %s" % ast.unparse(n))

    def run(self, fn):
        result = None
        for st in fn.body:
            if isinstance(st, ast.Expr) and isinstance(st.value, ast.Constant) and isinstance(st.value.value, str):
                continue
            if isinstance(st, ast.Assign) and len(st.targets) == 1 and isinstance(st.targets[0], ast.Name):
                self.env[st.targets[0].id] = self.ev(st.value)
            elif isinstance(st, ast.AugAssign) and isinstance(st.target, ast.Name) and isinstance(st.op, ast.Mult):
                a, b = self.env[st.target.id], self.ev(st.value)
                if a[0] != "scal" or b[0] != "scal":
                    raise TranslateError("augmented assignment outside the grammar")
                self.env[st.target.id] = ("scal", "(%s * %s)" % (a[1], b[1]))
            elif isinstance(st, ast.Return):
                c = st.value
                if not isinstance(c, ast.Call):
                    raise TranslateError("return outside the grammar")
                f = ast.unparse(c.func)
                if f == "np.arctan2":
                    result = ("atan2", self.ev(c.args[0]), self.ev(c.args[1]))
                elif f == "np.arccos":
                    result = ("acos", self.ev(c.args[0]))
                else:
                    raise TranslateError("return of %s" % f)
            else:
                raise TranslateError("statement outside the grammar: %s" % ast.unparse(st))
        if result is None:
            raise TranslateError("no return")
        return result


TABLE_NAMES = ["PHI_ATOMS", "PSI_ATOMS", "OMEGA_ATOMS", "CHI1_ATOMS", "CHI2_ATOMS", "CHI3_ATOMS", "CHI4_ATOMS", "CHI5_ATOMS"]


def extract_tables(tree):
    tabs = {}
    for node in tree.body:
        if isinstance(node, ast.Assign) and len(node.targets) == 1 and isinstance(node.targets[0], ast.Name) \
                and node.targets[0].id in TABLE_NAMES:
            val = ast.literal_eval(node.value)
            if val and isinstance(val[0], str):
                val = [val]
            for pat in val:
                if not (isinstance(pat, list) and len(pat) == 4 and all(isinstance(x, str) and x for x in pat)):
                    raise TranslateError("table %s has an entry that is not four atom names" % node.targets[0].id)
            tabs[node.targets[0].id] = val
    if sorted(tabs) != sorted(TABLE_NAMES):
        raise TranslateError("tables found: %s" % sorted(tabs))
    return tabs


def coq_pairs(pairs):
    return clist(["(%s, %s)" % (cnat(a), cnat(b)) for a, b in pairs])


def emit_module(name, scope, ty, vmod, dk, ak, pyd, pya, with_r):
    L = ["Module %s." % name, "Import %s." % vmod, "Local Open Scope %s." % scope]
    L.append("(* dihedralkernels.h: positions (within the quartet) of the atom pairs whose displacement is b1, b2, b3;")
    L.append("   d1 d2 d3 are the lengths the displacement kernel returns for them *)")
    L.append("Definition dih_pairs : list (nat * nat) := %s." % coq_pairs(dk["pairs"]))
    for v in dk["order"]:
        kind, text = dk["defs"][v][0], dk["defs"][v][1]
        L.append("Definition k_%s (b1 b2 b3 : V) (d1 d2 d3 : %s) : %s := %s." % (v, ty, "V" if kind == "vec" else ty, text))
    L.append("Definition dih_p1 (b1 b2 b3 : V) (d1 d2 d3 : %s) : %s := k_%s b1 b2 b3 d1 d2 d3.  (* first argument of atan2f *)" % (ty, ty, dk["result"][0]))
    L.append("Definition dih_p2 (b1 b2 b3 : V) (d1 d2 d3 : %s) : %s := k_%s b1 b2 b3 d1 d2 d3.  (* second argument of atan2f *)" % (ty, ty, dk["result"][1]))
    L.append("(* anglekernels.h: cosine = ang_num / ang_den, clipped to [-1,1], then acos *)")
    L.append("Definition ang_pairs : list (nat * nat) := %s." % coq_pairs(ak["pairs"]))
    L.append("Definition ang_num (b1 b2 : V) (d1 d2 : %s) : %s := %s." % (ty, ty, ak["num"][1]))
    L.append("Definition ang_den (b1 b2 : V) (d1 d2 : %s) : %s := %s." % (ty, ty, ak["den"][1]))
    L.append("(* dihedral.py:_dihedral -- np.arctan2(py_p1, py_p2); s2 stands for sqrt(py_p1_radicand) *)")
    L.append("Definition py_dih_pairs : list (nat * nat) := %s." % coq_pairs(pyd["pairs"]))
    L.append("Definition py_p1_factor (b1 b2 b3 : V) : %s := %s." % (ty, pyd["p1_factor"]))
    L.append("Definition py_p1_radicand (b1 b2 b3 : V) : %s := %s." % (ty, pyd["p1_radicand"]))
    L.append("Definition py_p2 (b1 b2 b3 : V) : %s := %s." % (ty, pyd["p2"]))
    L.append("Definition py_ang_pairs : list (nat * nat) := %s." % coq_pairs(pya["pairs"]))
    if with_r:
        L.append("Definition py_p1 (b1 b2 b3 : V) : R := py_p1_factor b1 b2 b3 * sqrt (py_p1_radicand b1 b2 b3).")
        L.append("(* angle.py:_angle -- np.arccos(np.clip(py_cos, -1, 1)) *)")
        L.append("Definition py_cos (b1 b2 : V) : R := %s." % pya["cos"])
    L.append("End %s." % name)
    return "\n".join(L)


def translate_sources(read):
    dk = translate_dihedral_kernel(read(DIHED_H))
    ak = translate_angle_kernel(read(ANGLE_H))
    dtree = ast.parse(read(DIHED_PY))
    atree = ast.parse(read(ANGLE_PY))
    # _dihedral
    pe = PyEval("indices")
    res = pe.run(py_function(dtree, "_dihedral"))
    if res[0] != "atan2" or res[1][0] != "scal" or res[2][0] != "scal" or len(pe.pairs) != 3:
        raise TranslateError("_dihedral does not return arctan2 of two scalars of three displacements")
    m = re.match(r"^\((.*) \* \(sqrt (.*)\)\)$", res[1][1])
    if not m:
        raise TranslateError("_dihedral: p1 is not <polynomial> * sqrt(<polynomial>): %s" % res[1][1])
    pyd = {"pairs": pe.pairs, "p1_factor": m.group(1), "p1_radicand": m.group(2), "p2": res[2][1]}
    if "sqrt" in pyd["p1_factor"] + pyd["p1_radicand"] + pyd["p2"] or "vdiv" in pyd["p1_factor"] + pyd["p2"]:
        raise TranslateError("_dihedral: unexpected non-polynomial sub-expression")
    # _angle
    pa = PyEval("angle_indices")
    res = pa.run(py_function(atree, "_angle"))
    if res[0] != "acos" or res[1][0] != "clipped" or len(pa.pairs) != 2:
        raise TranslateError("_angle does not return arccos(clip(cos, -1, 1)) of two displacements")
    pya = {"pairs": pa.pairs, "cos": res[1][1]}
    tabs = extract_tables(dtree)
    out = ["(* GENERATED by harness/props/C07.py:translate from %s, %s, %s, %s." % (ANGLE_H, DIHED_H, DIHED_PY, ANGLE_PY),
           "   Do not edit: rewritten on every run when the source text changes. *)",
           "From Coq Require Import ZArith Reals List String.", "Import ListNotations.", "Require Import MD.Geom.Vec.", ""]
    out.append(emit_module("Zg", "Z_scope", "Z", "ZV", dk, ak, pyd, pya, False))
    out.append("")
    out.append(emit_module("Rg", "R_scope", "R", "RV", dk, ak, pyd, pya, True))
    out.append("")
    out.append("Module Tables.")
    out.append("Local Open Scope string_scope.")
    for t in TABLE_NAMES:
        out.append("Definition %s : list (list string) := %s." % (t, clist([clist([cstr(a).replace("%string", "") for a in pat]) for pat in tabs[t]])))
    out.append("End Tables.")
    return "\n".join(out) + "\n", {"dk": dk, "ak": ak, "pyd": pyd, "pya": pya, "tables": tabs}


def translate(ctx):
    def read(rel):
        with open(os.path.join(REPO, rel)) as fh:
            return fh.read()
    text, _info = translate_sources(read)
    changed = ctx.write_gen("Gen/GeomFormulas.v", text)
    ctx.notes.setdefault("coverage_extra", {})["translator"] = "ok (%s)" % ("regenerated" if changed else "unchanged")
