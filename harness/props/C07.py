"""C07 -- angles and dihedrals equal their geometric definitions, periodic or not; the named backbone and
side-chain torsions use the documented atoms.

  translate  : anglekernels.h / dihedralkernels.h (pattern-anchored statements + a small expression parser),
               dihedral.py:_dihedral and angle.py:_angle (Python ast, typed mini-evaluator) and the
               PHI/PSI/OMEGA/CHI1..5 tables -> coq/Gen/GeomFormulas.v (modules Zg, Rg, Tables).
  correspond : md.compute_angles / compute_dihedrals (opt x periodic x cell kinds) on grid coordinates against
               exact rational (cos; p1, p2) with minimum-image bond vectors found by brute force over lattice
               images; the Gallina (p1^2-sign, p2) are evaluated by vm_compute on the same integers;
               md.compute_phi/psi/omega/chi1..5 index lists compared exactly with the Gallina atom_sequence
               on generated protein topologies.
"""
import ast
import json
import math
import os
import re
from fractions import Fraction

import numpy as np

from common import REPO, cz, cnat, clist, cstr

LEVEL = "proof"
THEOREMS = "Props/C07.v"
EXTRA_TARGETS = ("Gen/GeomFormulas.vo", "Geom/Periodic.vo", "Gen/GeomGlue.vo", "Geom/Glue.vo")
EXTS = ["_geometry"]

ANGLE_H = "mdtraj/geometry/src/kernels/anglekernels.h"
DIHED_H = "mdtraj/geometry/src/kernels/dihedralkernels.h"
DIHED_PY = "mdtraj/geometry/dihedral.py"
ANGLE_PY = "mdtraj/geometry/angle.py"


class TranslateError(Exception):
    pass


# =====================================================================================
#  C kernels
# =====================================================================================
def strip_c(text):
    text = re.sub(r"/\*.*?\*/", " ", text, flags=re.S)
    text = re.sub(r"//[^\n]*", "", text)
    text = re.sub(r"^\s*#.*$", "", text, flags=re.M)
    return text


def kernel_body(text):
    """the single function body of a kernel header (three alternative signatures precede it)."""
    text = strip_c(text)
    i = text.find("{")
    if i < 0:
        raise TranslateError("no function body")
    sigs = text[:i]
    depth, k = 0, i
    while k < len(text):
        if text[k] == "{":
            depth += 1
        elif text[k] == "}":
            depth -= 1
            if depth == 0:
                break
        k += 1
    if text[k + 1:].strip():
        raise TranslateError("text after the kernel body")
    return sigs, text[i + 1:k]


TOK = re.compile(r"\s*(?:(\d+\.\d*f?|\.\d+f?|\d+f?)|([A-Za-z_]\w*)|(.))")


def tokens(s):
    out = []
    pos = 0
    s = s.strip()
    while pos < len(s):
        m = TOK.match(s, pos)
        if not m:
            raise TranslateError("cannot tokenize %r" % s[pos:pos + 20])
        pos = m.end()
        if m.group(1):
            out.append(("num", m.group(1)))
        elif m.group(2):
            out.append(("id", m.group(2)))
        elif m.group(3).strip():
            out.append(("op", m.group(3)))
    return out


class CExpr:
    """expr := term (('+'|'-') term)* ; term := unary (('*'|'/') unary)* ; casts (float) ignored."""

    def __init__(self, toks):
        self.t, self.i = toks, 0

    def peek(self):
        return self.t[self.i] if self.i < len(self.t) else ("eof", "")

    def eat(self, v=None):
        tk = self.peek()
        if v is not None and tk[1] != v:
            raise TranslateError("expected %r found %r" % (v, tk[1]))
        self.i += 1
        return tk

    def parse(self):
        e = self.expr()
        if self.peek()[0] != "eof":
            raise TranslateError("trailing tokens in expression: %r" % (self.t[self.i:],))
        return e

    def expr(self):
        a = self.term()
        while self.peek()[1] in ("+", "-"):
            op = self.eat()[1]
            a = ("bin", op, a, self.term())
        return a

    def term(self):
        a = self.unary()
        while self.peek()[1] in ("*", "/"):
            op = self.eat()[1]
            a = ("bin", op, a, self.unary())
        return a

    def unary(self):
        if self.peek()[1] == "-":
            self.eat()
            return ("neg", self.unary())
        return self.atom()

    def atom(self):
        k, v = self.peek()
        if v == "(":
            nxt = self.t[self.i + 1] if self.i + 1 < len(self.t) else ("", "")
            nx2 = self.t[self.i + 2] if self.i + 2 < len(self.t) else ("", "")
            if nxt[1] in ("float", "double") and nx2[1] == ")":
                self.i += 3
                return self.unary()
            self.eat("(")
            e = self.expr()
            self.eat(")")
            return e
        if k == "num":
            self.eat()
            return ("num", v)
        if k == "id":
            self.eat()
            if self.peek()[1] == "(":
                self.eat("(")
                args = [self.expr()]
                while self.peek()[1] == ",":
                    self.eat()
                    args.append(self.expr())
                self.eat(")")
                return ("call", v, args)
            if self.peek()[1] == "[":
                self.eat("[")
                ix = self.expr()
                self.eat("]")
                return ("idx", v, ix)
            return ("var", v)
        raise TranslateError("unexpected token %r" % v)


def lin_index(e, var):
    """index expression a*var + b  ->  (a, b)"""
    if e[0] == "num":
        return 0, int(e[1])
    if e[0] == "var" and e[1] == var:
        return 1, 0
    if e[0] == "bin" and e[1] == "*" and e[2][0] == "num" and e[3] == ("var", var):
        return int(e[2][1]), 0
    if e[0] == "bin" and e[1] == "+":
        a1, b1 = lin_index(e[2], var)
        a2, b2 = lin_index(e[3], var)
        return a1 + a2, b1 + b2
    raise TranslateError("index expression outside the grammar: %r" % (e,))


def c_statements(body):
    """flat list of the simple statements of the innermost loops (braces of for/if removed)."""
    return [s.strip() for s in re.split(r"[;{}]", body) if s.strip()]


def parse_kernel(text, idx_array, width, n_pairs):
    """Common skeleton of anglekernels.h / dihedralkernels.h."""
    sigs, body = kernel_body(text)
    m = re.search(r"int\s+pairs\[(\d+)\]\s*=\s*\{([^}]*)\}", body)
    if not m or int(m.group(1)) != 2 * n_pairs:
        raise TranslateError("pairs[] initialiser not found")
    pos = []
    for item in m.group(2).split(","):
        e = CExpr(tokens(item)).parse()
        if e[0] != "idx" or e[1] != idx_array:
            raise TranslateError("pairs entry %r" % item)
        a, b = lin_index(e[2], "i")
        if a != width or not (0 <= b < width):
            raise TranslateError("pairs entry %r" % item)
        pos.append(b)
    pairs = [(pos[2 * k], pos[2 * k + 1]) for k in range(n_pairs)]
    # The displacement primitives: one call each of dist / dist_mic / dist_mic_triclinic, all with the same layout.
    # Two call forms are understood:
    #   whole trajectory  prim(xyz, pairs, [box_matrix,] &distances[0], &displacements[0], n_frames, n_atoms, N)
    #                     (the primitive advances xyz and box_matrix frame by frame: frame j is treated with cell j)
    #   one frame         prim(X, pairs, [B,] distances, displacements, 1, n_atoms, N) inside `for (int j ...)`, where
    #                     X must be xyz + 3*n_atoms*j and B is box_matrix + 9*j (cell j) or box_matrix (cell 0!)
    # The frame of the cell handed to each periodic primitive becomes part of the generated term (box_frame).
    ptrs = {}
    for mp in re.finditer(r"const\s+float\s*\*\s*(\w+)\s*=\s*(\w+)\s*\+\s*([^;]+);", body):
        factors = sorted(f.strip() for f in re.sub(r"\(\s*(?:size_t|long|int|unsigned)\s*\)", "", mp.group(3)).split("*"))
        ptrs[mp.group(1)] = (mp.group(2), factors)
    calls = re.findall(r"\b(dist_mic_triclinic|dist_mic|dist)\s*\(([^;]*)\)\s*;", body)
    if sorted(c[0] for c in calls) != ["dist", "dist_mic", "dist_mic_triclinic"]:
        raise TranslateError("expected one call each of dist, dist_mic, dist_mic_triclinic")
    modes = set()
    box_frame = {}
    for name, args in calls:
        a = [x.strip() for x in args.split(",")]
        nb = 1 if name != "dist" else 0
        if len(a) != 7 + nb or a[1] != "pairs" or a[-2] != "n_atoms" or a[-1] != str(n_pairs):
            raise TranslateError("call of %s has arguments %s" % (name, a))
        if a[0] == "xyz" and a[-3] == "n_frames" and a[2 + nb:4 + nb] == ["&distances[0]", "&displacements[0]"]:
            if nb and a[2] != "box_matrix":
                raise TranslateError("call of %s: cell argument %s" % (name, a[2]))
            modes.add("whole")
            box_frame[name] = "j"
        elif a[-3] == "1" and a[2 + nb:4 + nb] in (["distances", "displacements"], ["&distances[0]", "&displacements[0]"]):
            if ptrs.get(a[0]) != ("xyz", ["3", "j", "n_atoms"]):
                raise TranslateError("call of %s: coordinates argument %s is not xyz + 3*n_atoms*j" % (name, a[0]))
            if nb:
                if a[2] == "box_matrix":
                    box_frame[name] = "0"
                elif ptrs.get(a[2]) == ("box_matrix", ["9", "j"]):
                    box_frame[name] = "j"
                else:
                    raise TranslateError("call of %s: cell argument %s" % (name, a[2]))
            modes.add("frame")
        else:
            raise TranslateError("call of %s has arguments %s" % (name, a))
    if len(modes) != 1:
        raise TranslateError("the three displacement calls use different layouts")
    mode = modes.pop()
    jcoef = 3 * n_pairs if mode == "whole" else 0
    stmts = c_statements(body)
    vecs = {}
    rest = []
    inner = False
    for s in stmts:
        mv = re.match(r"^fvec4\s+(\w+)\s*\((.*)\)$", s)
        if mv and "displacements" in mv.group(2):
            comps = [CExpr(tokens(x)).parse() for x in mv.group(2).split(",")]
            if len(comps) != 4 or comps[3] != ("num", "0"):
                raise TranslateError("fvec4 constructor %r" % s)
            offs = []
            for c in comps[:3]:
                if c[0] != "idx" or c[1] != "displacements":
                    raise TranslateError("fvec4 constructor %r" % s)
                a, b = lin_index(c[2], "j")
                if a != jcoef:
                    raise TranslateError("fvec4 constructor %r" % s)
                offs.append(b)
            if offs[0] % 3 or offs != [offs[0], offs[0] + 1, offs[0] + 2]:
                raise TranslateError("fvec4 constructor %r" % s)
            vecs[mv.group(1)] = offs[0] // 3
            inner = True
            continue
        if inner:
            rest.append(s)
    return pairs, vecs, rest, {"mode": mode, "ortho": box_frame["dist_mic"], "tric": box_frame["dist_mic_triclinic"]}


def dist_ref(e, n_pairs, whole=True):
    if e[0] == "idx" and e[1] == "distances":
        a, b = lin_index(e[2], "j")
        if a == (n_pairs if whole else 0) and 0 <= b < n_pairs:
            return b
    return None


class Emit:
    """typed symbolic values: ('vec', text) | ('scal', text, is_poly)"""

    def __init__(self, mode, n_pairs, whole=True):
        self.mode, self.n_pairs, self.whole = mode, n_pairs, whole
        self.env = {}

    def num(self, txt):
        f = Fraction(txt.rstrip("f"))
        if f.denominator != 1:
            raise TranslateError("non-integer literal")
        n = int(f)
        return "%d" % n if n >= 0 else "(%d)" % n

    def ex(self, e):
        if e[0] == "var":
            if e[1] not in self.env:
                raise TranslateError("unknown variable %s" % e[1])
            return self.env[e[1]]
        if e[0] == "num":
            return ("scal", self.num(e[1]))
        k = dist_ref(e, self.n_pairs, self.whole)
        if k is not None:
            return ("scal", "d%d" % (k + 1))
        if e[0] == "call" and e[1] == "cross" and len(e[2]) == 2:
            a, b = self.ex(e[2][0]), self.ex(e[2][1])
            if a[0] != "vec" or b[0] != "vec":
                raise TranslateError("cross of non-vectors")
            return ("vec", "(cross %s %s)" % (a[1], b[1]))
        if e[0] == "call" and e[1] == "dot3" and len(e[2]) == 2:
            a, b = self.ex(e[2][0]), self.ex(e[2][1])
            if a[0] != "vec" or b[0] != "vec":
                raise TranslateError("dot3 of non-vectors")
            return ("scal", "(dot %s %s)" % (a[1], b[1]))
        if e[0] == "bin" and e[1] in "*+-":
            a, b = self.ex(e[2]), self.ex(e[3])
            if a[0] != "scal" or b[0] != "scal":
                raise TranslateError("arithmetic on vectors is outside the grammar")
            return ("scal", "(%s %s %s)" % (a[1], e[1], b[1]))
        raise TranslateError("expression outside the grammar: %r" % (e,))


def translate_dihedral_kernel(text):
    pairs, vecs, rest, callinfo = parse_kernel(text, "quartets", 4, 3)
    if sorted(vecs.values()) != [0, 1, 2]:
        raise TranslateError("three displacement vectors expected")
    defs = {}
    em = Emit("Z", 3, callinfo["mode"] == "whole")
    for name, k in vecs.items():
        em.env[name] = ("vec", "b%d" % (k + 1))
    result = None
    order = []
    for s in rest:
        m = re.match(r"^(fvec4|float)\s+(\w+)\s*=\s*(.*)$", s)
        if m:
            val = em.ex(CExpr(tokens(m.group(3))).parse())
            if (m.group(1) == "fvec4") != (val[0] == "vec"):
                raise TranslateError("type of %s" % m.group(2))
            defs[m.group(2)] = val
            order.append(m.group(2))
            em.env[m.group(2)] = val       # inlined: generated names do not depend on the names of C locals
            continue
        m = re.match(r"^out\s*\[(.*)\]\s*=\s*(.*)$", s)
        if m:
            e = CExpr(tokens(m.group(2))).parse()
            if e[0] != "call" or e[1] != "atan2f" or len(e[2]) != 2 or e[2][0][0] != "var" or e[2][1][0] != "var":
                raise TranslateError("result is not atan2f(var, var)")
            result = (e[2][0][1], e[2][1][1])
            continue
        raise TranslateError("statement outside the grammar: %r" % s)
    if result is None or result[0] not in defs or result[1] not in defs:
        raise TranslateError("no atan2f result")
    return {"pairs": pairs, "defs": defs, "order": order, "result": result, "calls": callinfo}


def translate_angle_kernel(text):
    pairs, vecs, rest, callinfo = parse_kernel(text, "triplets", 3, 2)
    if sorted(vecs.values()) != [0, 1]:
        raise TranslateError("two displacement vectors expected")
    em = Emit("Z", 2, callinfo["mode"] == "whole")
    for name, k in vecs.items():
        em.env[name] = ("vec", "b%d" % (k + 1))
    num = den = None
    clips = []
    fn = None
    cosvar = None
    anglevar = None
    i = 0
    while i < len(rest):
        s = rest[i]
        m = re.match(r"^float\s+(\w+)\s*=\s*(.*)$", s)
        if m and cosvar is None:
            e = CExpr(tokens(m.group(2))).parse()
            if e[0] != "bin" or e[1] != "/":
                raise TranslateError("cosine is not a quotient")
            num, den = em.ex(e[2]), em.ex(e[3])
            cosvar = m.group(1)
        elif re.match(r"^if\s*\(", s):
            mc = re.match(r"^if\s*\(\s*%s\s*(<|>)\s*(-?)1\.0f\s*\)$" % re.escape(cosvar or "?"), s)
            nxt = rest[i + 1] if i + 1 < len(rest) else ""
            ma = re.match(r"^%s\s*=\s*(-?)1\.0f$" % re.escape(cosvar or "?"), nxt)
            if not mc or not ma or mc.group(2) != ma.group(1) or (mc.group(1) == "<") != (mc.group(2) == "-"):
                raise TranslateError("clipping statement outside the grammar: %r %r" % (s, nxt))
            clips.append(-1 if mc.group(2) == "-" else 1)
            i += 1
        elif m:
            e = CExpr(tokens(m.group(2))).parse()
            if e[0] != "call" or e[1] not in ("acos", "acosf") or e[2] != [("var", cosvar)]:
                raise TranslateError("angle is not acos(cosine)")
            fn = "acos"
            anglevar = m.group(1)
        elif re.match(r"^out\s*\[", s):
            mo = re.match(r"^out\s*\[(.*)\]\s*=\s*(\w+)$", s)
            if not mo or mo.group(2) != anglevar:
                raise TranslateError("result statement %r" % s)
        else:
            raise TranslateError("statement outside the grammar: %r" % s)
        i += 1
    if num is None or sorted(clips) != [-1, 1] or fn != "acos":
        raise TranslateError("angle kernel incomplete (cosine, two clips, acos expected)")
    return {"pairs": pairs, "num": num, "den": den, "calls": callinfo}


# =====================================================================================
#  Python reference implementations (ast)
# =====================================================================================
def py_function(tree, name):
    for node in tree.body:
        if isinstance(node, ast.FunctionDef) and node.name == name:
            return node
    raise TranslateError("function %s not found" % name)


class PyEval:
    """typed mini-evaluator: values are ('vec', text) | ('vprod', a, b) | ('scal', text) | ('pairs', [i, j])"""

    def __init__(self, index_arg):
        self.env = {}
        self.index_arg = index_arg
        self.pairs = []
        self.nvec = 0

    def ev(self, n):
        if isinstance(n, ast.Name):
            if n.id not in self.env:
                raise TranslateError("unknown name %s" % n.id)
            return self.env[n.id]
        if isinstance(n, ast.Constant) and isinstance(n.value, (int, float)):
            return ("const", n.value)
        if isinstance(n, ast.UnaryOp) and isinstance(n.op, ast.USub):
            v = self.ev(n.operand)
            if v[0] == "const":
                return ("const", -v[1])
        if isinstance(n, ast.Subscript):
            base = n.value
            if isinstance(base, ast.Name) and base.id == self.index_arg:
                sl = n.slice
                if (isinstance(sl, ast.Tuple) and len(sl.elts) == 2 and isinstance(sl.elts[0], ast.Slice)
                        and isinstance(sl.elts[1], ast.List) and len(sl.elts[1].elts) == 2):
                    ij = [e.value for e in sl.elts[1].elts]
                    return ("pairs", ij)
                raise TranslateError("index selection outside the grammar")
            v = self.ev(base)
            sl = n.slice
            if (v[0] == "scal" and isinstance(sl, ast.Tuple) and len(sl.elts) == 2 and isinstance(sl.elts[0], ast.Constant)
                    and sl.elts[0].value is Ellipsis and ast.unparse(sl.elts[1]) == "np.newaxis"):
                return v          # broadcasting of a per-frame scalar
            raise TranslateError("subscript outside the grammar")
        if isinstance(n, ast.BinOp):
            a, b = self.ev(n.left), self.ev(n.right)
            if isinstance(n.op, ast.Mult):
                if a[0] == "vec" and b[0] == "vec":
                    return ("vprod", a[1], b[1])
                if a[0] == "scal" and b[0] == "scal":
                    return ("scal", "(%s * %s)" % (a[1], b[1]))
            if isinstance(n.op, ast.Pow):
                if a[0] == "vec" and b == ("const", 2):
                    return ("vprod", a[1], a[1])
                if a[0] == "scal" and b == ("const", 0.5):
                    return ("scal", "(sqrt %s)" % a[1])
            if isinstance(n.op, ast.Div) and a[0] == "vec" and b[0] == "scal":
                return ("vec", "(vdiv %s %s)" % (a[1], b[1]))
            raise TranslateError("binary operation outside the grammar: %s" % ast.unparse(n))
        if isinstance(n, ast.Call):
            f = ast.unparse(n.func)
            if f == "distance.compute_displacements":
                kw = {k.arg: ast.unparse(k.value) for k in n.keywords}
                if len(n.args) != 2 or kw != {"periodic": "periodic", "opt": "False"}:
                    raise TranslateError("compute_displacements call outside the grammar")
                p = self.ev(n.args[1])
                if p[0] != "pairs":
                    raise TranslateError("compute_displacements on something that is not a pair selection")
                self.pairs.append(tuple(p[1]))
                return ("vec", "b%d" % len(self.pairs))
            if f == "np.cross" and len(n.args) == 2:
                a, b = self.ev(n.args[0]), self.ev(n.args[1])
                if a[0] == "vec" and b[0] == "vec":
                    return ("vec", "(cross %s %s)" % (a[1], b[1]))
            if f.endswith(".sum") and len(n.args) == 1 and ast.unparse(n.args[0]) == "-1":
                v = self.ev(n.func.value)
                if v[0] == "vprod":
                    return ("scal", "(dot %s %s)" % (v[1], v[2]))
            if f == "np.sqrt" and len(n.args) == 1:
                v = self.ev(n.args[0])
                if v[0] == "scal":
                    return ("scal", "(sqrt %s)" % v[1])
            if f == "np.clip" and len(n.args) == 3:
                v = self.ev(n.args[0])
                lo, hi = self.ev(n.args[1]), self.ev(n.args[2])
                if v[0] == "scal" and lo == ("const", -1.0) and hi == ("const", 1.0):
                    return ("clipped", v[1])
            raise TranslateError("call outside the grammar: %s" % ast.unparse(n))
        raise TranslateError("expression outside the grammar: %s" % ast.unparse(n))

    def run(self, fn):
        result = None
        for st in fn.body:
            if isinstance(st, ast.Expr) and isinstance(st.value, ast.Constant) and isinstance(st.value.value, str):
                continue
            if isinstance(st, ast.Assign) and len(st.targets) == 1 and isinstance(st.targets[0], ast.Name):
                self.env[st.targets[0].id] = self.ev(st.value)
            elif isinstance(st, ast.AugAssign) and isinstance(st.target, ast.Name) and isinstance(st.op, ast.Mult):
                a, b = self.env[st.target.id], self.ev(st.value)
                if a[0] != "scal" or b[0] != "scal":
                    raise TranslateError("augmented assignment outside the grammar")
                self.env[st.target.id] = ("scal", "(%s * %s)" % (a[1], b[1]))
            elif isinstance(st, ast.Return):
                c = st.value
                if not isinstance(c, ast.Call):
                    raise TranslateError("return outside the grammar")
                f = ast.unparse(c.func)
                if f == "np.arctan2":
                    result = ("atan2", self.ev(c.args[0]), self.ev(c.args[1]))
                elif f == "np.arccos":
                    result = ("acos", self.ev(c.args[0]))
                else:
                    raise TranslateError("return of %s" % f)
            else:
                raise TranslateError("statement outside the grammar: %s" % ast.unparse(st))
        if result is None:
            raise TranslateError("no return")
        return result


# =====================================================================================
#  Python front ends compute_angles / compute_dihedrals (ast, statement by statement; fail closed)
# =====================================================================================
def translate_front(tree, fname, idx_arg, kernel, pyfn):
    """Reads the whole body of a front end and returns its description (width, range test, `periodic` test,
    orthorhombic test).  Every statement must have the anchored form; anything else raises."""
    fn = py_function(tree, fname)
    if [a.arg for a in fn.args.args] != ["traj", idx_arg, "periodic", "opt"] or [ast.unparse(d) for d in fn.args.defaults] != ["True", "True"]:
        raise TranslateError("%s: unexpected signature" % fname)
    body = [st for st in fn.body if not (isinstance(st, ast.Expr) and isinstance(st.value, ast.Constant) and isinstance(st.value.value, str))]
    src = [ast.unparse(st) for st in body]
    if len(src) != 8:
        raise TranslateError("%s: %d statements instead of 8" % (fname, len(src)))

    def need(k, pattern):
        m = re.fullmatch(pattern, src[k], re.S)
        if not m:
            raise TranslateError("%s: statement %d outside the grammar: %s" % (fname, k, src[k][:200]))
        return m
    need(0, r"xyz = ensure_type\(traj\.xyz, dtype=np\.float32, ndim=3, name='traj\.xyz', shape=\(None, None, 3\), warn_on_cast=False\)")
    m = need(1, r"(\w+) = ensure_type\(%s, dtype=np\.int32, ndim=2, name='%s', shape=\(None, (\d+)\), warn_on_cast=False\)" % (idx_arg, idx_arg))
    V, width = m.group(1), int(m.group(2))
    m = need(2, r"if not np\.all\(np\.logical_and\(%s (<=|<) traj\.n_atoms, %s (>=|>) (-?\d+)\)\):\n    raise ValueError\(.*\)" % (V, V))
    upper_strict, lower_incl, lower = m.group(1) == "<", m.group(2) == ">=", int(m.group(3))
    need(3, r"if len\(%s\) == 0:\n    return np\.zeros\(\(len\(xyz\), 0\), dtype=np\.float32\)" % V)
    need(4, r"out = np\.zeros\(\(xyz\.shape\[0\], %s\.shape\[0\]\), dtype=np\.float32\)" % V)
    m = need(5, r"if (periodic is True|periodic) and traj\._have_unitcell:\n"
                r"    box = ensure_type\(traj\.unitcell_vectors, dtype=np\.float32, ndim=3, name='unitcell_vectors', shape=\(len\(xyz\), 3, 3\)(?:, warn_on_cast=False)?\)\n"
                r"    if opt:\n"
                r"        orthogonal = ([^\n]+)\n"
                r"        _geometry\.%s_mic\(xyz, %s, box\.transpose\(0, 2, 1\)\.copy\(\), out, orthogonal\)\n"
                r"        return out\n"
                r"    else:\n"
                r"        %s\(traj, %s, periodic, out\)\n"
                r"        return out" % (kernel, V, pyfn, V))
    flag = "TestIsTrue" if m.group(1) == "periodic is True" else "TestTruth"
    oexpr = m.group(2)
    if oexpr == "np.allclose(traj.unitcell_angles, 90)":
        ortho = "OrthoAllclose"
    elif oexpr in ("distance._is_orthorhombic(box)", "_is_orthorhombic(box)"):
        ortho = "OrthoExact"
    else:
        raise TranslateError("%s: orthorhombic test outside the grammar: %s" % (fname, oexpr))
    need(6, r"if opt:\n    _geometry\.%s\(xyz, %s, out\)\nelse:\n    %s\(traj, %s, periodic, out\)" % (kernel, V, pyfn, V))
    need(7, r"return out")
    return {"width": width, "lower": lower, "lower_incl": lower_incl, "upper_strict": upper_strict, "flag": flag, "ortho": ortho}


def emit_front(name, d):
    return "Definition %s : front := mkfront %d %s %s %s %s %s." % (
        name, d["width"], cz(d["lower"]), "true" if d["lower_incl"] else "false", "true" if d["upper_strict"] else "false",
        d["flag"], d["ortho"])


def translate_fronts(read):
    atree = ast.parse(read(ANGLE_PY))
    dtree = ast.parse(read(DIHED_PY))
    fa = translate_front(atree, "compute_angles", "angle_indices", "_angle", "_angle")
    fd = translate_front(dtree, "compute_dihedrals", "indices", "_dihedral", "_dihedral")
    text = "\n".join([
        "(* GENERATED by harness/props/C07.py:translate from %s, %s." % (ANGLE_PY, DIHED_PY),
        "   Do not edit: rewritten on every run when the source text changes. *)",
        "From Coq Require Import ZArith.", "Require Import MD.Geom.GlueTypes.", "Local Open Scope Z_scope.",
        emit_front("angles_front", fa), emit_front("dihedrals_front", fd)]) + "\n"
    return text, {"angles": fa, "dihedrals": fd}


TABLE_NAMES = ["PHI_ATOMS", "PSI_ATOMS", "OMEGA_ATOMS", "CHI1_ATOMS", "CHI2_ATOMS", "CHI3_ATOMS", "CHI4_ATOMS", "CHI5_ATOMS"]


def extract_tables(tree):
    tabs = {}
    for node in tree.body:
        if isinstance(node, ast.Assign) and len(node.targets) == 1 and isinstance(node.targets[0], ast.Name) \
                and node.targets[0].id in TABLE_NAMES:
            val = ast.literal_eval(node.value)
            if val and isinstance(val[0], str):
                val = [val]
            for pat in val:
                if not (isinstance(pat, list) and len(pat) == 4 and all(isinstance(x, str) and x for x in pat)):
                    raise TranslateError("table %s has an entry that is not four atom names" % node.targets[0].id)
            tabs[node.targets[0].id] = val
    if sorted(tabs) != sorted(TABLE_NAMES):
        raise TranslateError("tables found: %s" % sorted(tabs))
    return tabs


def coq_pairs(pairs):
    return clist(["(%s, %s)" % (cnat(a), cnat(b)) for a, b in pairs])


def emit_module(name, scope, ty, vmod, dk, ak, pyd, pya, with_r):
    L = ["Module %s." % name, "Import %s." % vmod, "Local Open Scope %s." % scope]
    L.append("(* dihedralkernels.h: positions (within the quartet) of the atom pairs whose displacement is b1, b2, b3;")
    L.append("   d1 d2 d3 are the lengths the displacement kernel returns for them *)")
    L.append("Definition dih_pairs : list (nat * nat) := %s." % coq_pairs(dk["pairs"]))
    L.append("Definition dih_p1 (b1 b2 b3 : V) (d1 d2 d3 : %s) : %s := %s.  (* first argument of atan2f *)" % (ty, ty, dk["defs"][dk["result"][0]][1]))
    L.append("Definition dih_p2 (b1 b2 b3 : V) (d1 d2 d3 : %s) : %s := %s.  (* second argument of atan2f *)" % (ty, ty, dk["defs"][dk["result"][1]][1]))
    L.append("(* anglekernels.h: cosine = ang_num / ang_den, clipped to [-1,1], then acos *)")
    L.append("Definition ang_pairs : list (nat * nat) := %s." % coq_pairs(ak["pairs"]))
    L.append("Definition ang_num (b1 b2 : V) (d1 d2 : %s) : %s := %s." % (ty, ty, ak["num"][1]))
    L.append("Definition ang_den (b1 b2 : V) (d1 d2 : %s) : %s := %s." % (ty, ty, ak["den"][1]))
    L.append("(* dihedral.py:_dihedral -- np.arctan2(py_p1, py_p2); s2 stands for sqrt(py_p1_radicand) *)")
    L.append("Definition py_dih_pairs : list (nat * nat) := %s." % coq_pairs(pyd["pairs"]))
    L.append("Definition py_p1_factor (b1 b2 b3 : V) : %s := %s." % (ty, pyd["p1_factor"]))
    L.append("Definition py_p1_radicand (b1 b2 b3 : V) : %s := %s." % (ty, pyd["p1_radicand"]))
    L.append("Definition py_p2 (b1 b2 b3 : V) : %s := %s." % (ty, pyd["p2"]))
    L.append("Definition py_ang_pairs : list (nat * nat) := %s." % coq_pairs(pya["pairs"]))
    if with_r:
        L.append("Definition py_p1 (b1 b2 b3 : V) : R := py_p1_factor b1 b2 b3 * sqrt (py_p1_radicand b1 b2 b3).")
        L.append("(* angle.py:_angle -- np.arccos(np.clip(py_cos, -1, 1)) *)")
        L.append("Definition py_cos (b1 b2 : V) : R := %s." % pya["cos"])
    L.append("End %s." % name)
    return "\n".join(L)


def translate_sources(read):
    dk = translate_dihedral_kernel(read(DIHED_H))
    ak = translate_angle_kernel(read(ANGLE_H))
    dtree = ast.parse(read(DIHED_PY))
    atree = ast.parse(read(ANGLE_PY))
    # _dihedral
    pe = PyEval("indices")
    res = pe.run(py_function(dtree, "_dihedral"))
    if res[0] != "atan2" or res[1][0] != "scal" or res[2][0] != "scal" or len(pe.pairs) != 3:
        raise TranslateError("_dihedral does not return arctan2 of two scalars of three displacements")
    m = re.match(r"^\((.*) \* \(sqrt (.*)\)\)$", res[1][1])
    if not m:
        raise TranslateError("_dihedral: p1 is not <polynomial> * sqrt(<polynomial>): %s" % res[1][1])
    pyd = {"pairs": pe.pairs, "p1_factor": m.group(1), "p1_radicand": m.group(2), "p2": res[2][1]}
    if "sqrt" in pyd["p1_factor"] + pyd["p1_radicand"] + pyd["p2"] or "vdiv" in pyd["p1_factor"] + pyd["p2"]:
        raise TranslateError("_dihedral: unexpected non-polynomial sub-expression")
    # _angle
    pa = PyEval("angle_indices")
    res = pa.run(py_function(atree, "_angle"))
    if res[0] != "acos" or res[1][0] != "clipped" or len(pa.pairs) != 2:
        raise TranslateError("_angle does not return arccos(clip(cos, -1, 1)) of two displacements")
    pya = {"pairs": pa.pairs, "cos": res[1][1]}
    tabs = extract_tables(dtree)
    out = ["(* GENERATED by harness/props/C07.py:translate from %s, %s, %s, %s." % (ANGLE_H, DIHED_H, DIHED_PY, ANGLE_PY),
           "   Do not edit: rewritten on every run when the source text changes. *)",
           "From Coq Require Import ZArith Reals List String.", "Import ListNotations.", "Require Import MD.Geom.Vec.", ""]
    out.append(emit_module("Zg", "Z_scope", "Z", "ZV", dk, ak, pyd, pya, False))
    out.append("")
    out.append(emit_module("Rg", "R_scope", "R", "RV", dk, ak, pyd, pya, True))
    out.append("")
    out.append("(* which frame's cell each periodic kernel hands to dist_mic (orthorhombic) / dist_mic_triclinic when it")
    out.append("   computes frame j (whole-trajectory calls let the primitive advance xyz and box_matrix together) *)")
    out.append("Module Calls.")
    for nm, k in (("dih", dk), ("ang", ak)):
        for cell in ("ortho", "tric"):
            out.append("Definition %s_box_frame_%s (j : nat) : nat := %s." % (nm, cell, "j" if k["calls"][cell] == "j" else "0%nat"))
    out.append("End Calls.")
    out.append("")
    out.append("Module Tables.")
    out.append("Local Open Scope string_scope.")
    for t in TABLE_NAMES:
        out.append("Definition %s : list (list string) := %s." % (t, clist([clist([cstr(a).replace("%string", "") for a in pat]) for pat in tabs[t]])))
    out.append("End Tables.")
    return "\n".join(out) + "\n", {"dk": dk, "ak": ak, "pyd": pyd, "pya": pya, "tables": tabs}


def translate(ctx):
    def read(rel):
        with open(os.path.join(REPO, rel)) as fh:
            return fh.read()
    text, _info = translate_sources(read)
    text2, fronts = translate_fronts(read)
    changed = ctx.write_gen("Gen/GeomFormulas.v", text)
    changed2 = ctx.write_gen("Gen/GeomGlue.v", text2)
    ctx.notes.setdefault("coverage_extra", {})["translator"] = "ok (%s)" % ("regenerated" if (changed or changed2) else "unchanged")
    ctx.notes["coverage_extra"]["front_ends_as_read"] = fronts


# =====================================================================================
#  correspondence / oracle
# =====================================================================================
RULE = ("geometry: atoms on a 2^-10 nm grid built as bonded chains (kinds random, near_collinear (sin < 1e-3), near_planar, "
        "split = wrapped into the cell so that bonds cross faces) in no cell / cubic / orthorhombic / triclinic cells, fixed or "
        "changing from frame to frame (size, shape, orthorhombic/triclinic mixes), "
        "collinear = exactly collinear consecutive bonds; 1..40 index tuples incl. reversed tuples and a mirrored frame, every (opt, periodic) combination; a tuple-frame "
        "is non-trivial when the exact value is not degenerate; topologies: 1..4 chains x 1..12 residues of the 20 amino "
        "acids with real atom names, also under residue names outside mdtraj's amino-acid table (force-field variants HID/CYX/ASH..., "
        "D-amino acids, modified residues, lower case), caps ACE/NME, water/ion/ligand residues in between (one ligand with N/CA/C), "
        "random atom deletions, duplicated atom names; history axis: on one Topology object the calls are interleaved with in-place "
        "edits (atom/residue renames that add or remove a torsion, delete+insert keeping the counts, add_atom, new chain), compared after every edit; "
        "front ends: index arrays with entries -1, n_atoms, +-2^31, wrong widths, empty; `periodic` as True/False/numpy.bool_/int x opt on molecules "
        "split across faces; cells within/outside numpy.allclose(angles, 90) of orthorhombic with atoms 8-30 cells apart; "
        "distinct by hash of (recipe, op)")
TRUSTED = ["harness/impl/geom_impl.py (builds Trajectory/Topology objects, calls the public API, returns raw arrays)",
           "harness/props/C07.py: translators (kernel statements by anchored patterns + expression parser; Python ast), "
           "generators, exact integer oracle (Binet-Cauchy / determinant formulas, brute-force minimum image over 125 "
           "lattice images), float64 atan2/acos of the exact integers",
           "cross/dot3 of vectorize_sse.h and numpy.cross/sum compute the mathematical cross and dot product; "
           "atan2f/acos/np.arctan2/np.arccos are the mathematical functions (RG.atan2, Coq acos)",
           "minimum-image bond vectors are inputs of the model (property C05); here they are supplied by brute force"]
ASSUMPTIONS = ["exact arithmetic in all theorems; float32 evaluation bounded by |value - exact| <= (C*2^-23 + box term) / "
               "(sin t1 * sin t2) for dihedrals and min((C*2^-23 + box term)/sin t, sqrt(2(...))) for angles",
               "bond lengths in periodic cases stay below 0.3 of the smallest cell width so that the minimum image is unique",
               "Trajectory stores the cell as lengths/angles: the vectors the kernels see differ from the grid cell by float32 "
               "rounding (box term 16*2^-23*L/|b|)"]

EPS = 2.0 ** -23
UNIT = 1024
C_DIH = 12.0
C_ANG = 12.0
NAMES = ["phi", "psi", "omega", "chi1", "chi2", "chi3", "chi4", "chi5"]


def idot(a, b):
    return a[0] * b[0] + a[1] * b[1] + a[2] * b[2]


def det3(a, b, c):
    return (a[0] * (b[1] * c[2] - b[2] * c[1]) - a[1] * (b[0] * c[2] - b[2] * c[0]) + a[2] * (b[0] * c[1] - b[1] * c[0]))


def mic_exact(r, box):
    """minimum image of the integer vector r over the lattice spanned by the rows of box (brute force, exact).
    Returns (vector, unique?) where unique means the runner-up is at least 2% longer."""
    best = None
    second = None
    a, b, c = box
    for i in range(-2, 3):
        for j in range(-2, 3):
            for k in range(-2, 3):
                v = (r[0] + i * a[0] + j * b[0] + k * c[0], r[1] + i * a[1] + j * b[1] + k * c[1], r[2] + i * a[2] + j * b[2] + k * c[2])
                d = idot(v, v)
                if best is None or d < best[0]:
                    second = best
                    best = (d, v)
                elif second is None or d < second[0]:
                    second = (d, v)
    unique = second is None or second[0] > best[0] * 1.04 + 4
    return best[1], unique


def make_box(rs, cell):
    if cell == "none":
        return None
    L = lambda: int(rs.randint(2 * UNIT, 4 * UNIT + 1))
    if cell == "cubic":
        a = L()
        return [[a, 0, 0], [0, a, 0], [0, 0, a]]
    if cell == "ortho":
        return [[L(), 0, 0], [0, L(), 0], [0, 0, L()]]
    ax, by, cz = L(), L(), L()
    bx = int(rs.randint(-int(0.45 * ax), int(0.45 * ax) + 1))
    cx = int(rs.randint(-int(0.45 * ax), int(0.45 * ax) + 1))
    cy = int(rs.randint(-int(0.45 * by), int(0.45 * by) + 1))
    return [[ax, 0, 0], [bx, by, 0], [cx, cy, cz]]


def gen_geom(gen):
    """deterministic integer coordinates (F,n,3), integer box or None, angle triplets, dihedral quartets."""
    rs = np.random.RandomState(gen["seed"])
    kind, cell, n, F, m = gen["kind"], gen["cell"], gen["n"], gen["F"], gen["m"]
    if cell == "none":
        boxes = None
    elif gen.get("varcell"):
        # the cell changes from frame to frame in size and shape (orthorhombic and triclinic frames may be mixed)
        kinds = [cell] + [str(rs.choice(["ortho", "tric", "tric"] if cell != "cubic" else ["cubic", "ortho", "tric"])) for _ in range(F - 1)]
        if rs.rand() < 0.5:
            kinds = kinds[::-1]
        boxes = [make_box(rs, k) for k in kinds]
    else:
        b0 = make_box(rs, cell)
        boxes = [b0] * F
    lmin = min(min(b[0][0], b[1][1], b[2][2]) for b in boxes) if boxes else 3 * UNIT
    frames = []
    for f in range(F):
        box = boxes[f] if boxes else None
        if f == 1 and gen.get("mirror") and cell != "tric" and not gen.get("varcell"):
            X = frames[0].copy()
            X[:, 0] = -X[:, 0]
            frames.append(X)
            continue
        X = np.zeros((n, 3), dtype=np.int64)
        X[0] = rs.randint(-2 * UNIT, 2 * UNIT, size=3)
        steps = []
        for k in range(1, n):
            while True:
                length = rs.uniform(0.08, 0.28) * lmin if kind != "collinear" else rs.uniform(0.05, 0.1) * lmin
                d = rs.randn(3)
                step = np.round(d / np.linalg.norm(d) * length).astype(np.int64)
                if kind == "collinear" and steps and rs.rand() < 0.8:
                    # exactly collinear consecutive bonds (angle exactly 0 or pi): the float32 quotient can exceed 1
                    base = steps[-1]
                    kf = int(rs.choice([1, 2, 3, -1, -2]))
                    if max(abs(int(v)) for v in base) * abs(kf) < 0.25 * lmin:
                        step = base * kf
                    else:
                        step = base * int(np.sign(kf))
                if kind == "near_collinear" and steps and rs.rand() < 0.7:
                    tiny = rs.randint(-2, 3, size=3)
                    step = np.round(steps[-1] * rs.uniform(0.6, 1.2)).astype(np.int64) * rs.choice([1, -1]) + tiny
                if kind == "near_planar" and len(steps) >= 2 and rs.rand() < 0.7:
                    a_, b_ = steps[-2].astype(float), steps[-1].astype(float)
                    step = np.round(rs.uniform(-1, 1) * a_ + rs.uniform(0.3, 1) * rs.choice([1, -1]) * b_).astype(np.int64) + rs.randint(-1, 2, size=3)
                nn = float(np.linalg.norm(step))
                if 0.04 * lmin < nn < 0.3 * lmin:
                    break
            steps.append(step)
            X[k] = X[k - 1] + step
        if box is not None and kind == "split":
            Bm = np.array(box, dtype=np.float64)
            frac = X.astype(np.float64) @ np.linalg.inv(Bm)
            sh = np.floor(frac).astype(np.int64)
            X = X - sh @ np.array(box, dtype=np.int64)
        frames.append(X)
    X = np.array(frames)
    tri, quad = [], []
    for _ in range(m):
        k = int(rs.randint(0, n - 2))
        t = [k, k + 1, k + 2]
        tri.append(t)
        tri.append(t[::-1])
        if n >= 4:
            k = int(rs.randint(0, n - 3))
            q = [k, k + 1, k + 2, k + 3]
            quad.append(q)
            quad.append(q[::-1])
    if cell == "none" and n >= 4:
        for _ in range(max(1, m // 2)):
            tri.append([int(v) for v in rs.choice(n, 3, replace=False)])
            quad.append([int(v) for v in rs.choice(n, 4, replace=False)])
    return X, boxes, tri[:40], quad[:40]


def build_geom_cases(ctx):
    rng = ctx.rng
    quick = ctx.tier == "quick"
    cases = []
    reps = 2 if quick else 60
    for _ in range(reps):
        for kind in ["random", "near_collinear", "collinear", "near_planar", "split"]:
            for cell in ["none", "cubic", "ortho", "tric"]:
                if kind == "split" and cell == "none":
                    continue
                gen = {"kind": kind, "cell": cell, "n": rng.randint(4, 14), "F": rng.randint(1, 3), "m": rng.randint(1, 8),
                       "mirror": rng.random() < 0.6, "seed": rng.randrange(1, 2 ** 31 - 1)}
                if cell != "none" and (kind == "split" or rng.random() < 0.4):
                    gen["varcell"] = True
                    gen["F"] = rng.randint(2, 4)
                ops = [{"op": o, "opt": opt, "periodic": per} for o in ("angles", "dihedrals") for opt in (True, False)
                       for per in (True, False)]
                cases.append({"gen": gen, "ops": ops})
    # dedicated stream: molecules split across faces of a cell that changes in every frame (each frame must be
    # treated with ITS cell; mixes of orthorhombic and triclinic frames go through the triclinic kernels)
    for _ in range(6 if quick else 120):
        gen = {"kind": "split", "cell": rng.choice(["ortho", "tric", "tric"]), "n": rng.randint(6, 12), "F": 4, "m": 8, "mirror": False,
               "varcell": True, "seed": rng.randrange(1, 2 ** 31 - 1)}
        ops = [{"op": o, "opt": opt, "periodic": True} for o in ("angles", "dihedrals") for opt in (True, False)]
        cases.append({"gen": gen, "ops": ops})
    return cases


def bond_vectors(X, box, pairs, periodic):
    """exact integer bond vectors for a list of (i, j) atom pairs; None when the minimum image is ambiguous."""
    out = []
    for i, j in pairs:
        r = tuple(int(v) for v in (X[j] - X[i]))
        if periodic and box is not None:
            r, uniq = mic_exact(r, box)
            if not uniq:
                return None
        out.append(r)
    return out


def coq_vec(v):
    return "(%s, %s, %s)" % (cz(v[0]), cz(v[1]), cz(v[2]))


def run_geom(ctx, cases):
    inp = {}
    payload = []
    data = []
    for k, c in enumerate(cases):
        X, box, tri, quad = gen_geom(c["gen"])
        data.append((X, box, tri, quad))
        inp["g%d_xyz" % k] = (X.astype(np.float64) / UNIT).astype(np.float32)
        if box is not None:
            inp["g%d_box" % k] = (np.array(box, dtype=np.float64) / UNIT).astype(np.float32)      # (F, 3, 3): one cell per frame
    # one impl case per (case, op kind): the index array differs between angles and dihedrals
    entries = []
    for k, c in enumerate(cases):
        X, box, tri, quad = data[k]
        for kind, idx in (("angles", tri), ("dihedrals", quad)):
            if not idx:
                continue
            e = len(entries)
            inp["g%d_xyz" % (1000 + e)] = inp["g%d_xyz" % k]
            if box is not None:
                inp["g%d_box" % (1000 + e)] = inp["g%d_box" % k]
            inp["g%d_idx" % (1000 + e)] = np.array(idx, dtype=np.int64)
            ops = [op for op in c["ops"] if op["op"] == kind]
            entries.append((k, kind, idx, ops))
            payload.append({"id": 1000 + e, "has_box": box is not None, "ops": ops})
    tag = "%d_%d" % (len(cases), ctx.rng.randrange(10 ** 9))
    ipath = os.path.join(ctx.tmp, "gin_%s.npz" % tag)
    opath = os.path.join(ctx.tmp, "gout_%s.npz" % tag)
    np.savez(ipath, **inp)
    res = ctx.run_impl("geom_impl.py", {"inputs": ipath, "outputs": opath, "geom": payload, "topo": []})
    out = dict(np.load(opath))
    errors = res.get("errors", {})
    notes = ctx.notes.setdefault("coverage_extra", {})
    worst = notes.setdefault("max_error_in_units_of_bound", {})
    excl = notes.setdefault("excluded_by_guard", {})
    coq_dih, coq_ang = [], []
    F32PI = float(np.float32(np.pi))
    for e, (k, kind, idx, ops) in enumerate(entries):
        X, box, tri, quad = data[k]
        gen = cases[k]["gen"]
        lmax = max(max(max(abs(v) for v in row) for row in bx) for bx in box) / UNIT if box else 0.0
        for j, op in enumerate(ops):
            key = "g%d_o%d" % (1000 + e, j)
            rec = {"gen": gen, "ops": [op]}
            bucket = "%s/%s/%s%s/opt=%s,periodic=%s" % (kind, gen["kind"], gen["cell"], "+varying" if gen.get("varcell") else "", op["opt"], op["periodic"])
            if key in errors:
                ctx.count(rec, bucket=bucket)
                ctx.fail("compute_%s raised on valid input: %s" % (kind, errors[key].split(":")[0]), rec, observed=errors[key],
                         expected="a value", tags={"kind": "raises", "op": kind})
                continue
            val = out[key]
            periodic = bool(op["periodic"]) and box is not None
            failed = False
            for f in range(X.shape[0]):
                if failed:
                    break
                for ti, tup in enumerate(idx):
                    got = float(val[f][ti])
                    if kind == "dihedrals":
                        prs = [(tup[0], tup[1]), (tup[1], tup[2]), (tup[2], tup[3])]
                        bv = bond_vectors(X[f], box[f] if box else None, prs, periodic)
                        if bv is None:
                            excl["ambiguous_minimum_image"] = excl.get("ambiguous_minimum_image", 0) + 1
                            continue
                        b1, b2, b3 = bv
                        T = det3(b1, b2, b3)
                        p2 = idot(b1, b2) * idot(b2, b3) - idot(b1, b3) * idot(b2, b2)
                        B = idot(b2, b2)
                        n1sq = idot(b1, b1) * B - idot(b1, b2) ** 2
                        n2sq = B * idot(b3, b3) - idot(b2, b3) ** 2
                        if len(coq_dih) < (600 if ctx.tier == "quick" else 6000) and op["opt"]:
                            if periodic:
                                coq_dih.append(("(false, %s)" % clist([coq_vec(b) for b in bv]), "Some (%s, %s, %s)" % (cz(T), cz(p2), cz(B))))
                            else:
                                coq_dih.append(("(true, %s)" % clist([coq_vec(tuple(int(v) for v in X[f][a])) for a in tup]),
                                                "Some (%s, %s, %s)" % (cz(T), cz(p2), cz(B))))
                        if min(idot(b1, b1), B, idot(b3, b3)) == 0 or n1sq == 0 or n2sq == 0:
                            excl["degenerate_geometry"] = excl.get("degenerate_geometry", 0) + 1
                            ok_range = abs(got) <= F32PI or math.isnan(got)
                            continue
                        s1 = math.sqrt(n1sq / (idot(b1, b1) * B))
                        s2 = math.sqrt(n2sq / (B * idot(b3, b3)))
                        exact = math.atan2(math.sqrt(B) * T, p2)
                        bmin = math.sqrt(min(idot(b1, b1), B, idot(b3, b3))) / UNIT
                        boxterm = 16 * EPS * lmax / bmin if periodic else 0.0
                        tol = (C_DIH * EPS + boxterm) / (s1 * s2)
                        err = abs(got - exact)
                        err = min(err, 2 * math.pi - err)
                        nontriv = True
                        ctx.count({"gen": gen, "op": op, "f": f, "t": tup}, nontrivial=nontriv, bucket=bucket)
                        if tol < 0.05:
                            worst["dihedral"] = round(max(worst.get("dihedral", 0.0), err / tol), 3)
                        bad = None
                        if not (abs(got) <= F32PI):
                            bad = "outside [-pi, pi]"
                        elif tol < 0.5 and err > tol:
                            bad = "differs from the IUPAC torsion of the (minimum-image) bond vectors"
                        elif tol < 1e-3:
                            # sign and quadrant are decided exactly by the integers T and p2 outside the guard band
                            sphi, cphi = math.sin(exact), math.cos(exact)
                            if abs(sphi) > 10 * tol and (got > 0) != (T > 0):
                                bad = "has the wrong sign"
                            if abs(cphi) > 10 * tol and (abs(got) < math.pi / 2) != (p2 > 0):
                                bad = "is in the wrong quadrant"
                        if bad:
                            ctx.fail("compute_dihedrals %s" % bad, {"gen": gen, "ops": [op]},
                                     observed={"frame": f, "tuple": tup, "value": got}, expected={"value": exact, "tol": tol},
                                     tags={"kind": "dihedral_value", "opt": op["opt"], "periodic": op["periodic"], "cell": gen["cell"]})
                            failed = True
                            break
                    else:
                        prs = [(tup[1], tup[0]), (tup[1], tup[2])]
                        bv = bond_vectors(X[f], box[f] if box else None, prs, periodic)
                        if bv is None:
                            excl["ambiguous_minimum_image"] = excl.get("ambiguous_minimum_image", 0) + 1
                            continue
                        u, v = bv
                        N, D1, D2 = idot(u, v), idot(u, u), idot(v, v)
                        if len(coq_ang) < (600 if ctx.tier == "quick" else 6000) and op["opt"]:
                            if periodic:
                                coq_ang.append(("(false, %s)" % clist([coq_vec(b) for b in bv]), "Some (%s, %s, %s)" % (cz(N), cz(D1), cz(D2))))
                            else:
                                coq_ang.append(("(true, %s)" % clist([coq_vec(tuple(int(w) for w in X[f][a])) for a in tup]),
                                                "Some (%s, %s, %s)" % (cz(N), cz(D1), cz(D2))))
                        if D1 == 0 or D2 == 0:
                            excl["degenerate_geometry"] = excl.get("degenerate_geometry", 0) + 1
                            continue
                        c = max(-1.0, min(1.0, N / math.sqrt(D1 * D2)))
                        exact = math.acos(c)
                        sn = math.sqrt(max(0.0, 1.0 - c * c))
                        bmin = math.sqrt(min(D1, D2)) / UNIT
                        e0 = C_ANG * EPS + (16 * EPS * lmax / bmin if periodic else 0.0)
                        tol = min(e0 / sn if sn > 0 else 10.0, math.sqrt(2 * e0) + e0) + 2 * EPS
                        err = abs(got - exact)
                        ctx.count({"gen": gen, "op": op, "f": f, "t": tup}, nontrivial=True, bucket=bucket)
                        worst["angle"] = round(max(worst.get("angle", 0.0), err / tol), 3)
                        bad = None
                        if not (0.0 <= got <= F32PI):
                            bad = "outside [0, pi]"
                        elif err > tol:
                            bad = "differs from the angle between the (minimum-image) bond vectors at the middle atom"
                        if bad:
                            ctx.fail("compute_angles %s" % bad, {"gen": gen, "ops": [op]},
                                     observed={"frame": f, "tuple": tup, "value": got}, expected={"value": exact, "tol": tol},
                                     tags={"kind": "angle_value", "opt": op["opt"], "periodic": op["periodic"], "cell": gen["cell"]})
                            failed = True
                            break
    # trajectory-level model (Geom/Periodic.v on top of the C05 minimum-image model, with the cell-of-frame indices
    # read from the kernels): bond vectors computed IN Coq by the PBC code paths, compared with brute force
    traj_d, traj_a = [], []
    budget = 40 if ctx.tier == "quick" else 400
    for e, (k, kind, idx, ops) in enumerate(entries):
        X, box, tri, quad = data[k]
        if box is None or len(traj_d) + len(traj_a) >= budget:
            continue
        for opt in (True, False):
            for tup in idx[:2]:
                prs = ([(tup[0], tup[1]), (tup[1], tup[2]), (tup[2], tup[3])] if kind == "dihedrals"
                       else [(tup[1], tup[0]), (tup[1], tup[2])])
                exp = []
                for f in range(X.shape[0]):
                    bv = bond_vectors(X[f], box[f], prs, True)
                    if bv is None:
                        exp = None
                        break
                    if kind == "dihedrals":
                        b1, b2, b3 = bv
                        exp.append("(%s, %s, %s)" % (cz(det3(b1, b2, b3)), cz(idot(b1, b2) * idot(b2, b3) - idot(b1, b3) * idot(b2, b2)), cz(idot(b2, b2))))
                    else:
                        u, v = bv
                        exp.append("(%s, %s, %s)" % (cz(idot(u, v)), cz(idot(u, u)), cz(idot(v, v))))
                if exp is None:
                    continue
                frames = clist([clist([coq_vec(tuple(int(w) for w in a)) for a in X[f]]) for f in range(X.shape[0])])
                boxes = clist(["(mkbox %s %s %s)" % tuple(coq_vec(r) for r in box[f]) for f in range(X.shape[0])])
                case = "(%s, true, %s, %s, %s)" % ("true" if opt else "false", frames, boxes, clist([cnat(a) for a in tup]))
                (traj_d if kind == "dihedrals" else traj_a).append((case, "Some %s" % clist(exp)))
    for nm, fn, lst in (("dihedral", "dih_traj_case", traj_d), ("angle", "ang_traj_case", traj_a)):
        if not lst:
            continue
        bad, errs = ctx.coq_mismatches(["MD.PBC.Model", "MD.Geom.Periodic"], ("traj_case", "option (list (Z * Z * Z))"), "obs_list_eqb", fn, lst, shard=50)
        if errs:
            ctx.break_("correspondence:coqc-evaluation", "\n".join(errs))
        elif bad:
            ctx.break_("correspondence:periodic-%s-model-vs-brute-force" % nm,
                       "trajectory-level Gallina model (PBC displacement paths + kernel formulas + cell-of-frame indices) differs from "
                       "the brute-force minimum-image oracle, e.g. expected %s" % lst[bad[0]][1][:300])
        notes["model_evaluations_periodic_%s" % nm] = notes.get("model_evaluations_periodic_%s" % nm, 0) + len(lst)
    # the Gallina observables (from the kernels' text) against the independent integer formulas
    for nm, fn, lst in (("dihedral", "ZG.dih_case", coq_dih), ("angle", "ZG.ang_case", coq_ang)):
        if not lst:
            continue
        bad, errs = ctx.coq_mismatches(["MD.Geom.Vec", "MD.Geom.Model"], ("bool * list ZV.V", "option (Z * Z * Z)"), "ZG.obs_eqb", fn, lst)
        if errs:
            ctx.break_("correspondence:coqc-evaluation", "\n".join(errs))
        elif bad:
            ctx.break_("correspondence:%s-model-vs-exact" % nm,
                       "Gallina observables (from the kernel text) differ from the exact integer formulas, e.g. %s -> expected %s" % lst[bad[0]])
        notes["model_evaluations_%s" % nm] = notes.get("model_evaluations_%s" % nm, 0) + len(lst)


# ------------------------------------------------------------------------------------------------
#  named torsions on generated topologies
BACKBONE = ["N", "CA", "C", "O"]
SIDE = {"ALA": ["CB"], "ARG": ["CB", "CG", "CD", "NE", "CZ", "NH1", "NH2"], "ASN": ["CB", "CG", "OD1", "ND2"],
        "ASP": ["CB", "CG", "OD1", "OD2"], "CYS": ["CB", "SG"], "GLN": ["CB", "CG", "CD", "OE1", "NE2"],
        "GLU": ["CB", "CG", "CD", "OE1", "OE2"], "GLY": [], "HIS": ["CB", "CG", "ND1", "CD2", "CE1", "NE2"],
        "ILE": ["CB", "CG1", "CG2", "CD1"], "LEU": ["CB", "CG", "CD1", "CD2"], "LYS": ["CB", "CG", "CD", "CE", "NZ"],
        "MET": ["CB", "CG", "SD", "CE"], "PHE": ["CB", "CG", "CD1", "CD2", "CE1", "CE2", "CZ"], "PRO": ["CB", "CG", "CD"],
        "SER": ["CB", "OG"], "THR": ["CB", "OG1", "CG2"],
        "TRP": ["CB", "CG", "CD1", "CD2", "NE1", "CE2", "CE3", "CZ2", "CZ3", "CH2"],
        "TYR": ["CB", "CG", "CD1", "CD2", "CE1", "CE2", "CZ", "OH"], "VAL": ["CB", "CG1", "CG2"]}
OTHER = {"HOH": ["O", "H1", "H2"], "LIG": ["C1", "C2", "N1", "O1"], "NA": ["NA"],
         # caps and a ligand that happens to contain backbone-like atom names
         "ACE": ["CH3", "C", "O"], "NME": ["N", "CH3"], "NHE": ["N"], "PEP": ["N", "CA", "C", "O", "CB", "CG"]}
# the atom patterns are name-independent (dihedral.py never looks at residue names): force-field variants,
# D-amino acids, modified residues and lower-case names must give the same index lists
ALIAS = {"HIS": ["HID", "HIE", "HIP", "HSD", "HSE", "HSP"], "CYS": ["CYX", "CYM"], "ASP": ["ASH"], "GLU": ["GLH"],
         "LYS": ["LYN"], "MET": ["MSE"], "ALA": ["DAL"], "LEU": ["DLE"], "VAL": ["DVA"], "SER": ["DSN", "SEP"],
         "THR": ["TPO"], "TYR": ["PTR"], "PRO": ["HYP"], "ARG": ["DAR"], "GLN": ["DGN"], "PHE": ["DPN"]}


def gen_topology(gen):
    rs = np.random.RandomState(gen["seed"])
    chains = []
    for _ in range(gen["chains"]):
        ch = []
        for _ in range(int(rs.randint(1, gen["max_res"] + 1))):
            if rs.rand() < gen.get("p_other", 0.12):
                name = list(OTHER)[rs.randint(len(OTHER))]
                atoms = list(OTHER[name])
            else:
                name = sorted(SIDE)[rs.randint(len(SIDE))]
                atoms = BACKBONE + SIDE[name] + (["H", "HA"] if rs.rand() < 0.3 else [])
                u = rs.rand()
                if u < gen.get("p_alias", 0.3) and name in ALIAS:
                    name = ALIAS[name][rs.randint(len(ALIAS[name]))]
                elif u < gen.get("p_alias", 0.3) + 0.05:
                    name = name.lower()
            atoms = [a for a in atoms if rs.rand() >= gen.get("p_del", 0.08)]
            if atoms and rs.rand() < gen.get("p_dup", 0.04):
                atoms.append(atoms[rs.randint(len(atoms))])
            if rs.rand() < 0.1:
                rs.shuffle(atoms)
            ch.append({"name": name, "atoms": [str(a) for a in atoms]})
        chains.append(ch)
    return chains


def coq_topology(chains):
    """atoms are names (indices implicit, in order) or [name, index] pairs (after in-place edits)"""
    out = []
    rid = 0
    aid = 0
    for ch in chains:
        rs_ = []
        for r in ch:
            atoms = []
            for a in r["atoms"]:
                if isinstance(a, (list, tuple)):
                    atoms.append("(%s, %s)" % (cstr(a[0]), cnat(a[1])))
                else:
                    atoms.append("(%s, %s)" % (cstr(a), cnat(aid)))
                aid += 1
            rs_.append("(mkres %s %s)" % (cz(rid), clist(atoms)))
            rid += 1
        out.append(clist(rs_))
    return clist(out)


VOCAB = ["N", "CA", "C", "CB", "CG", "CG1", "CD", "CD1", "SG", "OG", "OG1", "OD1", "ND1", "SD", "NE", "CE", "OE1", "CZ", "NZ", "NH1"]
CHI_TABLES = [
    [["N", "CA", "CB", x] for x in ("CG", "CG1", "SG", "OG", "OG1")],
    [["CA", "CB", "CG", "CD"], ["CA", "CB", "CG", "CD1"], ["CA", "CB", "CG1", "CD1"], ["CA", "CB", "CG", "OD1"], ["CA", "CB", "CG", "ND1"], ["CA", "CB", "CG", "SD"]],
    [["CB", "CG", "CD", "NE"], ["CB", "CG", "CD", "CE"], ["CB", "CG", "CD", "OE1"], ["CB", "CG", "SD", "CE"]],
    [["CG", "CD", "NE", "CZ"], ["CG", "CD", "CE", "NZ"]],
]


def double_match(state):
    """a residue matched by two patterns of one chi table: the order numpy's argsort gives such ties is unspecified"""
    for ch in state:
        for r in ch:
            names = {a[0] for a in r["atoms"]}
            for tab in CHI_TABLES:
                if sum(all(x in names for x in pat) for pat in tab) > 1:
                    return True
    return False


def explicit_state(chains):
    st, aid = [], 0
    for ch in chains:
        c2 = []
        for r in ch:
            atoms = []
            for a in r["atoms"]:
                atoms.append([a, aid])
                aid += 1
            c2.append({"name": r["name"], "atoms": atoms})
        st.append(c2)
    return st


def apply_edit_state(state, ed):
    """mirror of geom_impl.apply_edit on the harness-side description (explicit atom indices)"""
    import copy
    st = copy.deepcopy(state)
    flat = [r for ch in st for r in ch]
    k = ed[0]
    if k == "rename_atom":
        for r in flat:
            for a in r["atoms"]:
                if a[1] == ed[1]:
                    a[0] = ed[2]
    elif k == "rename_residue":
        flat[ed[1]]["name"] = ed[2]
    elif k == "delete_atom":
        for r in flat:
            r["atoms"] = [a for a in r["atoms"] if a[1] != ed[1]]
            for a in r["atoms"]:
                if a[1] > ed[1]:
                    a[1] -= 1
    elif k == "add_atom":
        n = sum(len(r["atoms"]) for r in flat)
        flat[ed[1]]["atoms"].append([ed[2], n])
    elif k == "add_chain":
        n = sum(len(r["atoms"]) for r in flat)
        ch = []
        for r in ed[1]:
            atoms = []
            for a in r["atoms"]:
                atoms.append([a, n])
                n += 1
            ch.append({"name": r["name"], "atoms": atoms})
        st.append(ch)
    return st


def gen_edit_steps(rs, chains, n_steps):
    """steps of 1-2 in-place edits; many keep the chain/residue/atom COUNTS (renames, delete + insert)"""
    state = explicit_state(chains)
    steps, states = [], []
    for _ in range(n_steps):
        for _try in range(20):
            cur = state
            step = []
            kind = rs.choice(["rename_add", "rename_remove", "rename_residue", "delete_insert", "add_atom", "add_chain", "rename_add", "rename_remove"])
            flat = [r for ch in cur for r in ch]
            atoms = [(ri, a) for ri, r in enumerate(flat) for a in r["atoms"]]
            if not atoms:
                kind = "add_chain"
            if kind == "rename_add":          # some atom gets a name of the torsion vocabulary
                ri, a = atoms[rs.randint(len(atoms))]
                step.append(["rename_atom", a[1], str(VOCAB[rs.randint(len(VOCAB))])])
            elif kind == "rename_remove":     # an atom that carries a vocabulary name loses it (or e.g. CD <-> CD1)
                cand = [(ri, a) for ri, a in atoms if a[0] in VOCAB]
                if not cand:
                    continue
                ri, a = cand[rs.randint(len(cand))]
                new = {"CD": "CD1", "CD1": "CD", "OG": "OG1", "OG1": "OG", "CG1": "CG", "CG": "CG1"}.get(a[0]) if rs.rand() < 0.5 else None
                step.append(["rename_atom", a[1], new or ("X" + a[0])])
            elif kind == "rename_residue":
                step.append(["rename_residue", int(rs.randint(len(flat))), str(rs.choice(["HOH", "ALA", "LIG", "HID", "gly"]))])
            elif kind == "delete_insert":     # counts unchanged
                ri, a = atoms[rs.randint(len(atoms))]
                step.append(["delete_atom", a[1]])
                cur = apply_edit_state(cur, step[-1])
                step.append(["add_atom", int(rs.randint(len(flat))), str(VOCAB[rs.randint(len(VOCAB))])])
                cur = state
            elif kind == "add_atom":
                step.append(["add_atom", int(rs.randint(len(flat))), str(VOCAB[rs.randint(len(VOCAB))])])
            else:
                nm = sorted(SIDE)[rs.randint(len(SIDE))]
                step.append(["add_chain", [{"name": nm, "atoms": BACKBONE + SIDE[nm]}, {"name": "GLY", "atoms": list(BACKBONE)}]])
            new_state = state
            for ed in step:
                new_state = apply_edit_state(new_state, ed)
            if double_match(new_state):
                continue
            state = new_state
            steps.append(step)
            states.append(state)
            break
    return steps, states


def build_topo_cases(ctx):
    rng = ctx.rng
    n = 200 if ctx.tier == "quick" else 5000
    cases = []
    for i in range(n):
        gen = {"chains": rng.randint(1, 4), "max_res": rng.choice([2, 5, 12]), "p_del": rng.choice([0.0, 0.05, 0.15]),
               "p_other": rng.choice([0.0, 0.12, 0.3]), "p_dup": rng.choice([0.0, 0.04]), "seed": rng.randrange(1, 2 ** 31 - 1)}
        cases.append({"topo": gen})
    # history axis: one Topology object, named-torsion calls interleaved with in-place edits
    for i in range(40 if ctx.tier == "quick" else 800):
        gen = {"chains": rng.randint(1, 3), "max_res": rng.choice([2, 4, 6]), "p_del": rng.choice([0.0, 0.05]), "p_other": 0.1, "p_dup": 0.0,
               "seed": rng.randrange(1, 2 ** 31 - 1), "history": rng.randint(2, 5)}
        cases.append({"topo": gen})
    return cases


def run_topo(ctx, cases):
    payload = []
    tops = []
    hists = {}
    for k, c in enumerate(cases):
        chains = gen_topology(c["topo"])
        tops.append(chains)
        entry = {"id": k, "chains": chains}
        if c["topo"].get("history"):
            steps, states = gen_edit_steps(np.random.RandomState(c["topo"]["seed"] ^ 0x5A5A5A), chains, c["topo"]["history"])
            entry["steps"] = steps
            hists[k] = (steps, states)
        payload.append(entry)
    res = ctx.run_impl("geom_impl.py", {"inputs": None, "outputs": None, "geom": [], "topo": payload})
    errors = res.get("errors", {})
    coqcases, meta = [], []
    hist = ctx.notes.setdefault("coverage_extra", {}).setdefault("named_torsions_found", {})
    for k, c in enumerate(cases):
        rec = {"topo": c["topo"]}
        if "t%d" % k in errors:
            ctx.count(rec, bucket="topology")
            ctx.fail("indices_*/compute_* raised on a valid topology: %s" % errors["t%d" % k].split(":")[0], rec,
                     observed=errors["t%d" % k], expected="index lists", tags={"kind": "raises", "op": "named"})
            continue
        r = res["topo"][str(k)]
        nres = sum(len(ch) for ch in tops[k])
        ctx.count(rec, nontrivial=any(r["indices"][nm] for nm in NAMES), bucket="topology/%d-chains" % len(tops[k]))
        for nm in NAMES:
            hist[nm] = hist.get(nm, 0) + len(r["indices"][nm])
        if not r["compute_equal"]:
            ctx.fail("md.compute_<torsion> disagrees with indices_<torsion> + compute_dihedrals", rec, observed="indices or angles differ",
                     expected="identical", tags={"kind": "named_compute_mismatch"})
        exp = clist([clist([clist([cnat(a) for a in q]) for q in r["indices"][nm]]) for nm in NAMES])
        coqcases.append((coq_topology(tops[k]), exp))
        meta.append((k, None))
        if k in hists:
            steps, states = hists[k]
            for si, (st, rr) in enumerate(zip(states, r.get("history", []))):
                ctx.count({"topo": c["topo"], "step": si}, nontrivial=True, bucket="topology/history/%s" % "+".join(e[0] for e in steps[si]))
                if not rr["compute_equal"]:
                    ctx.fail("md.compute_<torsion> disagrees with indices_<torsion> + compute_dihedrals", rec, observed="indices or angles differ",
                             expected="identical", tags={"kind": "named_compute_mismatch"})
                exp = clist([clist([clist([cnat(a) for a in q]) for q in rr["indices"][nm]]) for nm in NAMES])
                coqcases.append((coq_topology(st), exp))
                meta.append((k, si))
    if not coqcases:
        return
    bad, errs = ctx.coq_mismatches(["MD.Geom.Topo"], ("topo", "list (list (list nat))"), "idx3_eqb", "named_all", coqcases, shard=100)
    if errs:
        ctx.break_("correspondence:coqc-evaluation", "\n".join(errs))
        return
    for i in bad:
        k, si = meta[i]
        if si is None:
            ctx.fail("a named torsion (phi/psi/omega/chi1-5) does not use exactly the documented atoms of each residue", {"topo": cases[k]["topo"]},
                     observed={nm: res["topo"][str(k)]["indices"][nm] for nm in NAMES}, expected="Gallina atom_sequence over the documented tables (coq/Geom/Topo.v)",
                     tags={"kind": "named_indices"})
        else:
            ctx.fail("a named torsion computed after an in-place edit of the Topology does not describe the topology as it is now",
                     {"topo": cases[k]["topo"]},
                     observed={"after_step": si, "edits": hists[k][0][:si + 1], "indices": {nm: res["topo"][str(k)]["history"][si]["indices"][nm] for nm in NAMES}},
                     expected="Gallina named_all evaluated on the edited topology", tags={"kind": "named_indices_after_edit"})


# ------------------------------------------------------------------------------------------------
#  the Python front ends: index validation, `periodic` as an arbitrary object, nearly orthorhombic cells
FLAG_NAMES = {0: "True", 1: "False", 2: "numpy.True_", 3: "numpy.False_", 4: "1", 5: "0"}
FLAG_MODEL = {0: 0, 1: 1, 2: 2, 3: 3, 4: 2, 5: 3}      # Glue.flag_of: PyTrue PyFalse PyTruthy PyFalsy
FLAG_TRUTH = {0: True, 1: False, 2: True, 3: False, 4: True, 5: False}


def build_front_cases(ctx):
    rng = ctx.rng
    quick = ctx.tier == "quick"
    cases = []
    # (1) validation: rows of the right and of a wrong width, indices below 0, at n_atoms, beyond; the empty array
    for _ in range(60 if quick else 1500):
        op = rng.choice(["angles", "dihedrals"])
        w = 3 if op == "angles" else 4
        n = rng.randint(w, 12)
        u = rng.random()
        if u < 0.08:
            cases.append({"front": "validate", "op": op, "n": n, "F": rng.randint(1, 3), "empty_width": rng.choice([w, w, w - 1, w + 1])})
            continue
        width = w if u < 0.85 else rng.choice([w - 1, w + 1, 1])
        rows = [[rng.randrange(n) for _ in range(width)] for _ in range(rng.randint(1, 5))]
        if rng.random() < 0.6:
            r_, c_ = rng.randrange(len(rows)), rng.randrange(width)
            rows[r_][c_] = rng.choice([-1, n, n, n + 1, -n, n - 1, 0, 2 ** 31 - 1, -2 ** 31])
        cases.append({"front": "validate", "op": op, "n": n, "F": rng.randint(1, 3), "rows": rows})
    # (2) `periodic` handed over as True/False, numpy.bool_, int -- molecules split across cell faces, so that the
    #     treatment of the cell is visible in the value
    for _ in range(6 if quick else 120):
        gen = {"kind": "split", "cell": rng.choice(["cubic", "ortho", "tric", "none"]), "n": rng.randint(5, 9), "F": rng.randint(1, 2), "m": 3,
               "mirror": False, "seed": rng.randrange(1, 2 ** 31 - 1)}
        if gen["cell"] == "none":
            gen["kind"] = "random"
        for op in ("angles", "dihedrals"):
            cases.append({"front": "flag", "op": op, "gen": gen, "calls": [[o, c] for o in (True, False) for c in range(6)]})
    # (2b) strongly skewed cells with compact atom groups whose bonds are nevertheless shorter through a combined lattice vector
    for _ in range(8 if quick else 160):
        gen = {"kind": "skew", "cell": "tric", "skew": rng.choice(["g60", "g120", "606090", "oct"]), "n": rng.randint(4, 5), "F": rng.randint(1, 2),
               "seed": rng.randrange(1, 2 ** 31 - 1)}
        for op in ("angles", "dihedrals"):
            cases.append({"front": "flag", "op": op, "gen": gen, "calls": [[True, 0], [False, 0], [True, 1]]})
    # (3) cells within / just outside numpy.allclose(angles, 90) of orthorhombic, atoms up to 30 cells apart
    for _ in range(6 if quick else 120):
        dev = rng.choice([2e-4, 5e-4, 7e-4, 7e-4, 3e-3, 0.0])
        gen = {"n": rng.randint(5, 8), "cells_apart": rng.randint(8, 30), "dev": dev,
               "signs": [rng.choice([-1, 0, 1]) for _ in range(3)], "seed": rng.randrange(1, 2 ** 31 - 1)}
        if dev and not any(gen["signs"]):
            gen["signs"][rng.randrange(3)] = 1
        for op in ("angles", "dihedrals"):
            cases.append({"front": "nearortho", "op": op, "gen": gen, "calls": [[True, 0], [False, 0]]})
    return cases


def gen_nearortho(gen):
    """float32 coordinates of a bonded chain whose atoms are moved by whole cells, lengths and angles of the cell"""
    rs = np.random.RandomState(gen["seed"])
    n = gen["n"]
    L = np.array([rs.uniform(2.5, 4.0) for _ in range(3)], dtype=np.float32)
    ang = np.array([90.0 + s * gen["dev"] for s in gen["signs"]], dtype=np.float32)
    X = np.zeros((n, 3))
    X[0] = rs.uniform(0.2, 2.0, 3)
    for k in range(1, n):
        d = rs.randn(3)
        X[k] = X[k - 1] + d / np.linalg.norm(d) * rs.uniform(0.25, 0.6)
    shifts = rs.randint(-gen["cells_apart"], gen["cells_apart"] + 1, size=(n, 3))
    shifts[0] = 0
    X = X + shifts * L.astype(np.float64)       # whole cells along the axes (the tilt is applied by the cell itself)
    idx3 = [[k, k + 1, k + 2] for k in range(n - 2)][:4]
    idx4 = [[k, k + 1, k + 2, k + 3] for k in range(n - 3)][:4]
    return X[None].astype(np.float32), L[None], ang[None], idx3, idx4


def to_common_ints(arrays):
    """float32 arrays -> integer arrays in a common unit 2^-K (exact)"""
    K = 0
    for a in arrays:
        for v in np.asarray(a, dtype=np.float64).ravel():
            f = Fraction(float(v))
            K = max(K, f.denominator.bit_length() - 1)
    sc = 2 ** K
    return [np.vectorize(lambda v: int(Fraction(float(v)) * sc), otypes=[object])(np.asarray(a, dtype=np.float64)) for a in arrays], K


def mic_far(r, box):
    """exact minimum image for separations of many cells: reduce with the lower-triangular cell, then brute force"""
    a, b, c = box
    r = list(r)
    for vec_, comp in ((c, 2), (b, 1), (a, 0)):
        k = int(round(Fraction(r[comp], vec_[comp])))
        r = [r[i] - k * vec_[i] for i in range(3)]
    return mic_exact(tuple(r), box)


def mic_diag(r, box):
    """what a kernel that reads only the diagonal of the cell matrix returns"""
    out = []
    for i in range(3):
        Lk = box[i][i]
        out.append(r[i] - Lk * int(math.floor(Fraction(r[i], Lk) + Fraction(1, 2))))
    return tuple(out)


def obs_of(kind, bv):
    if kind == "dihedrals":
        b1, b2, b3 = bv
        return (det3(b1, b2, b3), idot(b1, b2) * idot(b2, b3) - idot(b1, b3) * idot(b2, b2), idot(b2, b2))
    u, v = bv
    return (idot(u, v), idot(u, u), idot(v, v))


def value_of(kind, bv):
    """(exact value, conditioning) of an angle/dihedral from integer bond vectors; None when degenerate"""
    if kind == "dihedrals":
        b1, b2, b3 = bv
        B = idot(b2, b2)
        n1sq = idot(b1, b1) * B - idot(b1, b2) ** 2
        n2sq = B * idot(b3, b3) - idot(b2, b3) ** 2
        if min(idot(b1, b1), B, idot(b3, b3)) == 0 or n1sq == 0 or n2sq == 0:
            return None
        T, p2, _ = obs_of(kind, bv)
        s1 = math.sqrt(n1sq / (idot(b1, b1) * B))
        s2 = math.sqrt(n2sq / (B * idot(b3, b3)))
        return math.atan2(math.sqrt(B) * T, p2), s1 * s2
    u, v = bv
    N, D1, D2 = obs_of(kind, bv)
    if D1 == 0 or D2 == 0:
        return None
    c = max(-1.0, min(1.0, N / math.sqrt(D1 * D2)))
    return math.acos(c), max(math.sqrt(max(0.0, 1.0 - c * c)), 1e-3)


def tuple_pairs(kind, tup):
    return ([(tup[0], tup[1]), (tup[1], tup[2]), (tup[2], tup[3])] if kind == "dihedrals" else [(tup[1], tup[0]), (tup[1], tup[2])])


def adiff(kind, a, b):
    d = abs(a - b)
    return min(d, 2 * math.pi - d) if kind == "dihedrals" else d


def fronts_as_read():
    try:
        def read(rel):
            with open(os.path.join(REPO, rel)) as fh:
                return fh.read()
        return translate_fronts(read)[1]
    except Exception:
        pass
    # the translator could not read a front end (refactored source): attribute the two known defects by the bare
    # presence of the offending expressions, so that a recorded finding is still recognised
    out = {}
    try:
        for op, rel, fn in (("angles", ANGLE_PY, "compute_angles"), ("dihedrals", DIHED_PY, "compute_dihedrals")):
            with open(os.path.join(REPO, rel)) as fh:
                src = ast.unparse(py_function(ast.parse(fh.read()), fn))
            out[op] = {"flag": "TestIsTrue" if "periodic is True" in src else "TestTruth",
                       "ortho": "OrthoAllclose" if "np.allclose(traj.unitcell_angles, 90)" in src else "OrthoExact"}
    except Exception:
        return None
    return out


def gen_skew(gen):
    """strongly skewed cells (gamma 60 / 120, 60-60-90, truncated octahedron 109.47 x 3) with a COMPACT group of atoms: every
    per-axis extent stays below 0.47 of the corresponding edge length, yet many bonds are shorter through a combined lattice
    vector (e.g. r - b in a gamma = 60 cell) -- per-axis compactness does not make the minimum image the identity"""
    rs = np.random.RandomState(gen["seed"])
    L = int(rs.randint(2 * UNIT, 4 * UNIT + 1))
    Lz = int(rs.randint(2 * UNIT, 4 * UNIT + 1))
    k = gen["skew"]
    if k == "g60":
        box = [[L, 0, 0], [L // 2, int(round(0.8660254 * L)), 0], [0, 0, Lz]]
    elif k == "g120":
        box = [[L, 0, 0], [-(L // 2), int(round(0.8660254 * L)), 0], [0, 0, Lz]]
    elif k == "606090":
        box = [[L, 0, 0], [0, L, 0], [L // 2, L // 2, int(round(0.70710678 * L))]]
    else:
        box = [[L, 0, 0], [-(L // 3), int(round(0.94280904 * L)), 0], [-(L // 3), -int(round(0.47140452 * L)), int(round(0.81649658 * L))]]
    lengths = [math.sqrt(idot(v, v)) for v in box]
    n, F = gen["n"], gen["F"]
    frames = []
    for _ in range(F):
        org = rs.randint(-UNIT, UNIT, size=3)
        # atoms near the corners of the compact region: long diagonals, the bonds most likely to have a closer image
        X = np.array([[int(org[a] + (rs.uniform(0.0, 0.08) if rs.rand() < 0.5 else rs.uniform(0.39, 0.47)) * lengths[a]) for a in range(3)]
                      for _ in range(n)], dtype=np.int64)
        frames.append(X)
    tri = [[int(v) for v in rs.choice(n, 3, replace=False)] for _ in range(4)]
    quad = [[int(v) for v in rs.choice(n, 4, replace=False)] for _ in range(4)]
    return np.array(frames), [box] * F, tri, quad


def run_front(ctx, cases):
    notes = ctx.notes.setdefault("coverage_extra", {})
    fr_read = fronts_as_read() or {}
    stats = notes.setdefault("front_end_streams", {})
    inp, payload, prep = {}, [], {}
    for k, c in enumerate(cases):
        if c["front"] == "validate":
            e = {"id": k, "kind": "validate", "op": c["op"], "n": c["n"], "F": c["F"]}
            if "rows" in c:
                e["rows"] = c["rows"]
            else:
                e["empty_width"] = c["empty_width"]
            payload.append(e)
        elif c["front"] == "flag":
            X, box, tri, quad = gen_skew(c["gen"]) if c["gen"].get("kind") == "skew" else gen_geom(c["gen"])
            idx = tri[:6] if c["op"] == "angles" else quad[:6]
            prep[k] = (X, box, idx)
            inp["f%d_xyz" % k] = (X.astype(np.float64) / UNIT).astype(np.float32)
            if box is not None:
                inp["f%d_box" % k] = (np.array(box, dtype=np.float64) / UNIT).astype(np.float32)
            inp["f%d_idx" % k] = np.array(idx, dtype=np.int64)
            payload.append({"id": k, "kind": "flag", "op": c["op"], "has_box": box is not None, "calls": c["calls"]})
        else:
            X, L, ang, idx3, idx4 = gen_nearortho(c["gen"])
            idx = idx3 if c["op"] == "angles" else idx4
            prep[k] = (X, L, ang, idx)
            inp["f%d_xyz" % k], inp["f%d_lengths" % k], inp["f%d_angles" % k] = X, L, ang
            inp["f%d_idx" % k] = np.array(idx, dtype=np.int64)
            payload.append({"id": k, "kind": "nearortho", "op": c["op"], "calls": c["calls"]})
    tag = "%d_%d" % (len(cases), ctx.rng.randrange(10 ** 9))
    ipath = os.path.join(ctx.tmp, "fin_%s.npz" % tag)
    opath = os.path.join(ctx.tmp, "fout_%s.npz" % tag)
    np.savez(ipath, **inp)
    res = ctx.run_impl("geom_impl.py", {"inputs": ipath, "outputs": opath, "geom": [], "topo": [], "front": payload})
    out = dict(np.load(opath)) if os.path.exists(opath) else {}
    errors = res.get("errors", {})
    fronts = res.get("front", {})
    val_cases, val_meta = [], []
    path_cases, path_meta = [], []
    api_cases, api_meta = [], []
    for k, c in enumerate(cases):
        rec = dict(c)
        if "f%d" % k in errors or str(k) not in fronts:
            ctx.count(rec, bucket="front/%s" % c["front"])
            ctx.fail("the front-end runner failed", rec, observed=errors.get("f%d" % k), expected="a result", tags={"kind": "raises", "op": c["op"]})
            continue
        r = fronts[str(k)]
        if c["front"] == "validate":
            # ---- exact comparison of the outcome class with the Gallina model (Glue.validate on the description as read)
            if r["status"] == "raise":
                code = 2 if "must be between" in r["msg"] else (1 if r["exc"] == "ValueError" and ("must be shape" in r["msg"] or "must be ndim" in r["msg"]) else 9)
            else:
                code = 0
            rows = c.get("rows", [])
            w = 3 if c["op"] == "angles" else 4
            good = all(len(row) == w for row in rows) and all(0 <= i < c["n"] for row in rows for i in row)
            if "empty_width" in c:
                good = c["empty_width"] == w
                exp_model = None        # numpy's (0, w') array has no rows: the list model cannot see its width
            else:
                exp_model = code
            bucket = "front/validate/%s/%s" % (c["op"], "accepted" if good else "rejected")
            ctx.count(rec, nontrivial=True, bucket=bucket)
            # property oracle (independent of the model): accepted iff well-formed; shape (F, len(rows)) when accepted
            if good != (code == 0) or code == 9:
                ctx.fail("compute_%s %s an index array that is %s" % (c["op"], "rejects" if good else "accepts", "valid" if good else "malformed or out of range"),
                         rec, observed=r, expected="ValueError" if not good else "an array", tags={"kind": "index_validation", "op": c["op"]})
            elif code == 0 and r["shape"] != [c["F"], len(rows)]:
                ctx.fail("compute_%s returns an array of the wrong shape" % c["op"], rec, observed=r, expected=[c["F"], len(rows)],
                         tags={"kind": "result_shape", "op": c["op"]})
            if exp_model is not None:
                val_cases.append(("(%s, %s, %s)" % ("true" if c["op"] == "dihedrals" else "false", cz(c["n"]),
                                                    clist([clist([cz(i) for i in row]) for row in rows])), cz(exp_model)))
                val_meta.append(k)
            continue
        if c["front"] == "flag":
            X, box, idx = prep[k]
            lmax = max(max(max(abs(v) for v in row) for row in bx) for bx in box) / UNIT if box else 0.0
            all_ortho = bool(box) and all(bx[1][0] == 0 and bx[2][0] == 0 and bx[2][1] == 0 for bx in box)
            for j, (opt, code) in enumerate(c["calls"]):
                key = "f%d_c%d" % (k, j)
                crec = {"front": "flag", "op": c["op"], "gen": c["gen"], "calls": [[opt, code]]}
                bucket = "front/flag/%s/periodic=%s/opt=%s/%s" % (c["op"], FLAG_NAMES[code], opt, ("skewed-cell-" + c["gen"]["skew"]) if c["gen"].get("kind") == "skew" else ("cell" if box else "no-cell"))
                if key not in out:
                    ctx.count(crec, bucket=bucket)
                    ctx.fail("compute_%s raised on valid input" % c["op"], crec, observed=r.get("errors", {}).get("c%d" % j), expected="a value",
                             tags={"kind": "raises", "op": c["op"]})
                    continue
                val = out[key]
                seen = set()
                for f in range(X.shape[0]):
                    for ti, tup in enumerate(idx):
                        prs = tuple_pairs(c["op"], tup)
                        bv_p = bond_vectors(X[f], None, prs, False)
                        bv_m = bond_vectors(X[f], box[f], prs, True) if box else bv_p
                        if bv_m is None:
                            continue
                        vp, vm = value_of(c["op"], bv_p), value_of(c["op"], bv_m)
                        if vp is None or vm is None:
                            continue
                        bmin = math.sqrt(min(idot(b, b) for b in bv_m + bv_p)) / UNIT
                        tol = (C_DIH * EPS + 16 * EPS * (lmax + 4.0) / bmin) / min(vp[1], vm[1]) + 2 * EPS
                        if tol > 0.05:
                            continue
                        got = float(val[f][ti])
                        is_m, is_p = adiff(c["op"], got, vm[0]) <= tol, adiff(c["op"], got, vp[0]) <= tol
                        discr = adiff(c["op"], vm[0], vp[0]) > 8 * tol
                        ctx.count({"c": crec, "f": f, "t": tup}, nontrivial=discr, bucket=bucket)
                        want_mic = FLAG_TRUTH[code] and box is not None
                        if not (is_m if want_mic else is_p):
                            seen.add("plain" if is_p else ("mic" if is_m else "neither"))
                        elif discr:
                            seen.add("as documented")
                if seen - {"as documented"}:
                    what = sorted(seen - {"as documented"})[0]
                    ctx.fail("compute_%s does not follow the truth value of `periodic`: %s" % (c["op"], {
                        "plain": "the cell is ignored although periodic is true", "mic": "minimum images are used although periodic is false",
                        "neither": "the value is neither the periodic nor the non-periodic one"}[what]), crec,
                        observed={"periodic": FLAG_NAMES[code], "opt": opt, "behaves": what}, expected="minimum-image bond vectors iff periodic is true and a cell is present",
                        tags={"kind": "periodic_flag", "op": c["op"], "opt": bool(opt), "flag": FLAG_NAMES[code], "behaves": what,
                              "explained_by": ("front_flag_is_true" if (fr_read.get(c["op"], {}).get("flag") == "TestIsTrue" and opt and what == "plain"
                                                                        and code in (2, 4)) else None)})
                # the model's path for these arguments, with the description read from the source (evaluated in Coq)
                kinds = sorted(seen)
                if len(kinds) == 1 and kinds[0] in ("as documented", "plain", "mic") and box is not None:
                    want_mic = FLAG_TRUTH[code]
                    impl_mic = want_mic if kinds[0] == "as documented" else (kinds[0] == "mic")
                    path_cases.append(("(%s, %s, %s, (true, %s, %s))" % ("true" if c["op"] == "dihedrals" else "false", "true" if opt else "false",
                                                                         cz(FLAG_MODEL[code]), "true" if all_ortho else "false", "true" if all_ortho else "false"),
                                       impl_mic, all_ortho, opt))
                    path_meta.append(crec)
            continue
        # ---- nearly orthorhombic cells
        X, L, ang, idx = prep[k]
        vec = out.get("f%d_vectors" % k)
        if vec is None:
            continue
        (Xi, Bi), K = to_common_ints([X, vec])
        unit = float(2 ** K)
        box = [[int(v) for v in row] for row in Bi[0]]
        if not (box[0][1] == 0 and box[0][2] == 0 and box[1][2] == 0):
            notes["nearortho_cell_not_lower_triangular"] = notes.get("nearortho_cell_not_lower_triangular", 0) + 1
            continue
        exact_ortho = box[1][0] == 0 and box[2][0] == 0 and box[2][1] == 0
        close = bool(np.all(np.abs(ang.astype(np.float64) - 90.0) <= 1e-8 + 1e-5 * 90.0))
        margin = float(np.min(np.abs(np.abs(ang.astype(np.float64) - 90.0) - (1e-8 + 1e-5 * 90.0))))
        if margin < 1e-4:
            continue            # too close to the boundary of numpy.allclose to call
        lmax = float(max(L[0]))
        for j, (opt, code) in enumerate(c["calls"]):
            key = "f%d_c%d" % (k, j)
            crec = {"front": "nearortho", "op": c["op"], "gen": c["gen"], "calls": [[opt, code]]}
            bucket = "front/nearortho/%s/opt=%s/%s" % (c["op"], opt, "exactly-orthorhombic" if exact_ortho else ("allclose" if close else "not-close"))
            if key not in out:
                ctx.count(crec, bucket=bucket)
                ctx.fail("compute_%s raised on valid input" % c["op"], crec, observed=r.get("errors", {}).get("c%d" % j), expected="a value",
                         tags={"kind": "raises", "op": c["op"]})
                continue
            val = out[key]
            behaves = set()
            for ti, tup in enumerate(idx):
                prs = tuple_pairs(c["op"], tup)
                raw = [tuple(int(Xi[0][b][i]) - int(Xi[0][a][i]) for i in range(3)) for a, b in prs]
                mics = [mic_far(rv, box) for rv in raw]
                if not all(u for _, u in mics):
                    continue
                bv_m = [v for v, _ in mics]
                bv_d = [mic_diag(rv, box) for rv in raw]
                vm, vd = value_of(c["op"], bv_m), value_of(c["op"], bv_d)
                if vm is None or vd is None:
                    continue
                bmin = math.sqrt(min(idot(b, b) for b in bv_m)) / unit
                rawmax = math.sqrt(max(idot(rv, rv) for rv in raw)) / unit
                tol = (C_DIH * EPS + 16 * EPS * (lmax + rawmax) / bmin) / min(vm[1], vd[1]) + 2 * EPS
                if tol > 0.05:
                    continue
                got = float(val[0][ti])
                discr = adiff(c["op"], vm[0], vd[0]) > 4 * tol
                ctx.count({"c": crec, "t": tup}, nontrivial=True, bucket=bucket + ("/discriminating" if discr else ""))
                is_m, is_d = adiff(c["op"], got, vm[0]) <= tol, adiff(c["op"], got, vd[0]) <= tol
                if not is_m and (discr or adiff(c["op"], got, vm[0]) > 5 * tol):
                    behaves.add("diagonal" if (is_d and discr) else "neither")
                    bad_t = {"tuple": tup, "value": got, "minimum_image_value": vm[0], "diagonal_only_value": vd[0], "tol": tol}
                elif discr:
                    behaves.add("minimum image")
                if discr and len(api_cases) < (24 if ctx.tier == "quick" else 240):
                    api_cases.append((c["op"], opt, close, exact_ortho, Xi[0], box, tup, obs_of(c["op"], bv_m), obs_of(c["op"], bv_d), is_m, is_d))
                    api_meta.append(crec)
            if behaves - {"minimum image"}:
                what = sorted(behaves - {"minimum image"})[0]
                ctx.fail("compute_%s in a cell that is nearly but not exactly orthorhombic: %s" % (c["op"], {
                    "diagonal": "the bond vectors are not minimum images (only the diagonal of the cell matrix is used)",
                    "neither": "the value is not that of the minimum-image bond vectors"}[what]), crec,
                    observed=dict(bad_t, cell_vectors=[[float(v) for v in row] for row in vec[0]], opt=opt), expected="the angle of the minimum-image bond vectors",
                    tags={"kind": "near_orthorhombic_cell", "op": c["op"], "opt": bool(opt), "behaves": what,
                          "allclose": close, "exactly_orthorhombic": exact_ortho,
                          "explained_by": ("front_ortho_allclose" if (fr_read.get(c["op"], {}).get("ortho") == "OrthoAllclose" and opt and close
                                                                      and not exact_ortho and what == "diagonal") else None)})
    # ---- model evaluations (vm_compute on the description read from the source)
    if val_cases:
        bad, errs = ctx.coq_mismatches(["MD.Geom.Glue"], ("bool * Z * list (list Z)", "Z"), "Z.eqb", "validate_case", val_cases)
        if errs:
            ctx.break_("correspondence:coqc-evaluation", "\n".join(errs))
        for i in bad:
            c = cases[val_meta[i]]
            ctx.break_("correspondence:front-validation-model-vs-implementation",
                       "Glue.validate (from the source text) and the implementation disagree on %s" % json.dumps(c))
        stats["validate_model_evaluations"] = stats.get("validate_model_evaluations", 0) + len(val_cases)
    if path_cases:
        lst = []
        for text, impl_mic, all_ortho, opt in path_cases:
            lst.append((text, "true" if impl_mic else "false"))
        bad, errs = ctx.coq_mismatches(["MD.Geom.Glue"], ("bool * bool * Z * (bool * bool * bool)", "bool"), "Bool.eqb",
                                       "(fun c => negb (Z.eqb (path_case c) 0))", lst)
        if errs:
            ctx.break_("correspondence:coqc-evaluation", "\n".join(errs))
        for i in bad:
            ctx.break_("correspondence:front-path-model-vs-implementation",
                       "Glue.front_path (from the source text) and the implementation disagree on the treatment of the cell: %s" % json.dumps(path_meta[i]))
        stats["path_model_evaluations"] = stats.get("path_model_evaluations", 0) + len(lst)
    if api_cases:
        lst, keep = [], []
        for (op, opt, close, exact_ortho, Xf, box, tup, om, od, is_m, is_d) in api_cases:
            if is_m == is_d:
                continue
            frames = clist([clist([coq_vec(tuple(int(w) for w in a)) for a in Xf])])
            boxes = clist(["(mkbox %s %s %s)" % tuple(coq_vec(r) for r in box)])
            case = "(%s, %s, %s, %s, %s, %s, %s)" % ("true" if op == "dihedrals" else "false", "true" if opt else "false", cz(0),
                                                     "true" if close else "false", frames, boxes, clist([cz(a) for a in tup]))
            exp = om if is_m else od
            lst.append((case, "Some [(%s, %s, %s)]" % tuple(cz(v) for v in exp)))
            keep.append(len(lst) - 1)
        if lst:
            bad, errs = ctx.coq_mismatches(["MD.PBC.Model", "MD.Geom.Periodic", "MD.Geom.Glue"], ("api_case_t", "option (list (Z * Z * Z))"),
                                           "obs_list_eqb", "api_case", lst, shard=12)
            if errs:
                ctx.break_("correspondence:coqc-evaluation", "\n".join(errs))
            elif bad:
                ctx.break_("correspondence:front-api-model-vs-implementation",
                           "Glue.compute_angles/compute_dihedrals (kernel chosen by the description read from the source) gives other bond "
                           "vectors than the implementation on a nearly orthorhombic cell: %s" % json.dumps(api_meta[bad[0]]))
            stats["api_model_evaluations_nearortho"] = stats.get("api_model_evaluations_nearortho", 0) + len(lst)


# ------------------------------------------------------------------------------------------------
#  named torsions as VALUES: every helper (phi psi omega chi1..chi5) x (periodic, opt) in {T,F}^2 on peptides whose bonds
#  are cut by the faces of a cell -- against compute_dihedrals with the same flags and against the exact oracle
def build_named_cases(ctx):
    rng = ctx.rng
    cases = []
    for _ in range(6 if ctx.tier == "quick" else 150):
        cases.append({"named": {"chains": rng.randint(1, 2), "max_res": rng.choice([3, 5]), "p_del": 0.0, "p_other": 0.0, "p_dup": 0.0, "p_alias": 0.0,
                                "cell": rng.choice(["cubic", "ortho", "tric", "tric", "none"]), "F": rng.randint(1, 2),
                                "rich": True, "seed": rng.randrange(1, 2 ** 31 - 1)}})
    return cases


RICH = ["ARG", "LYS", "MET", "GLU", "GLN", "ILE", "LEU", "HIS", "PHE", "THR", "SER", "CYS", "ASP", "PRO", "VAL"]


def gen_named(gen):
    """a peptide (residues with long side chains first, so that chi1..chi5 all occur) whose atoms form a random walk in
    index order with steps of 0.02 of the smallest cell width, wrapped into the cell"""
    rs = np.random.RandomState(gen["seed"])
    chains = []
    for _ in range(gen["chains"]):
        ch = []
        for ri in range(int(rs.randint(2, gen["max_res"] + 1))):
            name = ["ARG", "LYS"][ri] if ri < 2 else RICH[rs.randint(len(RICH))]
            ch.append({"name": name, "atoms": BACKBONE + SIDE[name]})
        chains.append(ch)
    n = sum(len(r["atoms"]) for ch in chains for r in ch)
    box = make_box(rs, gen["cell"])
    lmin = min(box[0][0], box[1][1], box[2][2]) if box else 3 * UNIT
    frames = []
    for f in range(gen["F"]):
        X = np.zeros((n, 3), dtype=np.int64)
        X[0] = rs.randint(-2 * UNIT, 2 * UNIT, size=3)
        for k in range(1, n):
            while True:
                d = rs.randn(3)
                step = np.round(d / np.linalg.norm(d) * rs.uniform(0.012, 0.02) * lmin).astype(np.int64)
                if np.abs(step).max() > 0:
                    break
            X[k] = X[k - 1] + step
        if box is not None:
            frac = X.astype(np.float64) @ np.linalg.inv(np.array(box, dtype=np.float64))
            X = X - np.floor(frac).astype(np.int64) @ np.array(box, dtype=np.int64)
        frames.append(X)
    return chains, np.array(frames), box


def run_named(ctx, cases):
    inp, payload, prep = {}, [], {}
    for k, c in enumerate(cases):
        chains, X, box = gen_named(c["named"])
        prep[k] = (X, box)
        inp["n%d_xyz" % k] = (X.astype(np.float64) / UNIT).astype(np.float32)
        if box is not None:
            inp["n%d_box" % k] = (np.array([box] * X.shape[0], dtype=np.float64) / UNIT).astype(np.float32)
        payload.append({"id": k, "chains": chains, "has_box": box is not None})
    tag = "%d_%d" % (len(cases), ctx.rng.randrange(10 ** 9))
    ipath, opath = os.path.join(ctx.tmp, "nin_%s.npz" % tag), os.path.join(ctx.tmp, "nout_%s.npz" % tag)
    np.savez(ipath, **inp)
    res = ctx.run_impl("geom_impl.py", {"inputs": ipath, "outputs": opath, "geom": [], "topo": [], "front": [], "named": payload})
    out = dict(np.load(opath)) if os.path.exists(opath) else {}
    errors = res.get("errors", {})
    found = ctx.notes.setdefault("coverage_extra", {}).setdefault("named_torsion_values_checked", {})
    for k, c in enumerate(cases):
        rec = dict(c)
        if "n%d" % k in errors or str(k) not in res.get("named", {}):
            ctx.count(rec, bucket="named-values")
            ctx.fail("compute_<torsion> raised on a valid trajectory: %s" % errors.get("n%d" % k, "?").split(":")[0], rec, observed=errors.get("n%d" % k),
                     expected="values", tags={"kind": "raises", "op": "named"})
            continue
        r = res["named"][str(k)]
        X, box = prep[k]
        lmax = max(max(abs(v) for v in row) for row in box) / UNIT if box else 0.0
        done = False
        for nm in NAMES:
            if done:
                break
            idx = r["indices"][nm]
            for per in (True, False):
                for opt in (True, False):
                    tagk = "%s_%d%d" % (nm, int(per), int(opt))
                    bucket = "named-values/%s/periodic=%s,opt=%s/%s" % (nm, per, opt, c["named"]["cell"])
                    if not r["same"].get(tagk, False):
                        ctx.count({"c": rec, "t": tagk}, bucket=bucket)
                        ctx.fail("md.compute_%s(periodic, opt) differs from compute_dihedrals over its own index list with the same flags" % nm, rec,
                                 observed={"periodic": per, "opt": opt}, expected="bitwise identical arrays",
                                 tags={"kind": "named_flags", "name": nm, "periodic": per, "opt": opt})
                        done = True
                        continue
                    val = out["n%d_%s" % (k, tagk)]
                    for f in range(X.shape[0]):
                        for ti, tup in enumerate(idx):
                            prs = tuple_pairs("dihedrals", tup)
                            bv = bond_vectors(X[f], box, prs, per and box is not None)
                            bv_other = bond_vectors(X[f], box, prs, (not per) and box is not None)
                            if bv is None:
                                continue
                            v = value_of("dihedrals", bv)
                            if v is None:
                                continue
                            bmin = math.sqrt(min(idot(b, b) for b in bv)) / UNIT
                            tol = (C_DIH * EPS + (16 * EPS * lmax / bmin if per and box is not None else 0.0) + 16 * EPS * 4.0 / bmin) / v[1]
                            if tol > 0.05:
                                continue
                            vo = value_of("dihedrals", bv_other) if bv_other is not None else None
                            discr = vo is not None and adiff("dihedrals", v[0], vo[0]) > 8 * tol
                            ctx.count({"c": rec, "t": tagk, "f": f, "q": tup}, nontrivial=discr, bucket=bucket)
                            found[nm] = found.get(nm, 0) + 1
                            got = float(val[f][ti])
                            if adiff("dihedrals", got, v[0]) > tol:
                                ctx.fail("md.compute_%s is not the IUPAC torsion of the (minimum-image) bond vectors of its documented atoms under the flags given" % nm,
                                         rec, observed={"periodic": per, "opt": opt, "frame": f, "atoms": tup, "value": got},
                                         expected={"value": v[0], "tol": tol, "value_with_periodic_negated": vo[0] if vo else None},
                                         tags={"kind": "named_value", "name": nm, "periodic": per, "opt": opt})
                                done = True
                                break
                        if done:
                            break
                    if done:
                        break
                if done:
                    break


def correspond(ctx):
    nc = build_named_cases(ctx)
    ctx.log("named-torsion value cases:", len(nc))
    for s in range(0, len(nc), 50):
        run_named(ctx, nc[s:s + 50])
    fc = build_front_cases(ctx)
    ctx.log("front-end cases:", len(fc))
    for s in range(0, len(fc), 400):
        run_front(ctx, fc[s:s + 400])
    g = build_geom_cases(ctx)
    ctx.log("geometry cases:", len(g))
    for s in range(0, len(g), 40):
        run_geom(ctx, g[s:s + 40])
    t = build_topo_cases(ctx)
    ctx.log("topologies:", len(t))
    for s in range(0, len(t), 500):
        run_topo(ctx, t[s:s + 500])
    ctx.notes.setdefault("coverage_extra", {})["bounds"] = {"C_DIH": C_DIH, "C_ANG": C_ANG, "unit": "2^-23",
                                                            "box_term": "16*2^-23*L/|b| (periodic)"}


def search(ctx, broken):
    # the correspondence already compares the implementation with the exact oracle; after a broken proof or tie
    # run one more, independent stream
    g = build_geom_cases(ctx)
    for s in range(0, len(g), 40):
        run_geom(ctx, g[s:s + 40])
    run_topo(ctx, build_topo_cases(ctx)[:200])
    run_front(ctx, build_front_cases(ctx))
    run_named(ctx, build_named_cases(ctx))


def replay(ctx, rec):
    # a replay skips the translate/prove stages: regenerate the formulas and rebuild the proof-free model files
    try:
        translate(ctx)
    except Exception as e:
        ctx.log("translator degraded:", e)
    ok, log = ctx.make(["Geom/Model.vo", "Geom/Topo.vo", "Geom/Periodic.vo", "Geom/Glue.vo"])
    if not ok:
        ctx.break_("replay:model-build", log)
    c = rec["case"]
    if "front" in c:
        run_front(ctx, [c])
    elif "named" in c:
        run_named(ctx, [c])
    elif "topo" in c:
        run_topo(ctx, [c])
    else:
        run_geom(ctx, [c])
