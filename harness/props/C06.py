"""C06 -- RMSD is the optimal-superposition RMSD and superpose attains it.

Parts (DESIGN.md section 5, C06):
  translate   : reads the body of msdFromMandG in mdtraj/rmsd/src/theobald_rmsd.cpp with a small
                C-subset parser + symbolic executor and regenerates coq/Gen/RmsdFormulas.v (module Zf:
                the polynomial skeleton over Z, module Rf: the whole function over R).  The theorems of
                coq/Rmsd/*.v are about these regenerated definitions.
  correspond  : (a) exact tie: on integer-grid conformations the Gallina model's characteristic
                polynomial (Zf, vm_compute) is compared with an independent exact computation, and the
                implementation's RMSD (public API) must be its largest root;
                (b) oracle: md.rmsd / Trajectory.superpose / md.rmsf / md.lprmsd against an independent
                float64 Kabsch (numpy SVD) under stated float32 bounds; optimality probes; rigidity.
"""
import math
import os
import re
from fractions import Fraction

import numpy as np

from common import REPO, cz, clist

LEVEL = "proof"
THEOREMS = "Props/C06.v"
EXTRA_TARGETS = ("Gen/RmsdFormulas.vo", "Gen/RmsdLayout.vo", "Rmsd/Layout.vo")
EXTS = ["_rmsd", "_lprmsd"]

SRC = "mdtraj/rmsd/src/theobald_rmsd.cpp"
FUNC = "msdFromMandG"


# =====================================================================================
#  Part 1: translator (C subset -> Gallina).  Fail closed: anything outside the grammar raises.
# =====================================================================================
class TranslateError(Exception):
    pass


TOKEN_RE = re.compile(r"""
    (?P<num>(?:\d+\.\d*|\.\d+|\d+)(?:[eE][+-]?\d+)?[fFlL]?)
  | (?P<id>[A-Za-z_][A-Za-z_0-9]*)
  | (?P<str>"(?:[^"\\]|\\.)*")
  | (?P<op>\+\+|--|\+=|-=|\*=|/=|==|!=|<=|>=|&&|\|\||[-+*/<>=!\[\](){};,&%])
  | (?P<ws>\s+)
""", re.X)

TYPE_WORDS = {"float", "double", "int", "unsigned", "const", "long"}
IO_CALLS = {"printf", "fprintf"}


def strip_comments(text):
    text = re.sub(r"/\*.*?\*/", lambda m: re.sub(r"[^\n]", " ", m.group(0)), text, flags=re.S)
    text = re.sub(r"//[^\n]*", "", text)
    return text


def function_body(text, name):
    """Text between the braces of the *definition* of `name` (the prototype ends with ';')."""
    for m in re.finditer(r"\b%s\s*\(" % re.escape(name), text):
        depth, i = 0, m.end() - 1
        while i < len(text):
            if text[i] == "(":
                depth += 1
            elif text[i] == ")":
                depth -= 1
                if depth == 0:
                    break
            i += 1
        params = text[m.end():i]
        j = i + 1
        while j < len(text) and text[j].isspace():
            j += 1
        if j < len(text) and text[j] == "{":
            depth, k = 0, j
            while k < len(text):
                if text[k] == "{":
                    depth += 1
                elif text[k] == "}":
                    depth -= 1
                    if depth == 0:
                        return params, text[j + 1:k]
                k += 1
    raise TranslateError("definition of %s not found" % name)


def tokenize(text):
    toks, pos = [], 0
    while pos < len(text):
        m = TOKEN_RE.match(text, pos)
        if not m:
            raise TranslateError("cannot tokenize at: %r" % text[pos:pos + 30])
        pos = m.end()
        kind = m.lastgroup
        if kind != "ws":
            toks.append((kind, m.group(kind)))
    return toks


class Parser:
    """statements: decl | assignment (chained, compound) | for | if/else | return | call;"""

    def __init__(self, toks):
        self.t = toks
        self.i = 0

    def peek(self, k=0):
        return self.t[self.i + k] if self.i + k < len(self.t) else ("eof", "")

    def eat(self, val=None, kind=None):
        tk = self.peek()
        if (val is not None and tk[1] != val) or (kind is not None and tk[0] != kind):
            raise TranslateError("expected %r, found %r (token %d)" % (val or kind, tk[1], self.i))
        self.i += 1
        return tk

    def block(self):
        out = []
        while self.peek()[0] != "eof" and self.peek()[1] != "}":
            out.append(self.stmt())
        return out

    def body(self):
        if self.peek()[1] == "{":
            self.eat("{")
            b = self.block()
            self.eat("}")
            return b
        return [self.stmt()]

    def stmt(self):
        k, v = self.peek()
        if v == ";":
            self.eat(";")
            return ("nop",)
        if k == "id" and v in TYPE_WORDS:
            words = []
            while self.peek()[0] == "id" and self.peek()[1] in TYPE_WORDS:
                words.append(self.eat()[1])
            items = []
            while True:
                name = self.eat(kind="id")[1]
                init = None
                if self.peek()[1] == "[":
                    raise TranslateError("local arrays are outside the grammar")
                if self.peek()[1] == "=":
                    self.eat("=")
                    init = self.expr()
                items.append((name, init))
                if self.peek()[1] == ",":
                    self.eat(",")
                    continue
                break
            self.eat(";")
            return ("decl", " ".join(words), items)
        if v == "for":
            self.eat("for")
            self.eat("(")
            var = self.eat(kind="id")[1]
            self.eat("=")
            start = self.expr()
            self.eat(";")
            v2 = self.eat(kind="id")[1]
            rel = self.eat()[1]
            bound = self.expr()
            self.eat(";")
            v3 = self.eat(kind="id")[1]
            inc = self.eat()[1]
            self.eat(")")
            if not (var == v2 == v3 and rel == "<" and inc == "++"):
                raise TranslateError("only 'for (i = a; i < b; i++)' loops are accepted")
            return ("for", var, start, bound, self.body())
        if v == "if":
            self.eat("if")
            self.eat("(")
            c = self.cond()
            self.eat(")")
            th = self.body()
            el = []
            if self.peek()[1] == "else":
                self.eat("else")
                el = self.body()
            return ("if", c, th, el)
        if v == "return":
            self.eat("return")
            if self.peek()[1] == "(":
                pass
            e = self.expr()
            self.eat(";")
            return ("return", e)
        if k == "id":
            # call statement or assignment
            if self.peek(1)[1] == "(":
                e = self.expr()
                self.eat(";")
                if e[0] != "call":
                    raise TranslateError("expression statement that is not a call")
                return ("callstmt", e)
            lvals = [self.lvalue()]
            op = self.eat()[1]
            if op not in ("=", "+=", "-=", "*=", "/="):
                raise TranslateError("unsupported statement operator %r" % op)
            # chained a = b = c = e
            while op == "=" and self.peek()[0] == "id" and self._is_chain():
                lvals.append(self.lvalue())
                self.eat("=")
            e = self.expr()
            self.eat(";")
            return ("assign", lvals, op, e)
        raise TranslateError("unsupported statement starting with %r" % v)

    def _is_chain(self):
        # look ahead: ident ([...])? '='  (and not '==')
        j = self.i + 1
        if self.t[j][1] == "[":
            depth = 0
            while j < len(self.t):
                if self.t[j][1] == "[":
                    depth += 1
                elif self.t[j][1] == "]":
                    depth -= 1
                    if depth == 0:
                        j += 1
                        break
                j += 1
        return j < len(self.t) and self.t[j][1] == "="

    def lvalue(self):
        name = self.eat(kind="id")[1]
        if self.peek()[1] == "[":
            self.eat("[")
            ix = self.expr()
            self.eat("]")
            return ("idx", name, ix)
        return ("var", name)

    def cond(self):
        a = self.expr()
        rel = self.eat()[1]
        if rel not in ("<", ">", "<=", ">=", "!=", "=="):
            raise TranslateError("unsupported condition operator %r" % rel)
        b = self.expr()
        if self.peek()[1] in ("&&", "||"):
            raise TranslateError("compound conditions are outside the grammar")
        return ("cmp", rel, a, b)

    def expr(self):
        a = self.term()
        while self.peek()[1] in ("+", "-"):
            op = self.eat()[1]
            b = self.term()
            a = ("bin", op, a, b)
        return a

    def term(self):
        a = self.unary()
        while self.peek()[1] in ("*", "/"):
            op = self.eat()[1]
            b = self.unary()
            a = ("bin", op, a, b)
        return a

    def unary(self):
        if self.peek()[1] == "-":
            self.eat("-")
            return ("neg", self.unary())
        if self.peek()[1] == "+":
            self.eat("+")
            return self.unary()
        return self.atom()

    def atom(self):
        k, v = self.peek()
        if v == "(":
            # cast "(float)" / "(double)" is accepted and ignored (value-preserving in the exact model)
            if self.peek(1)[0] == "id" and self.peek(1)[1] in TYPE_WORDS and self.peek(2)[1] == ")":
                self.eat("(")
                self.eat()
                self.eat(")")
                return self.unary()
            self.eat("(")
            e = self.expr()
            self.eat(")")
            return e
        if k == "num":
            self.eat()
            return ("num", v)
        if k == "str":
            self.eat()
            return ("str", v)
        if k == "id":
            self.eat()
            if self.peek()[1] == "(":
                self.eat("(")
                args = []
                if self.peek()[1] != ")":
                    while True:
                        if self.peek()[1] == "&":
                            raise TranslateError("address-of is outside the grammar")
                        args.append(self.expr())
                        if self.peek()[1] == ",":
                            self.eat(",")
                            continue
                        break
                self.eat(")")
                return ("call", v, args)
            if self.peek()[1] == "[":
                self.eat("[")
                ix = self.expr()
                self.eat("]")
                return ("idx", v, ix)
            return ("var", v)
        raise TranslateError("unexpected token %r in expression" % v)


def parse_number(text):
    t = text.rstrip("fFlL")
    return Fraction(t)


def contains_io(stmts):
    for s in stmts:
        if s[0] == "callstmt" and s[1][1] in IO_CALLS:
            return True
        if s[0] == "if" and (contains_io(s[2]) or contains_io(s[3])):
            return True
        if s[0] == "for" and contains_io(s[4]):
            return True
    return False


class SymExec:
    """Symbolic execution of the parsed body into a list of Gallina definitions.

    mode 'R': the whole function; conditionals become `if <dec> then .. else ..`, sqrt and / are kept.
    mode 'Z': the polynomial skeleton along the main path: a value that is not a polynomial with
              integer literals in earlier values (division, sqrt, solver call, non-integer literal)
              becomes a fresh input field h_<name>; at an if/else whose condition is not polynomial
              only the branch that is not the I/O-reporting fallback is followed.
    Every assignment creates a new definition  <var>  (first)  /  <var>_<k>  (k-th re-assignment);
    out_<var> is the final value, and snapshots (SNAP) record the versions current at a given event.
    """

    SOLVERS = {"DirectSolve", "NewtonSolve"}
    SNAP = {"qsqr": ["q0", "q1", "q2", "q3", "k00", "k01", "k02", "k03", "k11", "k12", "k13", "k22", "k23", "k33",
                     "lambda", "qsqr"],
            "detK": ["k00", "k01", "k02", "k03", "k11", "k12", "k13", "k22", "k23", "k33"]}

    def __init__(self, mode, float_params, array_params, int_params, special_true, final_events=None):
        self.mode = mode
        self.final_events = final_events      # None: counting pass; else {event var: index of its last assignment}
        self.event_seen = {}
        self.snap_names = []
        self.defs = []          # (name, coq_expr or None for input field, comment)
        self.inputs = []        # record fields
        self.cur = {}           # C variable (or arr_k) -> current definition name
        self.ver = {}           # C variable -> number of definitions so far
        self.consts = {}        # const ints and loop variables -> python int
        self.poly = {}          # definition name -> bool (polynomial over Z)
        self.conds = []         # (name, coq_prop_text, dec_text)
        self.fallback_cond = None
        self.snap = {}
        self.ret = None
        self.special_true = set(special_true)
        self.arrays = {}
        for a, n in array_params.items():
            self.arrays[a] = n
        for p in float_params + int_params:
            self._input(p, p)
        for a, n in array_params.items():
            if a in self.special_true:
                continue
        self.io_seen = False

    # ---- naming
    def _input(self, cvar, field):
        self.inputs.append(field)
        self.cur[cvar] = field
        self.poly[field] = True
        self.ver[cvar] = self.ver.get(cvar, 0)

    def _fresh(self, cvar):
        k = self.ver.get(cvar, 0)
        self.ver[cvar] = k + 1
        base = cvar
        name = base if k == 0 else "%s_%d" % (base, k)
        if name in self.inputs:
            name = "%s_%d" % (base, k + 1)
            self.ver[cvar] = k + 2
        return name

    def array_elem(self, name, ix):
        k = self.const_eval(ix)
        if name not in self.arrays:
            raise TranslateError("indexing of non-parameter %s" % name)
        if not (0 <= k < self.arrays[name]):
            raise TranslateError("index %d out of range for %s" % (k, name))
        return "%s%d" % (name, k)

    def const_eval(self, e):
        if e[0] == "num":
            f = parse_number(e[1])
            if f.denominator != 1:
                raise TranslateError("non-integer index")
            return int(f)
        if e[0] == "var":
            if e[1] in self.consts:
                return self.consts[e[1]]
            raise TranslateError("index uses non-constant %s" % e[1])
        if e[0] == "bin" and e[1] in "+-*":
            a, b = self.const_eval(e[2]), self.const_eval(e[3])
            return a + b if e[1] == "+" else a - b if e[1] == "-" else a * b
        if e[0] == "neg":
            return -self.const_eval(e[1])
        raise TranslateError("index expression outside the grammar")

    # ---- expressions -> (coq text, is_polynomial)
    def ex(self, e):
        if e[0] == "num":
            f = parse_number(e[1])
            if f.denominator == 1:
                n = int(f)
                return ("%d" % n if n >= 0 else "(%d)" % n), True
            if self.mode == "Z":
                return None, False
            return "(%d / %d)" % (f.numerator, f.denominator), False
        if e[0] == "var":
            if e[1] in self.consts:
                n = self.consts[e[1]]
                return ("%d" % n if n >= 0 else "(%d)" % n), True
            if e[1] not in self.cur:
                raise TranslateError("use of %s before assignment" % e[1])
            d = self.cur[e[1]]
            return "%s i" % d, self.poly[d]
        if e[0] == "idx":
            key = self.array_elem(e[1], e[2])
            if key not in self.cur:
                if e[1] in self.special_true:
                    raise TranslateError("read of output array %s before assignment" % key)
                self._input(key, key)
            d = self.cur[key]
            return "%s i" % d, self.poly[d]
        if e[0] == "neg":
            t, p = self.ex(e[1])
            return (None if t is None else "(- %s)" % t), p
        if e[0] == "bin":
            a, pa = self.ex(e[2])
            b, pb = self.ex(e[3])
            if e[1] == "/":
                if self.mode == "Z" or a is None or b is None:
                    return None, False
                return "(%s / %s)" % (a, b), False
            if a is None or b is None:
                return None, False
            return "(%s %s %s)" % (a, e[1], b), pa and pb
        if e[0] == "call":
            if e[1] in ("sqrt", "sqrtf") and len(e[2]) == 1:
                a, _ = self.ex(e[2][0])
                if self.mode == "Z" or a is None:
                    return None, False
                return "(sqrt (%s))" % a, False
            if e[1] in self.SOLVERS:
                for a in e[2]:
                    self.ex(a)      # arguments must be well-formed
                return None, False  # the solver's result is an input of the model in both modes
            raise TranslateError("call of %s is outside the grammar" % e[1])
        raise TranslateError("expression outside the grammar: %r" % (e,))

    def define(self, cvar, text, poly, comment):
        name = self._fresh(cvar)
        if text is None:
            field = "h_" + name
            self.inputs.append(field)
            self.poly[field] = True
            self.defs.append((name, "%s i" % field, comment + " (input of the model)"))
            self.poly[name] = True
        else:
            self.defs.append((name, text, comment))
            self.poly[name] = poly
        self.cur[cvar] = name
        if cvar in self.SNAP:
            # The values current at the LAST assignment of the event variable become named definitions
            # at_<event>_<var>; later statements refer to them through these names, which are kept out of
            # the default unfolding database (proofs can stop at this barrier).
            self.event_seen[cvar] = self.event_seen.get(cvar, 0) + 1
            if self.final_events is not None and self.event_seen[cvar] == self.final_events.get(cvar):
                for v in self.SNAP[cvar]:
                    if v in self.cur:
                        alias = "at_%s_%s" % (cvar, v)
                        self.defs.append((alias, "%s i" % self.cur[v], "value of %s when %s was last assigned" % (v, cvar)))
                        self.poly[alias] = self.poly[self.cur[v]]
                        self.snap[alias] = self.cur[v]
                        self.snap_names.append(alias)
                        self.cur[v] = alias
        return name

    # ---- statements
    def run(self, stmts):
        for s in stmts:
            self.stmt(s)

    def lkey(self, lv):
        return lv[1] if lv[0] == "var" else self.array_elem(lv[1], lv[2])

    def stmt(self, s):
        kind = s[0]
        if kind == "nop":
            return
        if kind == "decl":
            ctype, items = s[1], s[2]
            for name, init in items:
                if "int" in ctype.split() and "float" not in ctype:
                    if init is not None:
                        self.consts[name] = self.const_eval(init)
                    continue
                if init is not None:
                    t, p = self.ex(init)
                    self.define(name, t, p, "%s %s = ..." % (ctype, name))
            return
        if kind == "assign":
            lvals, op, e = s[1], s[2], s[3]
            if op != "=":
                lv = lvals[0]
                e = ("bin", op[0], lv, e)
            t, p = self.ex(e)
            for lv in reversed(lvals):
                key = self.lkey(lv)
                self.define(key, t, p, "%s %s ..." % (key, op))
            return
        if kind == "for":
            _, var, start, bound, body = s
            a, b = self.const_eval(start), self.const_eval(bound)
            if b - a > 64:
                raise TranslateError("loop too long to unroll")
            for k in range(a, b):
                self.consts[var] = k
                self.run(body)
            self.consts.pop(var, None)
            return
        if kind == "callstmt":
            if s[1][1] in IO_CALLS:
                return
            raise TranslateError("call statement %s outside the grammar" % s[1][1])
        if kind == "return":
            t, p = self.ex(s[1])
            self.ret = self.define("ret", t, p, "return value")
            return
        if kind == "if":
            return self.if_(s)
        raise TranslateError("statement kind %s" % kind)

    REL = {"<": ("Rlt_dec", "Z.ltb", "<"), ">": ("Rgt_dec", "Z.gtb", ">"), "<=": ("Rle_dec", "Z.leb", "<="),
           ">=": ("Rge_dec", "Z.geb", ">=")}

    def if_(self, s):
        _, c, th, el = s
        rel, a, b = c[1], c[2], c[3]
        # specialisation on flags such as computeRot != 0
        if a[0] == "var" and a[1] in self.special_true and rel == "!=" and b[0] == "num":
            self.run(th)
            return
        if rel not in self.REL:
            raise TranslateError("condition %s outside the grammar" % rel)
        ta, pa = self.ex(a)
        tb, pb = self.ex(b)
        io_t, io_e = contains_io(th), contains_io(el)
        is_fallback = el and (io_t != io_e)
        if self.mode == "Z" and (ta is None or tb is None):
            if not is_fallback:
                raise TranslateError("non-polynomial condition without a recognisable fallback branch")
            self.run(el if io_t else th)
            return
        cname = "cond_%d" % (len(self.conds) + 1)
        if self.mode == "R":
            self.conds.append((cname, "(%s %s %s)" % (ta, self.REL[rel][2], tb), "%s (%s) (%s)" % (self.REL[rel][0], ta, tb)))
        else:
            self.conds.append((cname, "(%s (%s) (%s) = true)" % (self.REL[rel][1], ta, tb), "(%s (%s) (%s))" % (self.REL[rel][1], ta, tb)))
        if is_fallback:
            self.fallback_cond = (cname, bool(io_t))
        save_cur = dict(self.cur)
        self.run(th)
        cur_t = dict(self.cur)
        self.cur = dict(save_cur)
        self.run(el)
        cur_e = dict(self.cur)
        merged = dict(save_cur)
        for v in sorted(set(cur_t) | set(cur_e)):
            dt, de = cur_t.get(v, save_cur.get(v)), cur_e.get(v, save_cur.get(v))
            if dt == de:
                merged[v] = dt
                continue
            if dt is None or de is None:
                # assigned in one branch only and undefined before: not usable after the if
                continue
            self.cur = merged
            if self.mode == "R":
                text = "(if %s_dec i then %s i else %s i)" % (cname, dt, de)
            else:
                text = "(if %s_b i then %s i else %s i)" % (cname, dt, de)
            self.define(v, text, False if self.mode == "R" else (self.poly[dt] and self.poly[de]), "merge after if %s" % cname)
            merged = self.cur
        self.cur = merged


def emit_module(modname, se, scope, ty):
    L = []
    L.append("Module %s." % modname)
    L.append("Local Open Scope %s." % scope)
    L.append("Record inp : Type := mk { %s }." % "; ".join("%s : %s" % (f, ty) for f in se.inputs))
    cond_by_name = {c[0]: c for c in se.conds}
    emitted_conds = set()
    # conditions must be emitted before the first definition that uses them: emit lazily
    for name, text, comment in se.defs:
        for cname in re.findall(r"\b(cond_\d+)_(?:dec|b)\b", text):
            if cname not in emitted_conds:
                emitted_conds.add(cname)
                _c, prop, dec = cond_by_name[cname]
                if se.mode == "R":
                    L.append("Definition %s (i : inp) : Prop := %s." % (cname, prop))
                    L.append("Definition %s_dec (i : inp) : {%s i} + {~ %s i} := %s." % (cname, cname, cname, dec))
                else:
                    L.append("Definition %s_b (i : inp) : bool := %s." % (cname, dec))
        L.append("Definition %s (i : inp) : %s := %s.  (* %s *)" % (name, ty, text, comment))
    for cname, (_c, prop, dec) in cond_by_name.items():
        if cname not in emitted_conds:
            if se.mode == "R":
                L.append("Definition %s (i : inp) : Prop := %s." % (cname, prop))
                L.append("Definition %s_dec (i : inp) : {%s i} + {~ %s i} := %s." % (cname, cname, cname, dec))
            else:
                L.append("Definition %s_b (i : inp) : bool := %s." % (cname, dec))
    L.append("(* final values *)")
    finals = []
    for cvar, d in sorted(se.cur.items()):
        if d in se.inputs and not cvar.startswith("rot"):
            continue
        L.append("Definition out_%s (i : inp) : %s := %s i." % (cvar, ty, d))
        finals.append("out_%s" % cvar)
    if se.fallback_cond is not None and se.mode == "R":
        cname, then_is_fallback = se.fallback_cond
        if then_is_fallback:
            L.append("Definition fallback (i : inp) : Prop := %s i." % cname)
        else:
            L.append("Definition fallback (i : inp) : Prop := ~ %s i." % cname)
    # constructor with a stable signature: inputs by role (solver result, normalised quaternion); any
    # other input that only exists because a value is not polynomial gets 0
    role = {}
    for f in se.inputs:
        if f.startswith("h_"):
            cv = re.sub(r"_\d+$", "", f[2:])
            if cv == "lambda" and f != "h_lambda":
                role[f] = "lam"
            elif cv in ("q0", "q1", "q2", "q3"):
                role[f] = {"q0": "qa", "q1": "qb", "q2": "qc", "q3": "qd"}[cv]
            else:
                role[f] = "0"
        else:
            role[f] = {"G_x": "gx", "G_y": "gy", "numAtoms": "n"}.get(f, f.lower())
    args = "gx gy n m0 m1 m2 m3 m4 m5 m6 m7 m8 lam" + (" qa qb qc qd" if se.mode == "Z" else "")
    L.append("Definition mkin (%s : %s) : inp := mk %s." % (args, ty, " ".join(role[f] for f in se.inputs)))
    names = [d[0] for d in se.defs if d[0] not in se.snap_names] + finals
    L.append("Global Hint Unfold %s : rmsdgen." % " ".join(names))
    L.append("Global Hint Unfold %s : rmsdgen_snap." % " ".join(se.snap_names))
    if se.conds:
        L.append("Global Hint Unfold %s : rmsdgen_cond." % " ".join(c[0] + ("" if se.mode == "R" else "_b") for c in se.conds))
    L.append("End %s." % modname)
    return "\n".join(L)


def parse_params(params):
    floats, arrays, ints, outs = [], {}, [], []
    for p in params.split(","):
        p = p.strip()
        m = re.match(r"^(const\s+)?(float|int)\s+([A-Za-z_]\w*)\s*(\[\s*(\d+)\s*\])?$", p)
        if not m:
            raise TranslateError("parameter %r outside the grammar" % p)
        const, ty, name, arr, n = m.groups()
        if arr:
            arrays[name] = int(n)
            if not const:
                outs.append(name)
        elif ty == "float":
            floats.append(name)
        else:
            ints.append(name)
    return floats, arrays, ints, outs


def translate_source(text):
    text = strip_comments(text)
    params, body = function_body(text, FUNC)
    floats, arrays, ints, outs = parse_params(params)
    if "computeRot" not in ints or "rot" not in outs or "M" not in arrays:
        raise TranslateError("signature of %s changed: %s" % (FUNC, params))
    ast = Parser(tokenize(body)).block()
    mods = []
    info = {}
    for mode, modname, scope, ty in (("Z", "Zf", "Z_scope", "Z"), ("R", "Rf", "R_scope", "R")):
        counts = None
        for _pass in (0, 1):
            se = SymExec(mode, floats, arrays, [p for p in ints if p != "computeRot"], ["computeRot"] + outs, final_events=counts)
            # the matrix parameter is an input even if some entry is never read
            for k in range(arrays["M"]):
                se._input("M%d" % k, "M%d" % k)
            se.run(ast)
            counts = dict(se.event_seen)
        if se.ret is None:
            raise TranslateError("no return statement reached")
        for need in ["out_C_0", "out_C_1", "out_C_2", "out_lambda"] + ["out_rot%d" % k for k in range(9)]:
            if need[4:] not in se.cur:
                raise TranslateError("expected variable %s is never assigned" % need[4:])
        for need in ["at_qsqr_q0", "at_qsqr_k00", "at_detK_k00"]:
            if need not in se.snap:
                raise TranslateError("expected snapshot %s missing" % need)
        mods.append(emit_module(modname, se, scope, ty))
        info[mode] = se
    header = ("(* GENERATED by harness/props/C06.py:translate from %s (function %s).\n"
              "   Do not edit: rewritten on every run when the source text changes. *)\n"
              "From Coq Require Import ZArith Reals.\n" % (SRC, FUNC))
    return header + "\n\n".join(mods) + "\n", info


def translate_newton(text):
    """One iteration of NewtonSolve (the loop body without the convergence test) as a closed expression."""
    text = strip_comments(text)
    params, body = function_body(text, "NewtonSolve")
    names = [p.strip().split()[-1] for p in params.split(",")]
    if names != ["lambda", "C_0", "C_1", "C_2"]:
        raise TranslateError("signature of NewtonSolve changed: %s" % params)
    m = re.search(r"\bfor\s*\([^)]*\)\s*\{", body)
    if not m:
        raise TranslateError("NewtonSolve: loop not found")
    depth, k = 0, m.end() - 1
    while k < len(body):
        if body[k] == "{":
            depth += 1
        elif body[k] == "}":
            depth -= 1
            if depth == 0:
                break
        k += 1
    inner = body[m.end():k]
    inner, nbreak = re.subn(r"if\s*\(\s*fabsf\(.*\)\s*\)\s*break\s*;", "", inner)
    if nbreak != 1:
        raise TranslateError("NewtonSolve: expected exactly one convergence test")
    env = {n: n for n in names}

    def pr(e):
        if e[0] == "num":
            f = parse_number(e[1])
            if f.denominator != 1:
                raise TranslateError("NewtonSolve: non-integer literal")
            return "%d" % int(f)
        if e[0] == "var":
            if e[1] not in env:
                raise TranslateError("NewtonSolve: use of %s before assignment" % e[1])
            return env[e[1]]
        if e[0] == "neg":
            return "(- %s)" % pr(e[1])
        if e[0] == "bin":
            return "(%s %s %s)" % (pr(e[2]), e[1], pr(e[3]))
        raise TranslateError("NewtonSolve: expression outside the grammar")

    for st in Parser(tokenize(inner)).block():
        if st[0] == "nop":
            continue
        if st[0] != "assign" or st[2] != "=" or len(st[1]) != 1 or st[1][0][0] != "var":
            raise TranslateError("NewtonSolve: statement outside the grammar")
        env[st[1][0][1]] = pr(st[3])
    return ("Module Newton.\nLocal Open Scope R_scope.\n"
            "(* NewtonSolve: the value of `lambda` after one pass through the loop body *)\n"
            "Definition step (lambda C_0 C_1 C_2 : R) : R := %s.\nEnd Newton.\n" % env["lambda"])


# -------------------------------------------------------------------------------------
#  Part 1b: loop structure / memory layout of the SIMD kernels -> coq/Gen/RmsdLayout.v
# -------------------------------------------------------------------------------------
LAY_MSD = "mdtraj/rmsd/src/theobald_rmsd_sse.h"
LAY_ROT = "mdtraj/rmsd/src/rotation_sse.h"
LAY_CEN = "mdtraj/rmsd/src/center_sse.h"


def preprocess_unaligned(text):
    """resolve #ifdef/#ifndef ALIGNED (the build does not define it), drop OpenMP pragmas; any other directive raises"""
    out, stack = [], []
    for line in text.split("\n"):
        st = line.strip()
        if st.startswith("#"):
            d = st[1:].strip()
            if re.fullmatch(r"ifdef\s+ALIGNED", d):
                stack.append(False)
            elif re.fullmatch(r"ifndef\s+ALIGNED", d):
                stack.append(True)
            elif re.fullmatch(r"ifdef\s+_OPENMP", d):
                stack.append(None)              # pragma block: dropped
            elif d.startswith("else"):
                if not stack or stack[-1] is None:
                    raise TranslateError("#else outside an ALIGNED conditional")
                stack[-1] = not stack[-1]
            elif d.startswith("endif"):
                if not stack:
                    raise TranslateError("unbalanced #endif")
                stack.pop()
            elif d.startswith("pragma") or (stack and stack[-1] is None):
                continue
            else:
                raise TranslateError("preprocessor directive outside the grammar: %s" % st)
            continue
        if all(v is True for v in stack):
            out.append(line)
    if stack:
        raise TranslateError("unbalanced conditional")
    return "\n".join(out)


def int_expr(text, names):
    """C integer expression over the given variables (+ - * / % >> parentheses, literals) -> Coq nat expression"""
    toks = re.findall(r"\s*(>>|[A-Za-z_]\w*|\d+|[-+*/%()])", text)
    if "".join(toks) != re.sub(r"\s+", "", text):
        raise TranslateError("integer expression outside the grammar: %s" % text)
    pos = [0]

    def peek():
        return toks[pos[0]] if pos[0] < len(toks) else None

    def eat():
        pos[0] += 1
        return toks[pos[0] - 1]

    def atom():
        t = eat()
        if t == "(":
            e = shift()
            if eat() != ")":
                raise TranslateError("unbalanced parenthesis in %s" % text)
            return "(%s)" % e
        if t.isdigit():
            return t
        if t in names:
            return names[t]
        raise TranslateError("unexpected %r in integer expression %s" % (t, text))

    def mul():
        e = atom()
        while peek() in ("*", "/", "%"):
            op = eat()
            e = "(%s %s %s)" % (e, {"*": "*", "/": "/", "%": "mod"}[op], atom())
        return e

    def add():
        e = mul()
        while peek() in ("+", "-"):
            op = eat()
            e = "(%s %s %s)" % (e, op, mul())
        return e

    def shift():
        e = add()
        while peek() == ">>":
            eat()
            k = add()
            if not k.isdigit():
                raise TranslateError("shift by a non-literal")
            e = "(%s / %d)" % (e, 2 ** int(k))
        return e
    e = shift()
    if pos[0] != len(toks):
        raise TranslateError("trailing tokens in integer expression %s" % text)
    return e


def one(pattern, text, what, count=1):
    ms = re.findall(pattern, text, re.S)
    if len(ms) != count:
        raise TranslateError("%s: expected %d occurrence(s), found %d" % (what, count, len(ms)))
    return ms[0] if count == 1 else ms


def translate_layout(read):
    msd = preprocess_unaligned(function_body(strip_comments(read(LAY_MSD)), "msd_atom_major")[1])
    rot = preprocess_unaligned(function_body(strip_comments(read(LAY_ROT)), "rot_atom_major")[1])
    cen = preprocess_unaligned(function_body(strip_comments(read(LAY_CEN)), "inplace_center_and_trace_atom_major")[1])
    # --- msd_atom_major
    tab = one(r"static\s+const\s+int\s+masks\s*\[4\]\s*\[4\]\s*=\s*\{(.*?)\}\s*;", msd, "masks table")
    rows = re.findall(r"\{([^{}]*)\}", tab)
    masks = [[int(v) for v in re.findall(r"-?\d+", r_)] for r_ in rows]
    if len(masks) != 4 or any(len(r_) != 4 or any(v not in (0, 1) for v in r_) for r_ in masks):
        raise TranslateError("masks table is not 4 x 4 of 0/1")
    niters = int_expr(one(r"\bniters\s*=\s*([^;]+);", msd, "niters"), {"nrealatoms": "n"})
    mrow = int_expr(one(r"\bmask\s*=\s*masks\s*\[([^\]]+)\]\s*;", msd, "mask row"), {"nrealatoms": "n"})
    one(r"for\s*\(\s*k\s*=\s*0\s*;\s*k\s*<\s*niters\s*;\s*k\+\+\s*\)", msd, "block loop")
    last = int_expr(one(r"if\s*\(\s*k\s*==\s*([^)]+)\)", msd, "last-block test"), {"niters": "it"})
    sets = re.findall(r"\b([ab])([xyz])\s*=\s*_mm_set_ps\s*\(([^;]*)\)\s*;", msd)
    if [r_[0] + r_[1] for r_ in sets] != ["ax", "ay", "az", "bx", "by", "bz"]:
        raise TranslateError("_mm_set_ps loads: %s" % [r_[0] + r_[1] for r_ in sets])
    set_rows = []
    for buf, comp, args in sets:
        lanes = re.findall(r"mask\s*\[\s*(\d+)\s*\]\s*\?\s*([ab])\s*\[\s*(\d+)\s*\]\s*:\s*0", args)
        if len(lanes) != 4 or re.sub(r"\s+", "", args) != ",".join("mask[%s]?%s[%s]:0" % l_ for l_ in lanes) or any(l_[1] != buf for l_ in lanes):
            raise TranslateError("_mm_set_ps arguments outside the grammar: %s" % args)
        set_rows.append([(int(l_[0]), int(l_[2])) for l_ in lanes])
    sa, sb = one(r"\ba\s*\+=\s*(\d+)\s*;", msd, "a += stride"), one(r"\bb\s*\+=\s*(\d+)\s*;", msd, "b += stride")
    if sa != sb:
        raise TranslateError("different strides for a and b")
    # --- rot_atom_major
    rblocks = int_expr(one(r"\bn_iters\s*=\s*([^;]+);", rot.split("for")[0].split("unsigned int n_iters = 0;")[-1], "n_iters"), {"n_atoms": "n"})
    loops = re.findall(r"for\s*\(\s*k\s*=\s*0\s*;\s*k\s*<\s*([^;]+);\s*k\+\+\s*\)", rot)
    if len(loops) != 2 or loops[0].strip() != "n_iters":
        raise TranslateError("rot_atom_major loops: %s" % loops)
    rtail = int_expr(loops[1], {"n_atoms": "n"})
    rstride = one(r"\ba\s*\+=\s*(\d+)\s*;", rot, "rot stride")
    for c in range(3):
        if len(re.findall(r"a\s*\[\s*3\s*\*\s*k\s*\+\s*%d\s*\]" % c, rot)) != 2:
            raise TranslateError("rot_atom_major epilogue does not read and write a[3*k + %d]" % c)
    # --- inplace_center_and_trace_atom_major
    cl = re.findall(r"for\s*\(\s*i\s*=\s*0\s*;\s*i\s*<\s*([^;]+);\s*i\+\+\s*\)", cen)
    if len(cl) != 4:
        raise TranslateError("centring kernel: %d atom loops instead of 4" % len(cl))
    cexp = [int_expr(e, {"n_atoms": "n"}) for e in cl]
    offs = re.findall(r"confp\s*=\s*&\s*coords\s*\[([^\]]+)\]\s*;", cen)
    if len(offs) != 2 or re.sub(r"\s+", "", offs[0]) != re.sub(r"\s+", "", offs[1]):
        raise TranslateError("centring kernel: frame pointer")
    coff = int_expr(offs[0], {"n_atoms": "n", "k": "k"})
    one(r"for\s*\(\s*k\s*=\s*0\s*;\s*k\s*<\s*n_frames\s*;\s*k\+\+\s*\)", cen, "frame loop")
    b = lambda v: "true" if v else "false"
    L = ["(* GENERATED by harness/props/C06.py:translate from %s, %s, %s." % (LAY_MSD, LAY_ROT, LAY_CEN),
         "   Do not edit: rewritten on every run when the source text changes. *)",
         "From Coq Require Import List Arith Bool.", "Import ListNotations.", "Module Lay.",
         "(* msd_atom_major (ALIGNED not defined) *)",
         "Definition masks : list (list bool) := %s." % clist([clist([b(v) for v in r_]) for r_ in masks]),
         "Definition msd_niters (n : nat) : nat := %s." % niters,
         "Definition msd_mask_row (n : nat) : nat := %s." % mrow,
         "Definition msd_last (k it : nat) : bool := k =? %s." % last,
         "Definition msd_stride : nat := %s." % sa,
         "(* last block: lanes of ax ay az bx by bz as (mask index, offset into the block) *)",
         "Definition set_ps : list (list (nat * nat)) := %s." % clist([clist(["(%d, %d)" % l_ for l_ in r_]) for r_ in set_rows]),
         "(* rot_atom_major *)",
         "Definition rot_blocks (n : nat) : nat := %s." % rblocks,
         "Definition rot_tail (n : nat) : nat := %s." % rtail,
         "Definition rot_stride : nat := %s." % rstride,
         "(* inplace_center_and_trace_atom_major: both passes *)",
         "Definition center_blocks1 (n : nat) : nat := %s." % cexp[0],
         "Definition center_tail1 (n : nat) : nat := %s." % cexp[1],
         "Definition center_blocks2 (n : nat) : nat := %s." % cexp[2],
         "Definition center_tail2 (n : nat) : nat := %s." % cexp[3],
         "Definition center_frame_offset (k n : nat) : nat := %s." % coff,
         "End Lay."]
    return "\n".join(L) + "\n"


def translate(ctx):
    def read(rel):
        with open(os.path.join(REPO, rel)) as fh:
            return fh.read()
    lay_error = None
    try:
        changed_l = ctx.write_gen("Gen/RmsdLayout.v", translate_layout(read))
        ctx.notes.setdefault("coverage_extra", {})["layout_translator"] = "ok (%s)" % ("regenerated" if changed_l else "unchanged")
    except TranslateError as e:
        lay_error = e
        ctx.notes.setdefault("coverage_extra", {})["layout_translator"] = "degraded: %s" % e
    translate_formulas(ctx)
    if lay_error is not None:
        raise lay_error


def translate_formulas(ctx):
    with open(os.path.join(REPO, SRC)) as fh:
        text = fh.read()
    out, _info = translate_source(text)
    try:
        out += "\n" + translate_newton(text)      # dead code in the library: never fatal
    except TranslateError as e:
        out += "\n(* NewtonSolve not translated: %s *)\n" % str(e).replace("*", "x")
        ctx.notes.setdefault("coverage_extra", {})["newton_solve_translation"] = "failed: %s" % e
    changed = ctx.write_gen("Gen/RmsdFormulas.v", out)
    ctx.notes.setdefault("coverage_extra", {})["translator"] = "ok (%s)" % ("regenerated" if changed else "unchanged")


# =====================================================================================
#  Part 2: correspondence / oracle
# =====================================================================================
RULE = ("conformations are generated from seeded recipes (kinds: random, near_identical, near_planar, mirror, offset "
        "(up to 500 nm), grid (integer coordinates, exact tie), tiny (water-sized), half_turn_axis/generic, "
        "near_half_turn, swapped_halves) with atom counts covering all residues mod 4 up to 4099; ops = md.rmsd (parallel x "
        "precentered x atom_indices none/equal/different, any order, any reference frame), Trajectory.superpose, "
        "md.rmsf, md.lprmsd, and md.rmsd(precentered=True) after short histories (center_coordinates, superpose onto "
        "centred/off-origin references, mass-weighted centring with unequal masses, join of centred/uncentred pieces with and without a repeated "
        "boundary frame and discard_overlapping_frames, slicing, atom_slice, xyz assignment); argument handling (excluded arguments must raise, "
        "unusual legal ones must work); integer-grid cases also go through the kernels' loop-structure model (flat buffers); a case-op-frame is non-trivial when the two conformations differ; distinct by hash of "
        "(generator recipe, op)")
TRUSTED = ["harness/impl/rmsd_impl.py (builds Trajectory objects, calls the public API, returns raw arrays)",
           "harness/props/C06.py: C-subset translator (decides which source text becomes which Gallina term), case "
           "generators, float64 Kabsch oracle (numpy.linalg.svd), exact rational characteristic polynomial "
           "(fractions, Faddeev-LeVerrier), numpy.linalg.eigvalsh to locate the largest root",
           "hand model of what surrounds msdFromMandG (accumulation of M and G in theobald_rmsd_sse.h, center.cpp, "
           "rotation.cpp, Trajectory.superpose): coq/Rmsd/Model.v, tied by the correspondence only"]
ASSUMPTIONS = ["exact arithmetic in all theorems; float32/float64 rounding of the kernels and of DirectSolve is bounded "
               "empirically: |rmsd^2 - exact| <= C_MSD(n)*2^-23*(Ga+Gb)/n, superposed deviation and distances within "
               "C*2^-23*(radius+offset) (constants in the evidence)",
               "the root solver is not modelled: theorems take 'lam is a root of the code's polynomial and dominates "
               "the Rayleigh quotient of K' as hypotheses; the run checks on integer inputs that the implementation's "
               "value is the largest root of the model's polynomial",
               "relative rotations of the generic buckets are limited to 2.6 rad; rotations near a half turn are "
               "exercised in their own buckets (first adjugate column ill-conditioned in the as-found code)"]

EPS = 2.0 ** -23
MAX_GENERIC_ANGLE = 2.6


# Stated float32 bounds (measured on 10^4 cases: the largest observed error is below 1/5 of each bound).
# The root lam of a quartic whose coefficients carry float32 rounding moves by  delta P / P'(lam), and
# P'(lam) = prod_j (lam - lam_j): every bound therefore carries the conditioning factor (1 + 1/kappa),
# kappa = prod_{j>=2} (lam_1 - lam_j) / S^3,  S = (Ga+Gb)/2  (float64 eigenvalues of K; 1 for well separated roots).
C_MSD = 16.0      # |rmsd^2 - exact|          <= C_MSD * 2^-23 * (Ga+Gb)/n * (1 + 1/kappa)
C_SUP = 24.0      # |deviation - minimal rmsd| <= C_SUP * 2^-23 * (radius + offset) * (1 + 1/kappa)
C_RIG = 24.0      # interatomic distances      <= C_RIG * 2^-23 * (radius + offset)
C_RMSF = 48.0     # rmsf                       <= C_RMSF * 2^-23 * (radius + offset) * (1 + 1/kappa)
KAPPA_MIN = 1e-6  # below: top eigenvalue numerically degenerate (several optimal rotations): value checks excluded
ROTCOND_MIN = 1e-3  # rotation-dependent values (superposed deviation, rmsf) carry (1 + 1/rotation_conditioning); below: excluded


def rotmat(axis, ang):
    axis = np.asarray(axis, dtype=np.float64)
    axis = axis / np.linalg.norm(axis)
    K = np.array([[0, -axis[2], axis[1]], [axis[2], 0, -axis[0]], [-axis[1], axis[0], 0]])
    return np.eye(3) + math.sin(ang) * K + (1 - math.cos(ang)) * (K @ K)


WATER = np.array([[0.0, 0.0, 0.0], [0.0957, 0.0, 0.0], [-0.024, 0.0927, 0.0]])
METHANE = np.array([[0, 0, 0], [0.063, 0.063, 0.063], [-0.063, -0.063, 0.063], [-0.063, 0.063, -0.063],
                    [0.063, -0.063, -0.063]], dtype=float)


def grid_structure(rs, n, lim):
    """integer coordinates with zero sum per axis (centring is then exact and a no-op)."""
    while True:
        c = rs.randint(-lim, lim + 1, size=(n, 3))
        c[-1] = -c[:-1].sum(0)
        if np.abs(c[-1]).max() <= 4 * lim and np.linalg.matrix_rank(c - c.mean(0)) >= 2:
            return c


def gen_arrays(gen):
    """Deterministic (target, ref) float32 arrays from a recipe; also returns integer data for grid kinds."""
    rs = np.random.RandomState(gen["seed"])
    kind, n, F, G = gen["kind"], gen["n"], gen["F"], gen["G"]
    m = gen.get("m", n)
    scale = gen.get("scale", 1.0)
    unit = gen.get("unit", 8)
    if kind in ("grid", "half_turn_axis", "swapped_halves"):
        refs_i = [grid_structure(rs, m, gen.get("lim", 6)) for _ in range(G)]
        tg_i = []
        for f in range(F):
            if kind == "grid":
                tg_i.append(grid_structure(rs, n, gen.get("lim", 6)))
            elif kind == "swapped_halves":
                # same points, first and second half exchanged: M = B^T A + A^T B is symmetric, so the optimal
                # rotation is the identity or a half turn (witness reported by the C03 correspondence)
                h = n // 2
                tg_i.append(np.vstack([refs_i[f % G][h:2 * h], refs_i[f % G][:h], refs_i[f % G][2 * h:n]]))
            else:
                D = [np.diag([1, -1, -1]), np.diag([-1, 1, -1]), np.diag([-1, -1, 1])][rs.randint(3)]
                tg_i.append(refs_i[f % G][:n] @ D)
        ref = np.array(refs_i, dtype=np.float64) / unit
        target = np.array(tg_i, dtype=np.float64) / unit
        return target.astype(np.float32), ref.astype(np.float32)
    refs = []
    for g in range(G):
        if kind == "tiny":
            base = (WATER if n == 3 else METHANE[:n]) * scale
            if m > n:
                base = np.vstack([base, rs.randn(m - n, 3) * 0.05 * scale])
        else:
            base = rs.randn(m, 3) * scale
            if kind == "near_planar":
                base[:, 2] *= 10.0 ** -rs.uniform(3, 6)
        refs.append(base)
    off_t = np.zeros(3)
    off_r = np.zeros(3)
    if kind == "offset":
        off_t = rs.uniform(-1, 1, 3) * gen["offset"]
        off_r = rs.uniform(-1, 1, 3) * gen["offset"]
    elif kind != "grid":
        off_t = rs.uniform(-1, 1, 3) * gen.get("offset", 2.0)
        off_r = rs.uniform(-1, 1, 3) * gen.get("offset", 2.0)
    tg = []
    for f in range(F):
        B = refs[f % G][:n]
        if kind == "random":
            X = rs.randn(n, 3) * scale
        else:
            noise = {"near_identical": 10.0 ** -rs.uniform(2, 5), "near_planar": 0.02, "mirror": rs.choice([0.0, 0.01]),
                     "offset": 0.05, "tiny": 0.0, "half_turn_generic": 0.0, "near_half_turn": 0.0}[kind] * scale
            X = B.copy()
            if kind == "mirror":
                X[:, 0] = -X[:, 0]
            X = X + noise * rs.randn(n, 3)
            if kind == "near_planar":
                X[:, 2] = B[:, 2] + 1e-5 * rs.randn(n)
            if kind == "half_turn_generic":
                ang = math.pi
            elif kind == "near_half_turn":
                ang = math.pi - 10.0 ** -rs.uniform(1, 3)
            elif kind == "tiny":
                ang = rs.uniform(0.8, 2.5)
            else:
                ang = rs.uniform(0, MAX_GENERIC_ANGLE)
            c = X.mean(0)
            X = (X - c) @ rotmat(rs.randn(3), ang) + c
        tg.append(X + off_t)
    ref = np.array(refs) + off_r
    tg = np.array(tg)
    if gen.get("swap"):          # exchange the labels of two atoms in the target (for md.lprmsd with a permutation group)
        i, j = gen["swap"]
        tg[:, [i, j]] = tg[:, [j, i]]
    return tg.astype(np.float32), ref.astype(np.float32)


def kabsch(a, b):
    """Independent float64 oracle: minimal mean square deviation over proper rotations and translations.
    Returns (msd, R, ca, cb) with the optimal map  x -> (x - ca) @ R + cb."""
    a = np.asarray(a, dtype=np.float64)
    b = np.asarray(b, dtype=np.float64)
    ca, cb = a.mean(0), b.mean(0)
    A, B = a - ca, b - cb
    U, S, Vt = np.linalg.svd(A.T @ B)
    d = np.sign(np.linalg.det(U @ Vt))
    if d == 0:
        d = 1.0
    R = U @ np.diag([1.0, 1.0, d]) @ Vt
    msd = max(0.0, float(((A @ R - B) ** 2).sum()) / len(a))
    return msd, R, ca, cb


def size_terms(a, b):
    """((Ga+Gb)/n, largest radius, kappa) of a pair of conformations (float64)."""
    a = np.asarray(a, dtype=np.float64)
    b = np.asarray(b, dtype=np.float64)
    A, B = a - a.mean(0), b - b.mean(0)
    g = float((A * A).sum() + (B * B).sum())
    S = A.T @ B
    (Sxx, Sxy, Sxz), (Syx, Syy, Syz), (Szx, Szy, Szz) = S
    K = np.array([[Sxx + Syy + Szz, Syz - Szy, Szx - Sxz, Sxy - Syx], [Syz - Szy, Sxx - Syy - Szz, Sxy + Syx, Szx + Sxz],
                  [Szx - Sxz, Sxy + Syx, -Sxx + Syy - Szz, Syz + Szy], [Sxy - Syx, Szx + Sxz, Syz + Szy, -Sxx - Syy + Szz]])
    w = np.linalg.eigvalsh(K)
    kappa = float(np.prod((w[-1] - w[:-1]) / (g / 2))) if g > 0 else 0.0
    return g / len(a), float(max(np.sqrt((A * A).sum(1)).max(), np.sqrt((B * B).sum(1)).max())), kappa


def rotation_conditioning(a, b):
    """kappa * min(1, gamma2), gamma2 = (lam_1 - lam_2)/S: the eigenvector (hence the rotation) computed from a root
    with error delta_lam ~ 2^-23 S / kappa is off by delta_lam / (lam_1 - lam_2)."""
    a = np.asarray(a, dtype=np.float64)
    b = np.asarray(b, dtype=np.float64)
    A, B = a - a.mean(0), b - b.mean(0)
    g = float((A * A).sum() + (B * B).sum())
    if g <= 0:
        return 0.0
    S = A.T @ B
    (Sxx, Sxy, Sxz), (Syx, Syy, Syz), (Szx, Szy, Szz) = S
    K = np.array([[Sxx + Syy + Szz, Syz - Szy, Szx - Sxz, Sxy - Syx], [Syz - Szy, Sxx - Syy - Szz, Sxy + Syx, Szx + Sxz],
                  [Szx - Sxz, Sxy + Syx, -Sxx + Syy - Szz, Syz + Szy], [Sxy - Syx, Szx + Sxz, Syz + Szy, -Sxx - Syy + Szz]])
    w = np.linalg.eigvalsh(K)
    kappa = float(np.prod((w[-1] - w[:-1]) / (g / 2)))
    return kappa * min(1.0, float((w[-1] - w[-2]) / (g / 2)))


def op_indices(op, n, m):
    ai = op.get("atom_indices")
    ri = op.get("ref_atom_indices")
    A = list(range(n)) if ai is None else list(ai)
    if ri is None:
        Bi = list(A)
    else:
        Bi = list(ri)
    return A, Bi


# ------------------------------------------------------------------------------------------------
#  case construction
SMALL_SIZES = [3, 4, 5, 6, 7, 8, 9, 10, 11, 13, 22, 37]
BIG_SIZES = [100, 101, 102, 103, 510, 1023, 2049, 4096, 4097, 4098, 4099]
GENERIC_KINDS = ["random", "near_identical", "near_planar", "mirror", "offset"]


def sub_indices(rng, total, k):
    idx = rng.sample(range(total), k)
    return idx


def gen_ops(rng, gen, quick, full=True):
    n, m, F, G = gen["n"], gen.get("m", gen["n"]), gen["F"], gen["G"]
    ops = []
    fr = lambda: rng.randrange(G)
    if n == m:
        f0 = fr()
        ops.append({"op": "rmsd", "frame": f0, "parallel": True})
        ops.append({"op": "rmsd", "frame": f0, "parallel": False, "same_as": 0})   # identical call but for the parallel flag
        ops.append({"op": "rmsd", "frame": fr(), "parallel": rng.random() < 0.5, "precentered": True})
    k = rng.randint(3, min(n, m))
    A = sub_indices(rng, n, k)
    ops.append({"op": "rmsd", "frame": fr(), "parallel": rng.random() < 0.5, "atom_indices": A})
    B = sub_indices(rng, m, k)
    ops.append({"op": "rmsd", "frame": fr(), "parallel": rng.random() < 0.5, "atom_indices": A, "ref_atom_indices": B})
    if not full:
        ops.append({"op": "superpose", "frame": fr(), "parallel": True})
        return ops
    if n == m:
        ops.append({"op": "superpose", "frame": fr(), "parallel": rng.random() < 0.5})
    A2 = sub_indices(rng, n, k)
    ops.append({"op": "superpose", "frame": fr(), "parallel": rng.random() < 0.5, "atom_indices": A2})
    ops.append({"op": "superpose", "frame": fr(), "parallel": rng.random() < 0.5, "atom_indices": A2,
                "ref_atom_indices": sub_indices(rng, m, k)})
    if n == m:
        f1 = fr()
        j0 = len(ops)
        ops.append({"op": "rmsf", "frame": f1, "parallel": True, "ref": "other"})
        ops.append({"op": "rmsf", "frame": f1, "parallel": False, "ref": "other", "same_as": j0})   # parallel flag only
        ops.append({"op": "rmsf", "frame": rng.randrange(F), "parallel": rng.random() < 0.5, "ref": "self"})
        ops.append({"op": "rmsf", "frame": 0, "parallel": rng.random() < 0.5, "ref": "none"})   # pre-aligned: no rotation
        if n >= 5:
            # lprmsd with permutation groups that cannot permute anything (singletons) is the plain RMSD of the selection
            ng = rng.randint(1, min(3, n - 3))
            singles = [[a] for a in sorted(rng.sample(range(n), ng))]
            f2 = fr()
            j1 = len(ops)
            ops.append({"op": "lprmsd", "frame": f2, "parallel": True, "permute_groups": singles})
            ops.append({"op": "lprmsd", "frame": f2, "parallel": False, "permute_groups": singles, "same_as": j1})
            sel = rng.sample(range(n), rng.randint(4, n))          # any order, the call sorts and deduplicates
            inside = [[a] for a in sorted(rng.sample(sel, rng.randint(1, min(2, len(sel) - 3))))]
            ops.append({"op": "lprmsd", "frame": fr(), "parallel": rng.random() < 0.5, "atom_indices": sel + sel[:1],
                        "permute_groups": inside})
    return ops


def gen_history_op(rng, n, m, F, G, offset):
    """md.rmsd(precentered=True) after a short history of public-API operations (C06 quantifier: precentered in
    {True, False}); the reference is the trajectory itself or a second, centred or uncentred, trajectory."""
    steps = []
    cur_n, cur_F = n, F
    other = rng.random() < 0.4
    user_edit = rng.random() < 0.15
    choices = ["center", "center", "center_mass", "join", "join", "superpose", "superpose", "slice", "xyz_assign", "edit_recenter", "edit_recenter"] + ([] if other else ["atom_slice"])
    for _ in range(rng.randint(1, 4)):
        k = rng.choice(choices)
        if k == "center":
            steps.append(["center"])
        elif k == "center_mass":
            steps.append(["center_mass"])
        elif k == "edit_recenter":
            # centre (cache filled) -> coordinates changed behind the setter -> centre again: the second call must really
            # centre and refresh the cache
            if not steps or steps[-1][0] != "center":
                steps.append(["center"])
            if rng.random() < 0.6 or cur_F < 2:
                steps.append(["inplace_partial", rng.randint(1, max(1, cur_n - 1)), [round(rng.uniform(-1, 1), 3) for _ in range(3)]])
            else:
                a_ = rng.randrange(cur_F - 1)
                steps.append(["view_superpose", a_, rng.randint(a_ + 1, cur_F), rng.randrange(G)] if cur_n == m else
                             ["inplace_partial", rng.randint(1, max(1, cur_n - 1)), [round(rng.uniform(-1, 1), 3) for _ in range(3)]])
            steps.append(["center"])
        elif k == "join":
            # usually on a centred trajectory with a centred second piece (all traces present), with and without a
            # repeated boundary frame, with and without discarding it
            if rng.random() < 0.7 and (not steps or steps[-1][0] != "center"):
                steps.append(["center"])
            nextra = rng.randint(1, 3)
            steps.append(["join", rng.random() < 0.6, rng.random() < 0.6, rng.random() < 0.8, nextra, rng.randrange(1, 2 ** 31 - 1)])
            cur_F += nextra              # a lower bound (one frame may be discarded); the runner reduces the frame index modulo the real count
        elif k == "superpose":
            ai = ri = None
            if cur_n != m or rng.random() < 0.5:
                kk = rng.randint(3, cur_n)
                ai = rng.sample(range(cur_n), kk)
                ri = rng.sample(range(m), kk) if (rng.random() < 0.5 or cur_n != m) else None
            steps.append(["superpose", rng.random() < 0.4, rng.randrange(G), ai, ri, rng.random() < 0.5])
        elif k == "slice":
            start = rng.randrange(cur_F)
            step = rng.choice([1, 1, 2])
            stop = rng.choice([None, rng.randint(start + 1, cur_F)])
            steps.append(["slice", start, stop, step])
            cur_F = len(range(cur_F)[start:stop:step])
        elif k == "atom_slice":
            if cur_n <= 3:
                continue
            idx = sorted(rng.sample(range(cur_n), rng.randint(3, cur_n)))
            steps.append(["atom_slice", idx, rng.random() < 0.5])
            cur_n = len(idx)
        else:
            sh = [0.0, 0.0, 0.0] if rng.random() < 0.3 else [round(rng.uniform(-offset, offset), 3) for _ in range(3)]
            steps.append(["xyz_assign", sh])
    if rng.random() < 0.5:
        steps.append(["center"])
    if user_edit:
        steps.append(["inplace_shift", [round(rng.uniform(-1, 1), 3) for _ in range(3)]])
    op = {"op": "history", "steps": steps, "parallel": rng.random() < 0.5}
    if other:
        op.update(ref="other", ref_steps=[["center"]] if rng.random() < 0.7 else [], frame=rng.randrange(G))
    else:
        op.update(ref="self", frame=rng.randrange(cur_F))
    return op


def build_cases(ctx):
    rng = ctx.rng
    quick = ctx.tier == "quick"
    cases = []

    def add(gen, ops=None, full=True):
        gen = dict(gen)
        gen["seed"] = rng.randrange(1, 2 ** 31 - 1)
        cases.append({"gen": gen, "ops": ops if ops is not None else gen_ops(rng, gen, quick, full)})

    reps = 1 if quick else 60
    for _ in range(reps):
        for kind in GENERIC_KINDS:
            for n in SMALL_SIZES:
                gen = {"kind": kind, "n": n, "m": n + rng.choice([0, 0, 2]), "F": rng.randint(1, 4), "G": rng.randint(1, 3),
                       "scale": rng.choice([0.3, 1.0, 3.0])}
                if kind == "offset":
                    gen["offset"] = rng.choice([5.0, 50.0, 500.0])
                add(gen)
    for _ in range(reps):
        for n in BIG_SIZES:
            kind = rng.choice(GENERIC_KINDS)
            gen = {"kind": kind, "n": n, "m": n, "F": 2, "G": 1, "scale": rng.choice([1.0, 2.0])}
            if kind == "offset":
                gen["offset"] = rng.choice([50.0, 500.0])
            add(gen, full=(n <= 1100))
    # exact tie: integer coordinates
    for _ in range(16 if quick else 160):
        n = rng.randint(3, 12)
        add({"kind": "grid", "n": n, "m": n, "F": rng.randint(1, 3), "G": 1, "lim": rng.choice([3, 6, 12]), "unit": 8},
            ops=[{"op": "rmsd", "frame": 0, "parallel": True}, {"op": "rmsd", "frame": 0, "parallel": False},
                 {"op": "superpose", "frame": 0, "parallel": True}])
    # md.lprmsd must undo an exchange of two atoms that are declared permutable
    for _ in range(6 if quick else 80):
        n = rng.randint(7, 20)
        i, j = sorted(rng.sample(range(n), 2))
        gen = {"kind": "near_identical", "n": n, "m": n, "F": rng.randint(1, 3), "G": 1, "scale": 1.0, "offset": 2.0, "swap": [i, j]}
        add(gen, ops=[{"op": "lprmsd", "frame": 0, "parallel": rng.random() < 0.5, "permute_groups": [[i, j]], "swap": [i, j]}])
    # precentered=True after short histories (cached traces must be dropped or stay valid)
    for _ in range(30 if quick else 600):
        n = rng.randint(4, 24)
        gen = {"kind": rng.choice(["random", "near_identical", "offset"]), "n": n, "m": n, "F": rng.randint(2, 6), "G": rng.randint(1, 3),
               "scale": 1.0, "offset": rng.choice([0.0, 2.0, 20.0])}
        add(gen, ops=[gen_history_op(rng, n, n, gen["F"], gen["G"], max(gen["offset"], 1.0)) for _ in range(3)])
    # fixed probes: centre, superpose onto an off-origin / centred reference (all atoms, a selection), then ask for precentered
    for off in (20.0, 0.0):
        gen = {"kind": "random", "n": 9, "m": 9, "F": 3, "G": 2, "scale": 1.0, "offset": off}
        sel = [0, 2, 3, 5, 8]
        add(gen, ops=[{"op": "history", "steps": [["center"], ["superpose", cen, 1, ai, ri, True]] + tail, "parallel": True, "ref": "self", "frame": 1}
                      for cen in (False, True) for ai, ri in ((None, None), (sel, None), (sel, [1, 4, 6, 7, 2]))
                      for tail in ([], [["slice", 0, None, 2]])])
    # fixed probes: mass-weighted centring (centre of mass != centroid), joins of centred pieces with a repeated boundary frame
    gen = {"kind": "random", "n": 7, "m": 7, "F": 4, "G": 2, "scale": 1.0, "offset": 5.0}
    add(gen, ops=[{"op": "history", "steps": [["center_mass"]] + tail, "parallel": par, "ref": "self", "frame": 1}
                  for tail in ([], [["slice", 1, None, 1]]) for par in (True, False)]
        + [{"op": "history", "steps": [["center"], ["join", disc, ov, True, 2, 77 + 13 * int(disc) + int(ov)]] + tail, "parallel": True, "ref": "self", "frame": fr_}
           for disc in (True, False) for ov in (True, False) for tail in ([], [["slice", 2, None, 1]]) for fr_ in (0, 5)])
    # argument handling: what the documentation excludes must raise, unusual but legal arguments must work
    for _ in range(3 if quick else 40):
        n = rng.randint(5, 12)
        m = n + rng.choice([0, 0, 2])
        G = rng.randint(1, 3)
        gen = {"kind": "random", "n": n, "m": m, "F": rng.randint(1, 3), "G": G, "scale": 1.0, "offset": 1.0}
        k = rng.randint(3, n)
        A, B = sub_indices(rng, n, k), sub_indices(rng, m, k)
        bad = lambda idx, v: idx[:-1] + [v]
        ops = []
        for call in ("rmsd", "superpose", "rmsf"):
            ops.append({"op": "invalid", "call": call, "frame": 0, "atom_indices": bad(A, n), "why": "atom index = n_atoms"})
            ops.append({"op": "invalid", "call": call, "frame": 0, "atom_indices": A, "ref_atom_indices": bad(B, m + rng.randint(0, 3)), "why": "reference index out of range"})
            ops.append({"op": "invalid", "call": call, "frame": 0, "atom_indices": A, "ref_atom_indices": B + [0], "why": "selections of different length"})
            ops.append({"op": "invalid", "call": call, "frame": G + rng.randint(0, 2), "why": "frame beyond the reference"} if n == m else
                       {"op": "invalid", "call": call, "frame": 0, "why": "different atom counts, no selections"})
        ops.append({"op": "invalid", "call": "rmsd", "frame": 0, "atom_indices": bad(A, -1), "why": "negative atom index (documented: valid positive indices)"})
        ops.append({"op": "invalid", "call": "rmsd", "frame": -G - 1, "why": "frame below -n_frames"} if n == m else
                   {"op": "invalid", "call": "rmsd", "frame": 0, "atom_indices": A, "ref_atom_indices": bad(B, -1), "why": "negative reference index"})
        # legal: negative frame (Python indexing), repeated indices, a selection for the reference only
        dup = A + [A[0]]
        ops.append({"op": "rmsd", "frame": -1, "parallel": True, "atom_indices": dup, "ref_atom_indices": B + [B[0]]})
        if n == m:
            perm = sub_indices(rng, n, n)
            ops.append({"op": "rmsd", "frame": 0, "parallel": False, "ref_atom_indices": perm, "atom_indices": None})
            ops.append({"op": "superpose", "frame": 0, "parallel": True, "ref_atom_indices": perm, "atom_indices": None})
        add(gen, ops=ops)
    # fixed probes: repeated centring with coordinates written behind the setter in between
    gen = {"kind": "random", "n": 8, "m": 8, "F": 4, "G": 2, "scale": 1.0, "offset": 3.0}
    add(gen, ops=[{"op": "history", "steps": [["center"], ed, ["center"]], "parallel": par, "ref": "self", "frame": 2}
                  for ed in (["inplace_partial", 3, [0.4, -0.3, 0.2]], ["view_superpose", 1, 3, 0]) for par in (True, False)])
    # the rmsf-with-atom-indices path
    for _ in range(4 if quick else 30):
        n = rng.randint(6, 30)
        gen = {"kind": "near_identical", "n": n, "m": n, "F": rng.randint(3, 6), "G": 1, "scale": 1.0, "offset": 3.0}
        k = rng.randint(3, n)
        add(gen, ops=[{"op": "rmsf", "frame": 0, "parallel": rng.random() < 0.5, "ref": "other", "atom_indices": sorted(sub_indices(rng, n, k))},
                      {"op": "rmsf", "frame": 0, "parallel": True, "ref": "other", "atom_indices": list(range(n))}])
    # buckets where the as-found choice of the adjugate column matters
    for _ in range(6 if quick else 40):
        n = rng.randint(4, 12)
        add({"kind": "half_turn_axis", "n": n, "m": n, "F": 2, "G": 1, "lim": 6, "unit": 8},
            ops=[{"op": "rmsd", "frame": 0, "parallel": True}, {"op": "superpose", "frame": 0, "parallel": True}])
    for _ in range(4 if quick else 30):
        n = rng.choice([6, 10, 11, 16])
        add({"kind": "swapped_halves", "n": n, "m": n, "F": 2, "G": 1, "lim": 12, "unit": 4},
            ops=[{"op": "rmsd", "frame": 0, "parallel": True}, {"op": "superpose", "frame": 0, "parallel": True}])
    for _ in range(6 if quick else 40):
        n = rng.choice([5, 30, 200])
        add({"kind": rng.choice(["half_turn_generic", "near_half_turn"]), "n": n, "m": n, "F": 2, "G": 1, "scale": 1.0},
            ops=[{"op": "rmsd", "frame": 0, "parallel": True}, {"op": "superpose", "frame": 0, "parallel": True}])
    for _ in range(8 if quick else 50):
        n = rng.choice([3, 3, 3, 4, 5])
        add({"kind": "tiny", "n": n, "m": n, "F": 2, "G": 1, "scale": rng.choice([0.4, 0.6, 1.0]), "offset": 1.0},
            ops=[{"op": "rmsd", "frame": 0, "parallel": True}, {"op": "superpose", "frame": 0, "parallel": True}])
    return cases


# ------------------------------------------------------------------------------------------------
#  exact side: integer coordinates, model evaluation in Coq
def exact_centred_pairs(a32, b32):
    """float32 conformations -> integer centred pairs in a common unit (exact): returns (pairs, unit)."""
    fa = [[Fraction(float(v)) for v in row] for row in a32]
    fb = [[Fraction(float(v)) for v in row] for row in b32]
    k = len(fa)
    den = 1
    for row in fa + fb:
        for v in row:
            den = max(den, v.denominator)
    ia = [[int(v * den) for v in row] for row in fa]
    ib = [[int(v * den) for v in row] for row in fb]
    sa = [sum(r[c] for r in ia) for c in range(3)]
    sb = [sum(r[c] for r in ib) for c in range(3)]
    xa = [[k * r[c] - sa[c] for c in range(3)] for r in ia]
    xb = [[k * r[c] - sb[c] for c in range(3)] for r in ib]
    unit = den * k
    g = 0
    for row in xa + xb:
        for v in row:
            g = math.gcd(g, abs(v))
    g = math.gcd(g, unit) or 1
    xa = [[v // g for v in r] for r in xa]
    xb = [[v // g for v in r] for r in xb]
    return list(zip(xa, xb)), unit // g


def coq_pairs(pairs):
    return clist(["((%s, %s, %s), (%s, %s, %s))" % tuple(cz(v) for v in (x + y)) for x, y in pairs])


def horn_matrix(pairs):
    """K for rotating the first conformation onto the second, textbook (Horn 1987) layout, exact integers."""
    S = [[sum(x[a] * y[b] for x, y in pairs) for b in range(3)] for a in range(3)]
    (Sxx, Sxy, Sxz), (Syx, Syy, Syz), (Szx, Szy, Szz) = S
    return [[Sxx + Syy + Szz, Syz - Szy, Szx - Sxz, Sxy - Syx],
            [Syz - Szy, Sxx - Syy - Szz, Sxy + Syx, Szx + Sxz],
            [Szx - Sxz, Sxy + Syx, -Sxx + Syy - Szz, Syz + Szy],
            [Sxy - Syx, Szx + Sxz, Syz + Szy, -Sxx - Syy + Szz]]


def charpoly_exact(K):
    """Faddeev-LeVerrier over the integers: det(tI - K) = t^4 + c3 t^3 + c2 t^2 + c1 t + c0."""
    n = 4
    I = [[1 if i == j else 0 for j in range(n)] for i in range(n)]
    Mk = [[0] * n for _ in range(n)]
    c = [1]
    for k in range(1, n + 1):
        # M_k = K M_{k-1} + c_{n-k+1} I
        KM = [[sum(K[i][l] * Mk[l][j] for l in range(n)) for j in range(n)] for i in range(n)]
        Mk = [[KM[i][j] + c[-1] * I[i][j] for j in range(n)] for i in range(n)]
        KMk = [[sum(K[i][l] * Mk[l][j] for l in range(n)) for j in range(n)] for i in range(n)]
        tr = sum(KMk[i][i] for i in range(n))
        assert tr % k == 0
        c.append(-tr // k)
    return c  # [1, c3, c2, c1, c0]


def top_root_check(coef, lam64):
    """Is lam64 (float) the largest real root of the monic quartic with integer coefficients `coef`?
    Exact rational evaluation: sign change on [lam-d, lam+d] and Budan-Fourier (all derivatives positive at
    lam+d => no root above).  Returns 'ok' | 'excluded' | 'no'."""
    c4, c3, c2, c1, c0 = [Fraction(v) for v in coef]
    lam = Fraction(lam64)
    scale = max(abs(lam), Fraction(1))
    d = scale / 10 ** 9

    def P(t): return (((c4 * t + c3) * t + c2) * t + c1) * t + c0
    def P1(t): return ((4 * c4 * t + 3 * c3) * t + 2 * c2) * t + c1
    def P2(t): return (12 * c4 * t + 6 * c3) * t + 2 * c2
    def P3(t): return 24 * c4 * t + 6 * c3
    hi, lo = lam + d, lam - d
    above_free = P(hi) > 0 and P1(hi) > 0 and P2(hi) > 0 and P3(hi) > 0
    if not above_free:
        return "no"
    if P(lo) < 0:
        return "ok"
    return "excluded"      # P >= 0 on both sides: (near-)double top root; not decided by this sub-check


# ------------------------------------------------------------------------------------------------
#  running and checking
def run_impl_cases(ctx, cases):
    inp = {}
    arrays = []
    for k, c in enumerate(cases):
        t, r = gen_arrays(c["gen"])
        arrays.append((t, r))
        inp["c%d_target" % k] = t
        inp["c%d_ref" % k] = r
    tag = "%d_%d" % (len(cases), ctx.rng.randrange(10 ** 9))
    ipath = os.path.join(ctx.tmp, "in_%s.npz" % tag)
    opath = os.path.join(ctx.tmp, "out_%s.npz" % tag)
    np.savez(ipath, **inp)
    res = ctx.run_impl("rmsd_impl.py", {"inputs": ipath, "outputs": opath,
                                        "cases": [{"id": k, "ops": c["ops"]} for k, c in enumerate(cases)]})
    out = dict(np.load(opath))
    return arrays, out, res.get("errors", {})


def model_reports(ctx, items):
    """items: list of (pairs, num, den, unit) -> list of ints from ZM.fallback_report (vm_compute in coqc)."""
    if not items:
        return []
    res = []
    for s in range(0, len(items), 40):
        chunk = items[s:s + 40]
        expr = "map ZM.fallback_report " + clist(["(%s, (%s, %s, %s))" % (coq_pairs(p), cz(num), cz(den), cz(unit))
                                                 for p, num, den, unit in chunk])
        rc, out = ctx.coq_eval(["MD.Rmsd.Model"], expr)
        m = re.search(r"=\s*\[(.*?)\]\s*:\s*list Z", out, re.S)
        if rc != 0 or not m:
            raise RuntimeError("model evaluation failed: %s" % out[-1500:])
        vals = [int(x) for x in re.findall(r"-?\d+", m.group(1))]
        if len(vals) != len(chunk):
            raise RuntimeError("model evaluation returned %d values for %d cases" % (len(vals), len(chunk)))
        res += vals
    return res


def lam_fraction(pairs):
    """largest eigenvalue of K (float64, on the exact integer inner products) as an exact fraction num/den."""
    K = np.array(horn_matrix(pairs), dtype=np.float64)
    w = np.linalg.eigvalsh(K)
    f = Fraction(float(w[-1]))
    return f.numerator, f.denominator, float(w[-1])


def check_cases(ctx, cases, arrays, out, errors):
    """All comparisons of one batch.  Returns the list of superposition failures awaiting classification."""
    pending = []          # superpose failures + special buckets: classified with the Gallina model
    notes = ctx.notes.setdefault("coverage_extra", {})
    worst = notes.setdefault("max_error_in_units_of_bound", {})

    excl = notes.setdefault("excluded_by_guard", {})

    def track(name, ratio):
        worst[name] = round(max(worst.get(name, 0.0), float(ratio)), 3)

    for k, c in enumerate(cases):
        target, ref = arrays[k]
        gen = c["gen"]
        F, n = target.shape[0], target.shape[1]
        m = ref.shape[1]
        for j, op in enumerate(c["ops"]):
            key = "c%d_o%d" % (k, j)
            rec = {"gen": gen, "ops": [op]}
            bucket = "%s/%s" % (gen["kind"], op["op"])
            if key in errors:
                ctx.count(rec, bucket=bucket)
                ref_only = (op.get("ref_atom_indices") is not None and op.get("atom_indices") is None and errors[key].startswith("TypeError")
                            and "slice" in errors[key])
                ctx.fail("%s raised on valid input: %s%s" % (op["op"], errors[key].split(":")[0], " (selection given for the reference only)" if ref_only else ""),
                         rec, observed=errors[key], expected="a value",
                         tags={"kind": "raises", "op": op["op"], "explained_by": "ref_selection_alone" if ref_only else None})
                continue
            if op["op"] == "invalid":
                ctx.count(rec, nontrivial=True, bucket="arguments/%s/%s" % (op["call"], op["why"]))
                if float(out[key][0]) != 1.0:
                    ctx.fail("%s accepts arguments its documentation excludes" % op["call"], rec, observed="returned a result",
                             expected="ValueError / IndexError / TypeError (%s)" % op["why"], tags={"kind": "accepts_invalid", "op": op["call"]})
                continue
            val = out[key]
            if "same_as" in op and ("c%d_o%d" % (k, op["same_as"])) in out:
                other = out["c%d_o%d" % (k, op["same_as"])]
                if not np.array_equal(np.asarray(other), np.asarray(val)):
                    ctx.fail("md.%s depends on the parallel flag" % op["op"], {"gen": gen, "ops": [c["ops"][op["same_as"]], op]},
                             observed={"parallel": [float(v) for v in other[:4]], "serial": [float(v) for v in val[:4]]},
                             expected="bitwise identical results", tags={"kind": "parallel_flag", "op": op["op"]})
            if op["op"] == "history":
                check_history(ctx, rec, op, gen, val, out, key, bucket, track, excl)
                continue
            A, B = op_indices(op, n, m)
            fr = op.get("frame", 0)
            if op["op"] in ("rmsd", "lprmsd"):
                if op["op"] == "lprmsd":
                    A = B = sorted(set(A))
                    if op.get("swap"):       # the best labelling exchanges the two permutable atoms back
                        i_, j_ = op["swap"]
                        A = [j_ if x == i_ else i_ if x == j_ else x for x in A]
                for f in range(F):
                    a, b = target[f][A], (target if op.get("ref") == "self" else ref)[fr][B]
                    msd, R, ca, cb = kabsch(a, b)
                    size2, rad, kappa = size_terms(a, b)
                    off = float(max(np.abs(ca).max(), np.abs(cb).max()))
                    if kappa < KAPPA_MIN:
                        excl["degenerate_top_eigenvalue"] = excl.get("degenerate_top_eigenvalue", 0) + 1
                        continue
                    tol = C_MSD * EPS * size2 * (1 + 1 / kappa) + (4 * EPS * off) ** 2 + 8 * EPS * off * math.sqrt(msd)
                    got = float(val[f]) ** 2
                    ctx.count({"gen": gen, "op": op, "f": f}, nontrivial=msd > 0, bucket=bucket)
                    track(op["op"], abs(got - msd) / tol)
                    if not (abs(got - msd) <= tol) or not np.isfinite(got):
                        ctx.fail("md.%s differs from the minimal RMSD over rotations and translations" % op["op"], rec,
                                 observed={"frame": f, "rmsd": float(val[f])}, expected={"rmsd": math.sqrt(msd), "tol_msd": tol},
                                 tags={"kind": "rmsd_value", "op": op["op"], "gen": gen["kind"]})
                        break
            elif op["op"] == "superpose":
                for f in range(F):
                    a, b = target[f][A], ref[fr][B]
                    msd, R, ca, cb = kabsch(a, b)
                    size2, rad, kappa = size_terms(a, b)
                    x = target[f].astype(np.float64)
                    y = val[f].astype(np.float64)
                    radall = float(np.sqrt(((x - ca) ** 2).sum(1)).max())
                    off = float(max(np.abs(ca).max(), np.abs(cb).max()))
                    dev = math.sqrt(float(((y[A] - b.astype(np.float64)) ** 2).sum()) / len(A))
                    rc = rotation_conditioning(a, b)
                    tol = C_SUP * EPS * (radall + off) * (1 + 1 / max(rc, ROTCOND_MIN))
                    if rc < ROTCOND_MIN:
                        excl["superpose_ill_conditioned_rotation"] = excl.get("superpose_ill_conditioned_rotation", 0) + 1
                    ok_opt = abs(dev - math.sqrt(msd)) <= tol or rc < ROTCOND_MIN
                    # rigidity: all distances to a few pivot atoms
                    piv = [0, n // 2, n - 1]
                    d0 = np.sqrt(((x[:, None, :] - x[None, piv, :]) ** 2).sum(-1))
                    d1 = np.sqrt(((y[:, None, :] - y[None, piv, :]) ** 2).sum(-1))
                    tol_r = C_RIG * EPS * (radall + off)
                    ok_rig = float(np.abs(d0 - d1).max()) <= tol_r
                    ident = x - ca + cb
                    is_ident = float(np.abs(y - ident).max()) <= 8 * EPS * (radall + off) and math.sqrt(msd) + tol < dev
                    ctx.count({"gen": gen, "op": op, "f": f}, nontrivial=True, bucket=bucket)
                    if ok_opt and rc >= ROTCOND_MIN:
                        track("superpose_dev", abs(dev - math.sqrt(msd)) / tol)
                    track("superpose_rigid", float(np.abs(d0 - d1).max()) / tol_r)
                    if not ok_rig:
                        ctx.fail("Trajectory.superpose changes interatomic distances", rec,
                                 observed={"frame": f, "max_change": float(np.abs(d0 - d1).max())}, expected={"tol": tol_r},
                                 tags={"kind": "superpose_not_rigid", "gen": gen["kind"]})
                        break
                    special = gen["kind"] in ("half_turn_axis", "half_turn_generic", "near_half_turn", "tiny", "swapped_halves")
                    if (not ok_opt) or special:
                        pending.append({"rec": rec, "f": f, "a": a, "b": b, "ok": ok_opt, "ident": is_ident,
                                        "dev": dev, "opt": math.sqrt(msd), "tol": tol, "gen": gen["kind"]})
                        if not ok_opt:
                            break
            elif op["op"] == "rmsf":
                refarr = target if op.get("ref") == "self" else ref
                X, Rs = [], []
                kmin = 1.0
                for f in range(F):
                    a, b = target[f][A], refarr[fr][B]
                    msd, R, ca, cb = kabsch(a, b)
                    if op.get("ref") == "none":      # documented as "trajectory aligned beforehand": centred, not rotated
                        R = np.eye(3)
                    else:
                        kmin = min(kmin, rotation_conditioning(a, b))
                    X.append((a.astype(np.float64) - ca) @ R)
                    Rs.append(R)
                X = np.array(X)
                true = np.sqrt(((X - X.mean(0)) ** 2).sum(-1).mean(0))
                rad = float(np.sqrt((X ** 2).sum(-1)).max())
                off = float(max(np.abs(target[:, A].astype(np.float64).mean(1)).max(), 0.0))
                if kmin < ROTCOND_MIN:
                    excl["rmsf_ill_conditioned_rotation"] = excl.get("rmsf_ill_conditioned_rotation", 0) + 1
                    continue
                tol = C_RMSF * EPS * (rad + off) * (1 + 1 / kmin)
                err = float(np.abs(val - true).max())
                ctx.count({"gen": gen, "op": op}, nontrivial=True, bucket=bucket + ("[atom_indices]" if op.get("atom_indices") is not None else ""))
                if err <= tol:
                    track("rmsf", err / tol)
                else:
                    explained = None
                    if op.get("atom_indices") is not None and F > 1:
                        cur = rmsf_cur_emulation(target, A, Rs)
                        if not op.get("parallel", True):
                            if cur is not None and float(np.abs(val - cur).max()) <= 1e-4 * (1.0 + float(np.abs(cur).max())):
                                explained = "rmsf_cur_strided"
                        else:
                            explained = "rmsf_cur_strided_parallel"   # same code path under prange: racy, not reproducible
                    ctx.fail("md.rmsf differs from the fluctuation about the mean of the optimally superposed frames"
                             + (" (atom_indices given: rotation applied to a non-contiguous, uncentred copy)" if explained else ""), rec,
                             observed={"max_abs_error": err, "rmsf_head": [float(v) for v in val[:4]]},
                             expected={"rmsf_head": [float(v) for v in true[:4]], "tol": tol},
                             tags={"kind": "rmsf_value", "explained_by": explained})
    return pending


def check_history(ctx, rec, op, gen, pre, out, key, bucket, track, excl):
    nopre, xyz, rxyz, flags = out[key + "_nopre"], out[key + "_xyz"], out[key + "_rxyz"], out[key + "_flags"]
    fr = int(flags[2]) if len(flags) > 2 else op["frame"]
    def edit_left_uncentred(steps):
        last_edit = max([i for i, st in enumerate(steps) if st[0] in ("inplace_shift", "inplace_partial", "view_superpose")] or [-1])
        return last_edit >= 0 and not any(st[0] == "center" for st in steps[last_edit + 1:])
    edited = edit_left_uncentred(op["steps"]) or edit_left_uncentred(op.get("ref_steps", []))
    kinds = "+".join(st[0] for st in op["steps"])
    # every center_coordinates() call must leave the centroid of every frame at the origin and the cache filled
    cen = out.get(key + "_cen")
    if cen is not None:
        for after, before, has in cen:
            ctx.count({"gen": gen, "op": op, "centre_call": True}, nontrivial=True, bucket="history/center_coordinates-call")
            if after > 64 * EPS * (before + 1e-3) or not has:
                ctx.fail("Trajectory.center_coordinates() leaves a frame off the origin or without cached traces", rec,
                         observed={"largest_centroid_component_after": float(after), "largest_coordinate_before": float(before),
                                   "traces_present": bool(has), "history": kinds},
                         expected={"centroid": 0.0, "tol": 64 * EPS * (before + 1e-3)}, tags={"kind": "center_not_centred", "gen": gen["kind"]})
                return
    for f in range(xyz.shape[0]):
        a, b = xyz[f], rxyz[fr]
        msd, R, ca, cb = kabsch(a, b)
        size2, rad, kappa = size_terms(a, b)
        if kappa < KAPPA_MIN:
            excl["degenerate_top_eigenvalue"] = excl.get("degenerate_top_eigenvalue", 0) + 1
            continue
        off = float(max(np.abs(ca).max(), np.abs(cb).max()))
        tol = C_MSD * EPS * size2 * (1 + 1 / kappa) + (4 * EPS * off) ** 2 + 8 * EPS * off * math.sqrt(msd)
        centred = off <= 1e-4 * (rad + 1e-3)
        ctx.count({"gen": gen, "op": op, "f": f}, nontrivial=msd > 0,
                  bucket="history/traces=%d%d/%s" % (int(flags[0]), int(flags[1]), "centred" if centred else "off-origin"))
        got_np = float(nopre[f]) ** 2
        if not abs(got_np - msd) <= tol:
            ctx.fail("md.rmsd differs from the minimal RMSD over rotations and translations", rec,
                     observed={"frame": f, "rmsd": float(nopre[f])}, expected={"rmsd": math.sqrt(msd), "tol_msd": tol},
                     tags={"kind": "rmsd_value", "op": "rmsd", "gen": gen["kind"]})
            return
        if edited and flags[0] and flags[1] and not centred:
            # the user moved the coordinates behind the object's back: documented precondition of precentered violated
            excl["precentered_after_user_edit"] = excl.get("precentered_after_user_edit", 0) + 1
            continue
        got = float(pre[f]) ** 2
        track("rmsd_precentered_history", abs(got - msd) / tol)
        if not abs(got - msd) <= tol:
            ctx.fail("md.rmsd(precentered=True) is wrong after a history of public operations (stale or missing cached traces)", rec,
                     observed={"frame": f, "rmsd_precentered": float(pre[f]), "rmsd_not_precentered": float(nopre[f]),
                               "traces_present": [int(v) for v in flags], "coordinates_centred": bool(centred), "history": kinds},
                     expected={"rmsd": math.sqrt(msd), "tol_msd": tol},
                     tags={"kind": "precentered_history", "gen": gen["kind"]})
            return


def rmsf_cur_emulation(target, A, Rs):
    """AS FOUND (_rmsd.pyx:rmsf with atom_indices): `np.array(target.xyz[:, atom_indices, :], copy=True)` has memory
    order (atom, frame, xyz); rot_atom_major(&copy[i,0,0]) then rotates the 3*k floats that FOLLOW element [i,0,0]
    in memory (atoms of other frames), frame after frame, and the copy was never centred.  Serial execution is
    deterministic and is reproduced here; under prange the same writes race."""
    F, k = target.shape[0], len(A)
    y = np.array(target[:, A, :], copy=True)
    flat = np.ascontiguousarray(y.transpose(1, 0, 2)).astype(np.float64).reshape(-1)
    for i in range(F):
        seg = flat[3 * i:3 * i + 3 * k]
        if len(seg) < 3 * k:
            return None
        seg[:] = (seg.reshape(k, 3) @ Rs[i]).reshape(-1)
    Y = flat.reshape(k, F, 3).transpose(1, 0, 2)
    return np.sqrt(((Y - Y.mean(0)) ** 2).sum(-1).mean(0))


def classify_pending(ctx, pending):
    """Attribute superposition failures to the as-found choice of the adjugate column, using the Gallina model
    (exact integers, vm_compute).  A failure the model does not explain is a violation."""
    if not pending:
        return
    items = []
    for p in pending:
        pairs, unit = exact_centred_pairs(p["a"], p["b"])
        num, den, _lam = lam_fraction(pairs)
        items.append((pairs, num, den, unit))
    reps = model_reports(ctx, items)
    stats = ctx.notes.setdefault("coverage_extra", {}).setdefault("adjugate_column_buckets", {})
    follows_cur = True     # every sure prediction "identity" of the as-found variant is observed
    sure = []
    for p, r in zip(pending, reps):
        cur_fb, fix_fb, guard, illc = bool(r & 8), bool(r & 4), bool(r & 2), bool(r & 1)
        p.update(cur_fb=cur_fb, fix_fb=fix_fb, guard=guard, illc=illc)
        if cur_fb and not guard and not fix_fb:
            sure.append(p)
            if not p["ident"]:
                follows_cur = False
    for p in pending:
        key = "%s:%s" % (p["gen"], "ok" if p["ok"] else ("identity" if p["ident"] else "wrong"))
        stats[key] = stats.get(key, 0) + 1
        if p["ok"]:
            continue
        if p["fix_fb"]:
            stats["excluded_degenerate"] = stats.get("excluded_degenerate", 0) + 1
            continue      # K - lam I has rank <= 2 (e.g. collinear atoms): outside the quantifier of the property
        cause = None
        if p["illc"]:
            cause = "first_column_vanishes"
        elif p["cur_fb"] and p["ident"]:
            cause = "absolute_threshold"
        explained = cause is not None and (follows_cur or cause == "first_column_vanishes")
        ctx.fail("Trajectory.superpose does not attain the minimal RMSD"
                 + (" (adjugate column choice: %s)" % cause if explained else ""), p["rec"],
                 observed={"frame": p["f"], "deviation_after_superpose": p["dev"], "identity_rotation": p["ident"]},
                 expected={"minimal_rmsd": p["opt"], "tol": p["tol"],
                           "model": {"cur_falls_back": p["cur_fb"], "cur_ill_conditioned": p["illc"], "guard": p["guard"]}},
                 tags={"kind": "superpose_not_optimal", "gen": p["gen"],
                       "explained_by": ("rot_cur" if explained else None), "cause": cause if explained else None})
    stats["sure_identity_predictions"] = len(sure)
    stats["implementation_follows"] = "rot_cur" if (sure and follows_cur) else ("rot_fix" if all(p["ok"] for p in pending) else "neither/undetermined")


def exact_tie(ctx, cases, arrays, out):
    """Integer-grid cases: Gallina coefficients == independent exact characteristic polynomial; the
    implementation's rmsd must be the largest root of that polynomial."""
    coqcases, meta, flatcases = [], [], []
    for k, c in enumerate(cases):
        if c["gen"]["kind"] not in ("grid", "half_turn_axis", "swapped_halves"):
            continue
        target, ref = arrays[k]
        unit = c["gen"]["unit"]
        for f in range(target.shape[0]):
            xa = [[int(round(float(v) * unit)) for v in row] for row in target[f]]
            xb = [[int(round(float(v) * unit)) for v in row] for row in ref[0]]
            pairs = list(zip(xa, xb))
            coef = charpoly_exact(horn_matrix(pairs))
            ga = sum(v * v for x, _ in pairs for v in x)
            gb = sum(v * v for _, y in pairs for v in y)
            assert coef[1] == 0
            coqcases.append((coq_pairs(pairs), "(%s, %s, %s, %s, %s)" % (cz(coef[2]), cz(coef[3]), cz(coef[4]), cz(ga), cz(gb))))
            # the same through the kernels' loop structure: flat atom-major buffers, block/mask/remainder arithmetic of
            # msd_atom_major and the trace pass of the centring kernel (coq/Rmsd/Layout.v on coq/Gen/RmsdLayout.v)
            flatcases.append(("(%d, %s, %s)" % (len(xa), clist([cz(v) for row in xa for v in row]), clist([cz(v) for row in xb for v in row])),
                              "Some (%s, %s, %s, %s, %s)" % (cz(coef[2]), cz(coef[3]), cz(coef[4]), cz(ga), cz(gb))))
            meta.append((k, f, pairs, coef, ga, gb, unit))
    if not coqcases:
        return
    bad, errs = ctx.coq_mismatches(["MD.Rmsd.Model"], ("list ZM.apair", "Z * Z * Z * Z * Z"), "ZM.coeffs_eqb", "ZM.coeffs", coqcases)
    if errs:
        ctx.break_("correspondence:coqc-evaluation", "\n".join(errs))
        return
    bad2, errs2 = ctx.coq_mismatches(["MD.Rmsd.Model", "MD.Rmsd.Layout"], ("nat * list Z * list Z", "option (Z * Z * Z * Z * Z)"),
                                     "ocoeffs_eqb", "coeffs_flat", flatcases)
    if errs2:
        ctx.break_("correspondence:coqc-evaluation", "\n".join(errs2))
    for i in bad2:
        k, f, pairs, coef, ga, gb, unit = meta[i]
        ctx.break_("correspondence:layout-model-vs-exact",
                   "coefficients computed through the kernels' loop structure (masks, block counts, remainders read from the sources) "
                   "differ from det(tI-K) computed exactly: %d atoms (n mod 4 = %d), case %s frame %d" % (len(pairs), len(pairs) % 4, cases[k]["gen"], f))
    lay = ctx.notes.setdefault("coverage_extra", {}).setdefault("layout_model_evaluations_by_n_mod_4", {})
    for (k, f, pairs, coef, ga, gb, unit) in meta:
        lay[str(len(pairs) % 4)] = lay.get(str(len(pairs) % 4), 0) + 1
    for i in bad:
        k, f, pairs, coef, ga, gb, unit = meta[i]
        ctx.break_("correspondence:charpoly-model-vs-exact",
                   "Gallina coefficients (from the source text) differ from det(tI-K) computed exactly: case %s frame %d" % (cases[k]["gen"], f))
    excluded = 0
    for i, (k, f, pairs, coef, ga, gb, unit) in enumerate(meta):
        if i in bad:
            continue
        num, den, lam = lam_fraction(pairs)
        verdict = top_root_check(coef, lam)
        if verdict == "no":
            ctx.break_("oracle:eigvalsh-not-top-root", "float64 eigenvalue is not the largest root of the exact polynomial: %s" % (cases[k]["gen"],))
            continue
        if verdict == "excluded":
            excluded += 1
            continue
        n = len(pairs)
        msd_exact = float(Fraction(ga + gb) - 2 * Fraction(num, den)) / (n * unit * unit)
        msd_exact = max(msd_exact, 0.0)
        size2 = (ga + gb) / float(n * unit * unit)
        for j, op in enumerate(cases[k]["ops"]):
            if op["op"] != "rmsd":
                continue
            got = float(out["c%d_o%d" % (k, j)][f]) ** 2
            w = np.linalg.eigvalsh(np.array(horn_matrix(pairs), dtype=np.float64))
            kappa = float(np.prod((w[-1] - w[:-1]) / ((ga + gb) / 2.0)))
            if kappa < KAPPA_MIN:
                excluded += 1
                continue
            tol = C_MSD * EPS * size2 * (1 + 1 / kappa)
            ctx.count({"gen": cases[k]["gen"], "op": op, "f": f, "exact": True}, nontrivial=True, bucket="exact_top_root")
            if abs(got - msd_exact) > tol:
                ctx.fail("md.rmsd is not the largest root of the characteristic polynomial of K (exact evaluation)",
                         {"gen": cases[k]["gen"], "ops": [op]}, observed={"frame": f, "rmsd": math.sqrt(got)},
                         expected={"rmsd": math.sqrt(msd_exact), "C2,C1,C0": [str(v) for v in coef[2:]]},
                         tags={"kind": "rmsd_not_top_root", "gen": cases[k]["gen"]["kind"]})
    ctx.notes.setdefault("coverage_extra", {})["exact_top_root_excluded_degenerate"] = excluded


def oracle_selfcheck(ctx, cases, arrays):
    """The Kabsch oracle itself: random rotations (global and small perturbations of the optimum) never give a
    lower residual than the value it reports."""
    rs = np.random.RandomState(ctx.rng.randrange(2 ** 31 - 1))
    probes = 0
    for k, c in enumerate(cases[:: max(1, len(cases) // 40)]):
        target, ref = arrays[cases.index(c)]
        n = min(target.shape[1], ref.shape[1])
        a, b = target[0][:n], ref[0][:n]
        msd, R, ca, cb = kabsch(a, b)
        A, B = a.astype(np.float64) - ca, b.astype(np.float64) - cb
        for t in range(40 if ctx.tier == "quick" else 200):
            if t % 2:
                Rp = R @ rotmat(rs.randn(3), 10.0 ** -rs.uniform(1, 4))
            else:
                Rp = rotmat(rs.randn(3), rs.uniform(0, math.pi))
            val = float(((A @ Rp - B) ** 2).sum()) / n
            probes += 1
            if val < msd - 1e-9 * max(1.0, msd):
                ctx.break_("oracle:kabsch-not-minimal", "a probe rotation gives a lower residual than the SVD oracle: %s" % (c["gen"],))
                return
    ctx.notes.setdefault("coverage_extra", {})["oracle_optimality_probes"] = probes


def run_cases(ctx, cases, batch=60):
    for s in range(0, len(cases), batch):
        chunk = cases[s:s + batch]
        arrays, out, errors = run_impl_cases(ctx, chunk)
        pending = check_cases(ctx, chunk, arrays, out, errors)
        classify_pending(ctx, pending)
        exact_tie(ctx, chunk, arrays, out)

        if s == 0:
            oracle_selfcheck(ctx, chunk, arrays)


def newton_tie(ctx):
    """Outside the obligations: is one pass through NewtonSolve's loop body (regenerated) the Newton map of the model?
    NewtonSolve is not called by msdFromMandG, so a difference is recorded in the evidence but raises no alarm."""
    text = ("From Coq Require Import Reals Lra.\nRequire Import MD.Gen.RmsdFormulas MD.Rmsd.Solver.\nLocal Open Scope R_scope.\n"
            "Lemma newton_tie : forall a2 a1 a0 t, P' a2 a1 t <> 0 -> Newton.step t a0 a1 a2 = N a2 a1 a0 t.\n"
            "Proof. intros a2 a1 a0 t H. unfold Newton.step, N, P, P' in *. field. intro E. apply H. rewrite <- E. ring. Qed.\n")
    try:
        rc, out = ctx.coqc_text("newton_tie", text, timeout=120)
        ok = rc == 0
    except Exception:
        ok = False
    ctx.notes.setdefault("coverage_extra", {})["newton_solve_source_is_model_newton_map"] = ok


def correspond(ctx):
    newton_tie(ctx)
    cases = build_cases(ctx)
    ctx.log("cases:", len(cases), "ops:", sum(len(c["ops"]) for c in cases))
    run_cases(ctx, cases)
    ctx.notes.setdefault("coverage_extra", {})["bounds"] = {
        "C_MSD": C_MSD, "factor": "(1+1/kappa)", "C_SUP": C_SUP, "C_RIG": C_RIG, "C_RMSF": C_RMSF, "unit": "2^-23"}


def search(ctx, broken):
    # the correspondence already runs the property oracle (minimal RMSD by an independent method) on the
    # implementation; after a broken proof/tie run a second, larger stream of the generic buckets
    extra = []
    rng = ctx.rng
    for _ in range(3):
        for kind in GENERIC_KINDS:
            for n in SMALL_SIZES:
                gen = {"kind": kind, "n": n, "m": n, "F": 2, "G": 1, "scale": 1.0, "seed": rng.randrange(1, 2 ** 31 - 1)}
                if kind == "offset":
                    gen["offset"] = 50.0
                extra.append({"gen": gen, "ops": gen_ops(rng, gen, True)})
    run_cases(ctx, extra)


def refresh_model(ctx, targets):
    """A replay skips the translate/prove stages: regenerate the formulas from the tree being replayed against and
    rebuild the (proof-free) model files, so that the Gallina side is evaluated for THIS tree."""
    try:
        translate(ctx)
    except Exception as e:       # degraded translator: the last generated text stands in
        ctx.log("translator degraded:", e)
    ok, log = ctx.make(list(targets))
    if not ok:
        ctx.break_("replay:model-build", log)


def replay(ctx, rec):
    refresh_model(ctx, ["Rmsd/Model.vo"])
    run_cases(ctx, [rec["case"]])
